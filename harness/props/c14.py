"""
C14 — every derived stream property reflects the current state, never a stale one.

Adapter: histories of property reads interleaved with every public mutator on real
Stream / MultiStream objects (plus proxies, flow proxies, links, phase views, copies).
`_get_property` is wrapped at run time (no source edits) so that each memo lookup becomes one
protocol line carrying the id of the current (literal, composition) key; hit/miss is observed
by counting real evaluations of the mixture functions.  Oracle: the value read equals the
value of a freshly built stream with the same flows, phase(s), T, P.
Lean model: lean/ThermoVerif/Model/PropCache.lean.
"""
from __future__ import annotations
import random, warnings
import numpy as np
from harness.core import Case, ImplResult, close

PID = 'C14'
LEAN_MODULES = ['ThermoVerif.Props.C14']
RULE = ('histories (≤40 ops) of property reads interleaved with mutators (T, P, H and S setters, phase, phases, flow edits, moving a whole phase, scale, '
        'empty, mix, copy_like, copy_flow, copy_thermal_condition, split_to, vle, mass-view and total-flow writes, smallest '
        'nudges of T / P / one flow, link, unlink, property-package reset and copy(thermo=) incl. another mixture over the same '
        'chemicals object, writes through phase views / linked streams / proxies) '
        'on 1–3 real streams; non-trivial = at least one memo hit and one state change between reads; '
        'distinct = distinct op sequences')
ASSUMPTIONS = [
    'calc purity: a mixture property depends only on (phase(s), T, P, composition) and the property package '
    '(monitored: every read is compared with a freshly built stream in the same state)',
    'the adapter numbers keys by exact equality of (nophase, phase(s), T, P, composition dict)',
    'model mutator table (which public mutators call reset_cache) mirrors the code: unlink, link_with(flow or TP), '
    'MultiStream.phases=<different set>, _reset_thermo(<other package>)',
    'the property package is explicit model state: every read line carries the package the real object computed with and '
    'must equal the model object\'s package',
    'a read that raises is judged against a fresh stream in the same state (raises there too = the models reject the state)',
    'reads on objects whose package and flow indexer are out of step (proxy / flow-linked partner changed package; DESIGN '
    '§12.7 C12-8) are skipped and tagged; links across different packages are not generated',
    'a history ends at a mutator the library rejects after it may have run partly (tagged history:cut-at:*); rejections '
    'that are known to precede any mutation (class mismatch of link, phase set dropping a non-empty phase) are skipped',
]
TRUSTED = ['Lean 4.33 kernel', 'harness/props/c14.py + Driver/C14.lean', 'generator reach (see histogram)']

tmo = None
THERMOS = []
ATTRS_SINGLE = ['H', 'S', 'C', 'h', 'V', 'kappa', 'Cn', 'mu', 'sigma', 'epsilon', 'Cp', 'alpha', 'rho', 'nu', 'Pr',
                'Hvap', 'F_vol']
ATTRS_MULTI = ['H', 'S', 'C', 'h', 'V', 'kappa', 'Cn', 'mu', 'sigma', 'epsilon', 'Cp', 'rho', 'Hvap', 'F_vol']
NAMES = ['H', 'S', 'Cn', 'V', 'mu', 'kappa', 'sigma', 'epsilon', 'Hvap']
_REC = None          # active recorder
_ILL = []            # reads skipped because package and indexer are out of step
_EXEC = []           # operations of the last history that really ran
_TRUNC = []          # where the last history was cut short (an operation the library rejected)
_NOTE = set()     # per-case information tags (revisited states, packages read under, NaN-vs-NaN reads)
_COUNT = [0]


def setup():
    global tmo
    import thermosteam as tmo_
    tmo = tmo_
    warnings.simplefilter('ignore')
    # `dew_point.gamma_iter` is `@njit(cache=True)` and takes a numba dispatcher as argument: saving its specialisation
    # to the on-disk cache index raises `ReferenceError: underlying object has vanished`.  Keep it out of the disk cache.
    try:
        from numba.core.caching import NullCache
        from thermosteam.equilibrium import dew_point as _dpm
        _dpm.gamma_iter._cache = NullCache()
    except Exception:
        pass
    chems = tmo.Chemicals(['Water', 'Ethanol', 'Methanol', 'Glycerol'], cache=True)
    t1 = tmo.Thermo(chems, cache=False)
    chems2 = tmo.Chemicals(['Ethanol', 'Water', 'Glycerol', 'Methanol', 'Propanol'], cache=True)
    t2 = tmo.Thermo(chems2, cache=False)
    # same chemicals in the same order as t1, but water's liquid Cn and V models differ: a package
    # change that leaves flows, phase, T, P and composition keys untouched
    cs = [c.copy(c.ID, CAS=c.CAS) for c in chems]
    cs[0].Cn.l.add_method(80.0); cs[0].V.l.add_method(2e-5)
    t3 = tmo.Thermo(tmo.Chemicals(cs), cache=False)
    # the SAME compiled chemicals object as t1 under another mixture model (excess energies included): a package
    # change (or `copy(thermo=)`) that leaves the chemicals object, flows, phase, T, P and composition keys untouched
    t4 = tmo.Thermo(chems, mixture=tmo.IdealMixture.from_chemicals(chems, include_excess_energies=True), cache=False)
    # the same compiled chemicals under an equation-of-state mixture (Peng-Robinson): its H / S / Cn functions take
    # per-phase arguments that the mixture object loads for a solve and must clear afterwards
    t5 = tmo.Thermo(chems, mixture=tmo.PRMixture.from_chemicals(chems), cache=False)
    THERMOS[:] = [t1, t2, t3, t4, t5]
    tmo.settings.set_thermo(t1)
    # count real evaluations of the mixture functions: methods of the mixture class (H, S, xH, …) are wrapped on
    # the class; properties held as model objects in slots (Cn, V, mu, kappa, …) by wrapping their class's __call__
    import types
    def counted(f):
        def g(*a, **k):
            _COUNT[0] += 1
            return f(*a, **k)
        g._verif_counted = True
        return g
    for th in THERMOS:
        mix = th.mixture
        cls = type(mix)
        for nm in NAMES + ['x' + n for n in NAMES]:
            f = None
            for k in cls.__mro__:
                if nm in k.__dict__:
                    f = k.__dict__[nm]; owner = k; break
            if isinstance(f, types.FunctionType):
                if not getattr(f, '_verif_counted', False):
                    setattr(owner, nm, counted(f))
                continue
            obj = getattr(mix, nm, None)
            if obj is None: continue
            ocls = type(obj)
            call = ocls.__dict__.get('__call__')
            if isinstance(call, types.FunctionType) and not getattr(call, '_verif_counted', False):
                ocls.__call__ = counted(call)
    # record every memo lookup
    for cls in (tmo.Stream, tmo.MultiStream):
        orig = cls.__dict__['_get_property']
        if getattr(orig, '_verif_wrapped', False): continue
        def mk(orig):
            def _get_property(self, name, flow=False, nophase=False):
                before = _COUNT[0]
                key = state_key(self, nophase) if _REC is not None else None
                try:
                    v = orig(self, name, flow, nophase)
                except Exception:
                    if _REC is not None: _REC.failed(self, key)
                    raise
                if _REC is not None:
                    _REC.lookup(self, name, nophase, _COUNT[0] > before, v)
                return v
            _get_property._verif_wrapped = True
            return _get_property
        cls._get_property = mk(orig)


def warmup():
    """compile the numba kernels the vle op needs (cold cache for every VERIF_REPO copy) before the clock starts"""
    try:
        ms = tmo.MultiStream(None, l=[('Water', 5.), ('Ethanol', 5.)], phases=('g', 'l'), thermo=THERMOS[0])
        ms.vle(T=355.0, P=101325.0)
    except Exception:
        pass


def budget(tier):
    return {'quick': dict(seconds=70, cases=1200, shrink_s=20, search_s=10),
            'thorough': dict(seconds=480, cases=60000, shrink_s=40, search_s=30)}[tier]


def pkg_id(th):
    """number of a property package object (its place in THERMOS)"""
    for i, t in enumerate(THERMOS):
        if t is th: return i
    THERMOS.append(th)
    return len(THERMOS) - 1


def state_key(s, nophase):
    """canonical key of the observable state, computed through the public API"""
    data = s.imol.data
    total = data.sum()
    if total == 0: return None
    comp = data / total
    if isinstance(s, tmo.MultiStream):
        ck = tuple(tuple(sorted(r.dct.items())) for r in comp.rows)
        lit = (tuple(s.phases), s.T, s.P) if not nophase else (s.T, s.P)
    else:
        ck = tuple(sorted(comp.dct.items()))
        lit = (s.phase, s.T, s.P) if not nophase else (s.T, s.P)
    return (bool(nophase), lit, ck)


class Recorder:
    def __init__(self, world):
        self.world = world
        self.lines = []       # (model line, impl answer)

    def lookup(self, obj, name, nophase, miss, value):
        w = self.world
        oid = w.oid(obj)
        if oid is None: return      # an object outside the universe (e.g. the fresh reference stream)
        k = state_key(obj, nophase)
        if k is None:
            self.lines.append((f'readempty {oid}', 'none'))
        else:
            kid = w.keys.setdefault(k, len(w.keys))
            self.lines.append((f'read {oid} {name} {kid}', ('miss' if miss else 'hit') + f' p{pkg_id(obj.thermo)} d{w.dict_no(obj._property_cache)}'))


def _failed(self, obj, k):
    w = self.world
    oid = w.oid(obj)
    if oid is None or k is None: return
    kid = w.keys.setdefault(k, len(w.keys))
    self.lines.append((f'readfail {oid} {kid}', 'raised'))
Recorder.failed = _failed


class World:
    def __init__(self):
        self.objs = []          # real objects; index = model object id
        self.keys = {}
        self.views = {}         # (id(parent), phase) -> object id
        self.kind = []          # 'plain' | 'proxy' | 'view' | 'flowproxy' | 'copy'
        self.last_mut = ['-']
        self.proxied = set()    # object ids that have a proxy
        self.snaps = {}         # object id -> StreamData from get_data()
        self.dicts = []         # memo dict objects in order of first appearance on a read line (kept alive: ids stay unique)
        self.seen = {}          # (package, property, state) -> first value read there in this history
        self.executed = []      # operations that really ran (a generated op may be skipped or cut off)

    def dict_no(self, d):
        for i, x in enumerate(self.dicts):
            if x is d: return i
        self.dicts.append(d)
        return len(self.dicts) - 1

    def oid(self, obj):
        for i, o in enumerate(self.objs):
            if o is obj: return i
        return None

    def add(self, obj, kind):
        self.objs.append(obj); self.kind.append(kind)
        return len(self.objs) - 1


def fresh_like(s):
    """a freshly created stream with the same flows, phase(s), T, P (and property package)"""
    th = s.thermo
    if isinstance(s, tmo.MultiStream):
        f = tmo.MultiStream(None, T=s.T, P=s.P, phases=tuple(s.phases), thermo=th)
        for ph in s.phases:
            f.imol[ph] = s.imol[ph]
    else:
        f = tmo.Stream(None, T=s.T, P=s.P, phase=s.phase, thermo=th)
        f.imol.data[:] = s.imol.data.to_array() if hasattr(s.imol.data, 'to_array') else s.imol.data
    return f


def same(a, b):
    if a is None or b is None: return a is None and b is None
    a, b = float(a), float(b)
    if a != a or b != b: return a != a and b != b
    # relative only: transport properties are as small as 1e-6 (an absolute 1e-9 would hide 0.1 % staleness there)
    return a == b or abs(a - b) <= 1e-9 * max(abs(a), abs(b))


def run_ops(ops):
    global _REC
    w = World()
    model_in, outs, failures = [], [], []
    hits = changes = 0
    trunc = _TRUNC; trunc.clear(); _NOTE.clear()
    _EXEC.clear(); w.executed = _EXEC
    illformed = _ILL; illformed.clear()
    def emit(line, ans):
        model_in.append(line); outs.append(ans)
    for i, line in enumerate(ops):
        t = line.split(' ')
        op = t[0]
        try:
            if op == 'new':
                kind, th, T, P = t[1], THERMOS[int(t[2])], float(t[3]), float(t[4])
                flows = [float(x) for x in t[6].split(',')]
                if kind == 'single':
                    s = tmo.Stream(None, T=T, P=P, phase=t[5], thermo=th)
                    s.imol.data[:] = flows[:len(th.chemicals)]
                else:
                    phases = tuple(t[5])
                    s = tmo.MultiStream(None, T=T, P=P, phases=phases, thermo=th)
                    n = len(th.chemicals)
                    for j, ph in enumerate(s.phases):
                        s.imol[ph] = [flows[(j * n + c) % len(flows)] * (1 if (j + c) % 2 == 0 else 0.5) for c in range(n)]
                w.add(s, 'plain'); emit(f'new {pkg_id(s.thermo)}', f'ok {len(w.objs) - 1}')
            elif op == 'copy':
                w.add(w.objs[int(t[1])].copy(), 'copy'); emit(f'new {pkg_id(w.objs[-1].thermo)}', f'ok {len(w.objs) - 1}')
            elif op == 'copythermo':
                w.add(w.objs[int(t[1])].copy(thermo=THERMOS[int(t[2])]), 'copy'); emit(f'new {pkg_id(w.objs[-1].thermo)}', f'ok {len(w.objs) - 1}')
            elif op == 'fromdata':
                src = w.objs[int(t[1])]
                w.add(type(src).from_data(src.get_data(), thermo=src.thermo), 'copy'); emit(f'new {pkg_id(w.objs[-1].thermo)}', f'ok {len(w.objs) - 1}')
            elif op == 'flowproxy':
                w.add(w.objs[int(t[1])].flow_proxy(), 'flowproxy'); emit(f'new {pkg_id(w.objs[-1].thermo)}', f'ok {len(w.objs) - 1}')
            elif op == 'proxy':
                w.add(w.objs[int(t[1])].proxy(), 'proxy'); w.proxied.add(int(t[1]))
                emit(f'proxy {t[1]}', f'ok {len(w.objs) - 1}')
            elif op == 'view':
                o = int(t[1]); s = w.objs[o]
                if isinstance(s, tmo.MultiStream) and t[2] in s.phases:
                    key = (id(s), t[2])
                    v = s[t[2]]
                    existing = w.oid(v)
                    if existing is None:
                        w.views[key] = w.add(v, 'view'); emit(f'view {o}', f'ok {len(w.objs) - 1}')
                    else:
                        w.views[key] = existing     # e.g. reached again through a proxy sharing `_streams`
            elif op == 'read':
                o = int(t[1]); s = w.objs[o]; attr = t[2]
                rec = Recorder(w); _REC = rec
                err = None
                try:
                    val = getattr(s, attr)
                except Exception as e:
                    err = e
                finally:
                    _REC = None
                for ml, ans in rec.lines:
                    emit(ml, ans)
                    if ans.startswith('hit'): hits += 1
                w.executed.append('read')
                if s.thermo.chemicals is not s.imol.chemicals:
                    # the stream's package and its flow indexer are out of step: a proxy (or flow-linked stream) whose
                    # partner changed package re-keyed the shared indexer (DESIGN §12.7, C12-8).  "A fresh stream with
                    # the same flows" is undefined for such an object; not C14's concern.
                    illformed.append(1)
                    continue
                if err is not None:
                    # the read raised.  Legitimate when the property models reject this state (e.g. no Hvap model
                    # for the phase): then a freshly created stream in the same state raises as well.  If the fresh
                    # stream answers, the raise is the stream's own (memo) doing.
                    try:
                        ref = getattr(fresh_like(s), attr); fresh_ok = True
                    except Exception:
                        fresh_ok = False
                    if fresh_ok:
                        failures.append({'signature': f'raises:{type(err).__name__}:after-{w.last_mut[0]}', 'op_index': len(model_in) - 1,
                                         'what': f'reading `{attr}` raised {type(err).__name__}: {err} but a fresh stream in the '
                                                 f'same state gives {ref!r} (object kind {w.kind[o]}, last mutation {w.last_mut[0]})'})
                    continue
                if isinstance(s, tmo.MultiStream) and len(s.phases) != s.imol.data.shape[0]:
                    continue          # phase labels and flow rows out of step (data shared with a stream of other
                                      # phases): "the same flows and phases" is undefined; C13's concern, not C14's
                try:
                    ref = getattr(fresh_like(s), attr)
                except Exception:
                    continue          # the reference stream cannot be built / read in this state: nothing to compare
                # "regardless of how the stream reached that state": an earlier read of the same property in the very same
                # state (package, phase(s), T, P, flows) during this history gave the value the property has there
                hk = (pkg_id(s.thermo), attr, state_key(s, False), tuple(map(float, np.asarray(s.imol.data.sum(0) if isinstance(s, tmo.MultiStream) else s.imol.data.to_array()).ravel())))
                if hk in w.seen: _NOTE.add('same-state-revisit')
                if val != val and ref != ref: _NOTE.add('read:nan-both')     # e.g. after `badset S`: a vacuous comparison, counted
                _NOTE.add(f'read:pkg{pkg_id(s.thermo)}')
                if hk in w.seen and not same(w.seen[hk], val) and same(val, ref):
                    failures.append({'signature': f'history-dependent:{w.kind[o]}:after-{w.last_mut[0]}', 'op_index': len(model_in) - 1,
                                     'what': f'`{attr}` reads {val!r} (a fresh stream agrees) but the same property read earlier in this history in the '
                                             f'identical state gave {w.seen[hk]!r}: the value depends on what happened in between (last mutation {w.last_mut[0]})'})
                w.seen.setdefault(hk, val)
                if not same(val, ref):
                    kind = 'proxy-pair' if (w.kind[o] == 'proxy' or o in w.proxied) else w.kind[o]
                    sig = f'stale:{kind}:after-{w.last_mut[0]}'
                    failures.append({'signature': sig, 'op_index': len(model_in) - 1,
                                     'what': f'`{attr}` read {val!r} but a fresh stream in the same state gives {ref!r} '
                                             f'(object kind {w.kind[o]}, last mutation {w.last_mut[0]})'})
            elif op == 'readflow':
                # per-chemical flows in volumetric / mass units: "quantities derived from" the molar volume, held in
                # flow views with a memo of their own (the per-chemical molar volumes at the T, P of the last write).
                # No `_get_property` lookup is involved, so the model has no line for it: judged by the oracle alone.
                o = int(t[1]); s = w.objs[o]; units = t[2]
                rec = Recorder(w); _REC = rec
                err = None
                try:
                    val = np.asarray(s.get_flow(units), float)
                except Exception as e:
                    err = e
                finally:
                    _REC = None
                for ml, ans in rec.lines: emit(ml, ans)
                w.executed.append('readflow')
                if s.thermo.chemicals is not s.imol.chemicals:
                    illformed.append(1)
                    continue
                if isinstance(s, tmo.MultiStream) and len(s.phases) != s.imol.data.shape[0]:
                    continue
                try:
                    ref = np.asarray(fresh_like(s).get_flow(units), float)
                except Exception:
                    continue
                if err is not None:
                    failures.append({'signature': f'raises:{type(err).__name__}:after-{w.last_mut[0]}', 'op_index': max(len(model_in) - 1, 0),
                                     'what': f'get_flow({units!r}) raised {type(err).__name__}: {err} but a fresh stream in the same state answers'})
                    continue
                if val.shape != ref.shape or not np.allclose(val, ref, rtol=1e-9, atol=0.0, equal_nan=True):
                    failures.append({'signature': f'stale-flow:{units}:{w.kind[o]}:after-{w.last_mut[0]}', 'op_index': max(len(model_in) - 1, 0),
                                     'what': f'get_flow({units!r}) gives {val.tolist()!r} but a fresh stream with the same molar flows, '
                                             f'phase(s), T and P gives {ref.tolist()!r} (object kind {w.kind[o]}, last mutation {w.last_mut[0]})'})
            else:
                # mutators (the recorder stays on: some of them read properties themselves)
                o = int(t[1]); s = w.objs[o]
                mk = 'state'
                rec = Recorder(w); _REC = rec
                if op in ('setH', 'setS'):
                    # move the stream to the enthalpy / entropy it would have `dT` kelvin away, through the setter
                    ref = fresh_like(s); ref.T = s.T + float(t[2])
                    target = ref.H if op == 'setH' else ref.S
                    _REC = rec
                    if op == 'setH': s.H = target
                    else: s.S = target
                elif op == 'movephase':
                    # all material of one phase moves to another phase (same T, P, totals)
                    a, b = t[2], t[3]
                    if not (isinstance(s, tmo.MultiStream) and a in s.phases and b in s.phases and a != b):
                        _REC = None
                        continue
                    s.imol[b] = s.imol[b] + s.imol[a]
                    s.imol[a] = 0
                elif op == 'gather':
                    # all material of every phase is put into one phase; the others are left empty
                    a = t[2]
                    if not (isinstance(s, tmo.MultiStream) and a in s.phases):
                        _REC = None
                        continue
                    tot = s.imol.data.sum(0)
                    for ph in s.phases: s.imol[ph] = 0
                    s.imol[a] = tot
                elif op == 'setT': s.T = float(t[2])
                elif op == 'setP': s.P = float(t[2])
                elif op == 'setphase':
                    if isinstance(s, tmo.MultiStream): mk = 'collapse'
                    s.phase = t[2]
                    if mk == 'collapse':
                        for k in [k for k in w.views if k[0] == id(s)]: del w.views[k]
                elif op == 'setphases':
                    ps = tuple(t[2])
                    held = [ph for ph in s.phases if s.imol[ph].any()] if isinstance(s, tmo.MultiStream) else [s.phase]
                    if not all(ph in ps or ph.lower() in ps or ph.upper() in ps for ph in held):
                        _REC = None
                        continue    # the library rejects a phase set that drops a non-empty phase: not a mutation
                    if isinstance(s, tmo.MultiStream):
                        if len(set(ps)) == 1:
                            mk = 'collapse'
                            for k in [k for k in w.views if k[0] == id(s)]: del w.views[k]
                        elif tuple(tmo._phase.phase_tuple(set(ps))) != tuple(s.phases): mk = 'resets'
                    elif len(set(ps)) > 1:
                        mk = 'rebind'       # single -> multi: a new, empty `_streams` dict is bound
                    s.phases = ps
                elif op == 'setflow':
                    d = s.imol.data; j = int(t[2]); n = d.shape[-1]
                    if d.ndim == 1: d[j % n] = float(t[3])
                    else: d[(j // n) % d.shape[0], j % n] = float(t[3])
                elif op == 'setflowkey':
                    if isinstance(s, tmo.MultiStream): s.imol[s.phases[int(t[4]) % len(s.phases)], t[2]] = float(t[3])
                    else: s.imol[t[2]] = float(t[3])
                elif op == 'nudge':
                    # the smallest changes of state: the memo key must see them
                    what, rel = t[2], float(t[3])
                    if what == 'T': s.T = s.T + rel
                    elif what == 'P': s.P = s.P * (1 + rel)
                    else:
                        d = s.imol.data; j = int(what); n = d.shape[-1]
                        if d.ndim == 1: d[j % n] = d[j % n] * (1 + rel)
                        else: d[(j // n) % d.shape[0], j % n] = d[(j // n) % d.shape[0], j % n] * (1 + rel)
                elif op == 'snap':
                    # get_data(): a snapshot of flows, phases, T, P (not a mutation; the recorder sees nothing)
                    w.snaps[o] = s.get_data()
                    _REC = None
                    continue
                elif op == 'restore':
                    if o not in w.snaps:
                        _REC = None
                        continue
                    s.set_data(w.snaps[o])
                elif op == 'temporary':
                    # `with s.temporary(T=…)`: read a property inside, state restored on exit
                    with s.temporary(T=float(t[2])):
                        getattr(s, t[3])
                elif op == 'unitflow':
                    # flows that sum to exactly 1 kmol/hr (composition == flows), then an in-place composition edit
                    d = s.imol.data
                    if d.ndim != 1:
                        _REC = None
                        continue
                    a_, b_ = float(t[2]), 1.0 - float(t[2])
                    for j in range(d.shape[-1]): d[j] = 0.
                    d[0] = a_; d[1] = b_
                elif op == 'copylike': s.copy_like(w.objs[int(t[2])])
                elif op == 'copyflow': s.copy_flow(w.objs[int(t[2])])
                elif op == 'copytc': s.copy_thermal_condition(w.objs[int(t[2])])
                elif op == 'setmass':
                    if isinstance(s, tmo.MultiStream): s.imass[s.phases[int(t[4]) % len(s.phases)], t[2]] = float(t[3])
                    else: s.imass[t[2]] = float(t[3])
                elif op == 'badset':
                    # an assignment the solver must reject (no temperature gives it): the call raises, the stream may be left
                    # at another T / phase (a state change like any other), nothing else may be left behind anywhere
                    try:
                        if t[2] == 'H': s.H = -1e12
                        elif t[2] == 'S': s.S = float('nan')
                        else: s.h = -1e12
                    except Exception:
                        pass
                elif op == 'setvol':
                    # a flow assigned in volumetric units (fills the flow view's own molar-volume memo)
                    if isinstance(s, tmo.MultiStream): s.ivol[s.phases[int(t[4]) % len(s.phases)], t[2]] = float(t[3])
                    else: s.ivol[t[2]] = float(t[3])
                elif op == 'setprop':
                    # the other public setters of the thermal / total state
                    what, x = t[2], float(t[3])
                    if what == 'h':
                        ref = fresh_like(s); ref.T = s.T + x; s.h = ref.h
                    elif what == 'Hnet':
                        ref = fresh_like(s); ref.T = s.T + x; s.Hnet = ref.Hnet
                    elif what == 'F_mol': s.F_mol = s.F_mol * x if s.F_mol else x
                    elif what == 'F_mass': s.F_mass = s.F_mass * x if s.F_mass else x
                    elif what == 'F_vol': s.F_vol = s.F_vol * x
                elif op == 'settotal': s.set_total_flow(float(t[2]), t[3])
                elif op == 'splitto':
                    a, b = w.objs[int(t[2])], w.objs[int(t[3])]
                    if a is b or a is s or b is s or isinstance(s, tmo.MultiStream) != isinstance(a, tmo.MultiStream) \
                            or isinstance(s, tmo.MultiStream) != isinstance(b, tmo.MultiStream):
                        _REC = None
                        continue
                    # MultiStream.split_to gives the outlets the feed's phases first: the phases setter of an outlet
                    # whose phase set differs runs reset_cache() (mirrored here as the mutator table says)
                    pre_ph = [tuple(x.phases) for x in (a, b)] if isinstance(s, tmo.MultiStream) else None
                    s.split_to(a, b, float(t[4]), energy_balance=False)
                    if pre_ph is not None:
                        for x, ph0 in zip((a, b), pre_ph):
                            if ph0 != tuple(s.phases):
                                rec.lines.append((f'mut {w.oid(x)} resets', 'ok'))
                                for k in [k for k in w.views if k[0] == id(x)]: pass
                elif op == 'vle':
                    if not (isinstance(s, tmo.MultiStream) and 'l' in s.phases and 'g' in s.phases and set(s.phases) <= set('lg')):
                        _REC = None
                        continue
                    s.vle(T=float(t[2]), P=float(t[3]))
                elif op == 'scale': s.scale(float(t[2]))
                elif op == 'empty': s.empty()
                elif op == 'mix':
                    a, b = w.objs[int(t[2])], w.objs[int(t[3])]
                    s.mix_from([a, b], energy_balance=False)
                elif op == 'link':
                    other = w.objs[int(t[2])]
                    if isinstance(s, tmo.MultiStream) != isinstance(other, tmo.MultiStream):
                        _REC = None
                        continue    # rejected by the library (different classes): not a mutation
                    if isinstance(s, tmo.MultiStream) and isinstance(other, tmo.MultiStream) \
                            and tuple(s.phases) != tuple(other.phases):
                        continue    # linking multi-phase streams with different phase sets is outside the property
                    if s.imol.chemicals is not other.imol.chemicals or s.thermo.chemicals is not s.imol.chemicals \
                            or other.thermo.chemicals is not other.imol.chemicals:
                        continue    # sharing flow data between different property packages is meaningless
                    s.link_with(w.objs[int(t[2])], flow=t[3] == '1', phase=t[4] == '1', TP=t[5] == '1')
                    if t[3] == '1' or t[5] == '1': mk = 'resets'     # repair 9090df2: link_with(flow or TP) runs reset_cache()
                elif op == 'unlink':
                    s.unlink(); mk = 'resets'
                elif op == 'thermo':
                    th = THERMOS[int(t[2])]
                    mk = f'thermo {int(t[2])}'
                    s._reset_thermo(th)
                elif op == 'viewflow':
                    ph = t[2]
                    if isinstance(s, tmo.MultiStream) and ph in s.phases:
                        v = s[ph]
                        if w.oid(v) is None:
                            w.views[(id(s), ph)] = w.add(v, 'view'); emit(f'view {o}', f'ok {len(w.objs) - 1}')
                        v.imol.data[int(t[3]) % v.imol.data.shape[-1]] = float(t[4])
                else:
                    raise ValueError('unknown op ' + line)
                _REC = None
                for ml, ans in rec.lines: emit(ml, ans)
                w.last_mut[0] = op; changes += 1
                w.executed.append(op)
                emit(f'mut {o} {mk}', 'ok')
        except (RuntimeError, ValueError, AttributeError, IndexError, KeyError, TypeError, tmo.exceptions.UndefinedPhase,
                tmo.exceptions.UndefinedChemicalAlias) as e:
            if op in ('new',): raise
            # an operation the library rejects in this state (e.g. linking different classes, unlinking a
            # locked view).  A mutator that raises may have run partly (e.g. `_reset_thermo` resets the
            # memo and then fails on a stale phase view), so what the memo looks like afterwards is
            # unknown to the model: the history ends here.
            _REC = None
            trunc.append(f'history:cut-at:{op}:{type(e).__name__}')
            break
    return model_in, outs, failures, hits, changes


def run_impl(case: Case) -> ImplResult:
    model_in, outs, failures, hits, changes = run_ops(case.ops)
    # tags count operations that really RAN in this case (a generated op may be skipped as inapplicable or cut off)
    created = {l.split(' ')[0] for l in case.ops if l.split(' ')[0] in ('new', 'copy', 'copythermo', 'fromdata', 'flowproxy', 'proxy', 'view')}
    tags = sorted(set(_EXEC) | created) + sorted({'ans:' + o.split(' ')[0] for o in outs}) + list(_TRUNC)
    tags.append('history:complete' if not _TRUNC else 'history:cut')
    if _ILL: tags.append('skip:package-and-indexer-out-of-step')
    tags += sorted(_NOTE)
    return ImplResult(model_in=model_in, outs=outs, failures=failures, tags=tags,
                      nontrivial=(tuple(case.ops) if hits and changes else None))


def model_tags(line):
    return ['STALE'] if 'STALE' in line else []


# --------------------------------------------------------------------------
# generation
# --------------------------------------------------------------------------
TS = [280.0, 298.15, 320.0, 350.0, 375.5]
PS = [101325.0, 50000.0, 202650.0]


def gen_flows(rng, n):
    return ','.join(str(rng.choice([0, 0, 1, 2, 0.5, 3.25, 10, 7.5])) for _ in range(n))


def gen_case(rng, length):
    ops = []
    kinds = []      # our own tracking of object kinds: 'single' | 'multi' | 'view'
    def new():
        kind = 'single' if rng.random() < 0.55 else 'multi'
        ph = rng.choice(['l', 'g']) if kind == 'single' else rng.choice(['lg', 'lg', 'lLg', 'ls'])
        fl = gen_flows(rng, 10)
        if all(x in ('0',) for x in fl.split(',')): fl = '1,' + fl[2:]
        ops.append(f'new {kind} {rng.choice([0, 0, 0, 0, 2, 3, 4])} {rng.choice(TS)} {rng.choice(PS)} {ph} {fl}')
        kinds.append(kind)
    new()
    if rng.random() < 0.6: new()
    last_read = None
    tpair = [rng.choice(TS), rng.choice(TS)]
    for _ in range(length):
        o = rng.randrange(len(kinds))
        r = rng.random()
        if last_read and ops and not ops[-1].startswith('read') and rng.random() < 0.6:
            # the staleness pattern: read, mutate, (read something else,) read the same thing again
            if rng.random() < 0.4:
                attrs = ATTRS_MULTI if kinds[last_read[0]] == 'multi' else ATTRS_SINGLE
                ops.append(f'read {last_read[0]} {rng.choice(attrs)}')
            ops.append(f'read {last_read[0]} {last_read[1]}')
            continue
        if last_read and rng.random() < 0.5:
            o = last_read[0]        # keep working on the object that was read
        if r < 0.42:
            attrs = ATTRS_MULTI if kinds[o] == 'multi' else ATTRS_SINGLE
            if last_read and rng.random() < 0.45:
                o, a = last_read
                if rng.random() < 0.5: a = rng.choice(attrs)
            else:
                a = rng.choice(attrs)
            ops.append(f'read {o} {a}'); last_read = (o, a)
        elif r < 0.45: ops.append(f'setT {o} {rng.choice(tpair) if rng.random() < 0.7 else rng.choice(TS)}')
        elif r < 0.47: ops.append(f'{rng.choice(["setH", "setS"])} {o} {rng.choice([15.0, -12.5, 30.0])}')
        elif r < 0.50 and kinds[o] == 'multi':
            if rng.random() < 0.5: ops.append(f'gather {o} {rng.choice("lg")}')
            else: ops.append(f'movephase {o} {rng.choice(["l g", "g l", "l g", "g l", "l L", "L l"])}')
        elif r < 0.54: ops.append(f'setP {o} {rng.choice(PS)}')
        elif r < 0.58: ops.append(f'setphase {o} {rng.choice("lg")}'); kinds[o] = 'single' if kinds[o] != 'view' else 'view'
        elif r < 0.62:
            ps = rng.choice(['lg', 'gl', 'lLg', 'l', 'g', 'ls'])
            ops.append(f'setphases {o} {ps}')
            if kinds[o] != 'view': kinds[o] = 'multi' if len(set(ps)) > 1 else 'single'
        elif r < 0.66: ops.append(f'setflow {o} {rng.randrange(12)} {rng.choice([0, 1, 2.5, 4, 8])}')
        elif r < 0.68:
            what = rng.choice(['T', 'T', 'P', str(rng.randrange(12)), str(rng.randrange(12))])
            ops.append(f'nudge {o} {what} {rng.choice([1e-6, 1e-3, -1e-4, 1e-9, 1e-12]) if what == "T" else rng.choice([1e-9, 1e-6, -1e-7, 1e-12])}')
        elif r < 0.69 and rng.random() < 0.5:
            k = rng.random()
            if k < 0.35:
                # snapshot, move away, read there, restore, read again (the memo must not travel with the snapshot)
                at = rng.choice(ATTRS_MULTI if kinds[o] == 'multi' else ATTRS_SINGLE)
                ops.append(f'read {o} {at}'); ops.append(f'snap {o}')
                ops.append(rng.choice([f'setT {o} {rng.choice(TS)}', f'scale {o} 2', f'setflow {o} {rng.randrange(12)} {rng.choice([0, 1, 4])}', f'setP {o} {rng.choice(PS)}']))
                ops.append(f'read {o} {at}'); ops.append(f'restore {o}'); ops.append(f'read {o} {at}'); last_read = (o, at)
            elif k < 0.55:
                at = rng.choice(ATTRS_SINGLE)
                ops.append(f'read {o} {at}'); ops.append(f'temporary {o} {rng.choice(TS)} {at}'); ops.append(f'read {o} {at}'); last_read = (o, at)
            else:
                at = rng.choice(ATTRS_SINGLE)
                ops.append(f'unitflow {o} {rng.choice([0.5, 0.25, 0.75])}'); ops.append(f'read {o} {at}')
                ops.append(f'unitflow {o} {rng.choice([0.25, 0.75, 0.125])}'); ops.append(f'read {o} {at}'); last_read = (o, at)
        elif r < 0.695 and rng.random() < 0.6:
            k = rng.random()
            if k < 0.5:
                # the flow views' own memo: write (or read) in volumetric / mass units, change T / P / flows, read again
                u = rng.choice(['m3/hr', 'm3/hr', 'L/min', 'kg/hr'])
                if rng.random() < 0.7: ops.append(f'setvol {o} {rng.choice(["Water", "Ethanol", "Methanol"])} {rng.choice([0.5, 1.0, 0.02])} {rng.randrange(3)}')
                ops.append(f'readflow {o} {u}')
                ops.append(rng.choice([f'setT {o} {rng.choice(TS)}', f'setP {o} {rng.choice(PS)}', f'nudge {o} T 1e-3', f'scale {o} 2',
                                       f'setflow {o} {rng.randrange(12)} {rng.choice([1, 4])}', f'thermo {o} 2']))
                ops.append(f'readflow {o} {u}')
            elif k < 0.7 and len(kinds) >= 2:
                # the flow views are tied to the thermal-condition OBJECT they were built with: read, take over another
                # stream's T and P object (link_with(TP=True) only), change T there, read again
                cands = [i for i in range(len(kinds)) if i != o and (kinds[i] == 'multi') == (kinds[o] == 'multi')]
                if cands:
                    a = rng.choice(cands); u = rng.choice(['m3/hr', 'L/min'])
                    rd = o
                    if kinds[o] == 'multi' and len(kinds) < 7:
                        # a phase view keeps its own flow views: it is the view that is read before and after
                        ops.append(f'view {o} {rng.choice("lg")}'); kinds.append('view'); rd = len(kinds) - 1
                    ops.append(f'readflow {rd} {u}'); ops.append(f'link {o} {a} 0 0 1')
                    ops.append(rng.choice([f'setT {a} {rng.choice(TS)}', f'setP {a} {rng.choice(PS)}', f'setT {o} {rng.choice(TS)}']))
                    ops.append(f'readflow {rd} {u}'); ops.append(f'readflow {a} {u}')
            elif kinds[o] == 'multi' and len(kinds) < 6:
                # a phase view read before and after the parent changes package (same chemicals, other models)
                ph = rng.choice('lg'); at = rng.choice(ATTRS_SINGLE)
                ops.append(f'view {o} {ph}'); kinds.append('view'); v = len(kinds) - 1
                ops.append(f'read {v} {at}'); ops.append(f'thermo {o} {rng.choice([2, 3])}'); ops.append(f'read {v} {at}')
                ops.append(f'read {o} {rng.choice(ATTRS_MULTI)}')
            else:
                ops.append(f'readflow {o} {rng.choice(["m3/hr", "kg/hr"])}')
        elif r < 0.70: ops.append(f'setflowkey {o} {rng.choice(["Water", "Ethanol", "Methanol"])} {rng.choice([0, 1.5, 6])} {rng.randrange(3)}')
        elif r < 0.71:
            k = rng.random()
            if k < 0.15: ops.append(f'setmass {o} {rng.choice(["Water", "Ethanol"])} {rng.choice([0, 18.0, 92.5])} {rng.randrange(3)}')
            elif k < 0.3: ops.append(f'setprop {o} ' + rng.choice(['h 15.0', 'h -12.5', 'Hnet 20.0', 'F_mol 2', 'F_mol 0.5', 'F_mass 3', 'F_vol 2']))
            elif k < 0.6: ops.append(f'settotal {o} {rng.choice([1.0, 12.5, 300.0])} {rng.choice(["kmol/hr", "kg/hr"])}')
            elif k < 0.8: ops.append(f'vle {o} {rng.choice([350.0, 360.0, 370.5])} {rng.choice(PS)}')
            else: ops.append(f'badset {o} {rng.choice("HSh")}')
        elif r < 0.75: ops.append(f'scale {o} {rng.choice([2, 0.5, 3, 1])}')
        elif r < 0.765: ops.append(f'empty {o}')
        elif r < 0.79 and len(kinds) >= 2:
            a, b = rng.randrange(len(kinds)), rng.randrange(len(kinds))
            k = rng.random()
            if k < 0.45: ops.append(f'mix {o} {a} {b}')
            elif k < 0.65: ops.append(f'copylike {o} {a}')
            elif k < 0.78: ops.append(f'copyflow {o} {a}')
            elif k < 0.9: ops.append(f'copytc {o} {a}')
            else:
                # split_to needs two outlets of the feed's class, distinct from it and from each other
                cands = [i for i in range(len(kinds)) if i != o and kinds[i] == kinds[o]]
                while len(cands) < 2 and len(kinds) < 7:
                    ops.append(f'copy {o}'); kinds.append(kinds[o]); cands.append(len(kinds) - 1)
                if len(cands) >= 2:
                    a, b = rng.sample(cands, 2)
                    at = rng.choice(ATTRS_MULTI if kinds[o] == 'multi' else ATTRS_SINGLE)
                    ops.append(f'read {o} {at}')
                    ops.append(f'splitto {o} {a} {b} {rng.choice([0.25, 0.5, 0.8])}')
                    # the sharing probe on feed and outlets
                    ops.append(f'read {a} {at}'); ops.append(f'setT {a} {rng.choice(TS)}'); ops.append(f'read {a} {at}')
                    ops.append(f'read {o} {at}'); ops.append(f'read {b} {at}')
            if k >= 0.45 and last_read and rng.random() < 0.6:
                ops.append(f'read {o} {last_read[1]}')
            if 0.45 <= k < 0.9 and rng.random() < 0.5:
                # the sharing probe: after `o` took over (part of) the state of `a`, change one of the two, read a
                # property on it and then the same property on the other (a memo shared by accident shows here)
                at = rng.choice(ATTRS_MULTI if 'multi' in (kinds[o], kinds[a]) else ATTRS_SINGLE)
                x, y = (o, a) if rng.random() < 0.5 else (a, o)
                ops.append(f'read {y} {at}')
                ops.append(rng.choice([f'setT {x} {rng.choice(TS)}', f'setP {x} {rng.choice(PS)}', f'scale {x} 2', f'nudge {x} T 1e-3']))
                ops.append(f'read {x} {at}'); ops.append(f'read {y} {at}')
        elif r < 0.83 and len(kinds) < 5:
            ops.append(f'proxy {o}'); kinds.append(kinds[o])
        elif r < 0.86 and len(kinds) < 5:
            ops.append(f'flowproxy {o}'); kinds.append(kinds[o])
        elif r < 0.88 and len(kinds) < 5:
            k = rng.random()
            if k < 0.4: ops.append(f'copy {o}')
            elif k < 0.55 and kinds[o] != 'view': ops.append(f'fromdata {o}')
            else: ops.append(f'copythermo {o} {rng.choice([3, 3, 0, 2])}')
            kinds.append(kinds[o])
            if last_read and last_read[0] == o and rng.random() < 0.7:
                # read on the copy what was last read on the original, before anything else changes
                ops.append(f'read {len(kinds) - 1} {last_read[1]}')
        elif r < 0.91 and len(kinds) >= 2:
            a = rng.randrange(len(kinds))
            ops.append(f'link {o} {a} {rng.randrange(2)} {rng.randrange(2)} {rng.randrange(2)}')
        elif r < 0.93: ops.append(f'unlink {o}')
        elif r < 0.95: ops.append(f'thermo {o} {rng.choice([0, 1, 2, 2, 0, 3, 3, 4])}')
        elif r < 0.975 and kinds[o] == 'multi' and len(kinds) < 6:
            ops.append(f'view {o} {rng.choice("lg")}'); kinds.append('view')
        elif kinds[o] == 'multi':
            ops.append(f'viewflow {o} {rng.choice("lg")} {rng.randrange(4)} {rng.choice([0, 2, 5.5])}')
        else:
            ops.append(f'read {o} {rng.choice(ATTRS_SINGLE if kinds[o] != "multi" else ATTRS_MULTI)}')
    return Case(ops, {})


def gen_scenario(rng):
    """Directed histories for the memos that do not pass through `_get_property` (the flow views' molar volumes, tied to
    a thermal-condition object) and for phase views across package / thermal-condition changes; a random tail follows."""
    ops = []
    fl = lambda: gen_flows(rng, 10).replace('0,', '1,', 1)
    T0, P0 = rng.choice(TS), rng.choice(PS)
    u = rng.choice(['m3/hr', 'm3/hr', 'L/min', 'kg/hr'])
    k = rng.random()
    change = lambda o: rng.choice([f'setT {o} {rng.choice(TS)}', f'setP {o} {rng.choice(PS)}', f'nudge {o} T 1e-3', f'scale {o} 2',
                                   f'setflow {o} {rng.randrange(8)} {rng.choice([1, 4])}', f'thermo {o} 2'])
    if k < 0.25:
        # single-phase: write / read in volumetric units, change the state, read again
        ops.append(f'new single {rng.choice([0, 0, 2, 3])} {T0} {P0} {rng.choice("lg")} {fl()}')
        if rng.random() < 0.6: ops.append(f'setvol 0 {rng.choice(["Water", "Ethanol", "Methanol"])} {rng.choice([0.5, 1.0, 0.02])} 0')
        ops += [f'readflow 0 {u}', change(0), f'readflow 0 {u}', 'read 0 F_vol', change(0), f'readflow 0 {u}']
    elif k < 0.45:
        # multi-phase stream and one of its phase views
        ph = rng.choice(['lg', 'lg', 'lLg', 'ls'])
        ops.append(f'new multi {rng.choice([0, 0, 2, 3])} {T0} {P0} {ph} {fl()}')
        ops.append(f'view 0 {rng.choice(ph)}')
        rd = rng.choice([0, 1])
        if rng.random() < 0.5: ops.append(f'setvol 0 {rng.choice(["Water", "Ethanol"])} {rng.choice([0.5, 1.0])} {rng.randrange(3)}')
        ops += [f'readflow {rd} {u}', change(0), f'readflow {rd} {u}', f'readflow {1 - rd} {u}']
    elif k < 0.65:
        # two streams of one class and phase set: one takes over the other's T and P OBJECT (link_with(TP=True) alone, or
        # with the flows); the flow views of the stream and of its phase views must follow the new object
        multi = rng.random() < 0.7
        if multi:
            ph = rng.choice(['lg', 'lg', 'lLg'])
            ops.append(f'new multi 0 {T0} {P0} {ph} {fl()}'); ops.append(f'new multi 0 {rng.choice(TS)} {rng.choice(PS)} {ph} {fl()}')
            ops.append(f'view 0 {rng.choice(ph)}'); rd = rng.choice([2, 2, 0])
        else:
            p1 = rng.choice('lg')
            ops.append(f'new single 0 {T0} {P0} {p1} {fl()}'); ops.append(f'new single 0 {rng.choice(TS)} {rng.choice(PS)} {p1} {fl()}'); rd = 0
        ops.append(f'readflow {rd} {u}')
        ops.append(f'link 0 1 {rng.choice([0, 0, 1])} 0 1')
        ops.append(rng.choice([f'setT 1 {rng.choice(TS)}', f'setP 1 {rng.choice(PS)}', f'setT 0 {rng.choice(TS)}']))
        ops += [f'readflow {rd} {u}', f'readflow 1 {u}', 'read 0 F_vol']
    elif k < 0.75:
        # a rejected H / S assignment on one stream must leave nothing behind in the (shared) property package: a second
        # stream of the package reads a property, leaves the state and comes back to exactly that state afterwards
        pk = rng.choice([4, 4, 4, 0, 3]); at = rng.choice(['H', 'S', 'Cn', 'h', 'C'])
        ops.append(f'new single {pk} {T0} {P0} {rng.choice("lg")} {fl()}'); ops.append(f'new single {pk} {rng.choice(TS)} {rng.choice(PS)} {rng.choice("lg")} {fl()}')
        T1 = rng.choice([t for t in TS if t != T0])
        ops += [f'read 0 {at}', f'badset 1 {rng.choice("HSh")}', f'setT 0 {T1}', f'read 0 {at}', f'setT 0 {T0}', f'read 0 {at}', f'read 1 {at}']
    elif k < 0.83:
        # a phase view obtained BEFORE its parent is unlinked must follow the parent's new thermal condition afterwards
        ph = rng.choice(['lg', 'lLg']); at = rng.choice(ATTRS_SINGLE)
        ops.append(f'new multi 0 {T0} {P0} {ph} {fl()}'); ops.append(f'view 0 {rng.choice(ph)}')
        ops += [f'read 1 {at}', 'unlink 0', rng.choice([f'setT 0 {rng.choice([t for t in TS if t != T0])}', f'setP 0 {rng.choice([p for p in PS if p != P0])}']),
                f'read 1 {at}', f'readflow 1 {u}', f'read 0 {rng.choice(ATTRS_MULTI)}']
    elif k < 0.91:
        # in-place scaling by exactly zero, then a refill in place: the flow views must follow (boundary value of `scale`)
        kind = rng.choice(['single', 'multi'])
        ops.append(f'new {kind} 0 {T0} {P0} {rng.choice("lg") if kind == "single" else "lg"} {fl()}')
        ops += [f'readflow 0 {u}', 'scale 0 0', f'readflow 0 {u}', f'setflow 0 {rng.randrange(8)} {rng.choice([1, 4])}', f'setflow 0 {rng.randrange(8)} 2.5',
                f'readflow 0 {u}', 'read 0 F_vol']
    else:
        # a phase view read before and after its parent changes package (same chemicals, other models)
        ph = rng.choice(['lg', 'lLg']); at = rng.choice(ATTRS_SINGLE)
        ops.append(f'new multi 0 {T0} {P0} {ph} {fl()}'); ops.append(f'view 0 {rng.choice(ph)}')
        ops += [f'read 1 {at}', f'readflow 1 {u}', f'thermo 0 {rng.choice([2, 3])}', f'read 1 {at}', f'readflow 1 {u}', f'read 0 {rng.choice(ATTRS_MULTI)}']
    tail = gen_case(rng, rng.randrange(0, 8)).ops
    # the tail's own `new` lines would renumber nothing (ids are positional), but keep only its non-creating ops on objects that exist
    nobj = sum(1 for l in ops if l.split(' ')[0] in ('new', 'view'))
    for l in tail:
        t = l.split(' ')
        if t[0] in ('new', 'copy', 'copythermo', 'fromdata', 'flowproxy', 'proxy', 'view'): continue
        ids = [x for x in t[1:4] if x.isdigit()]
        if t[0] in ('read', 'readflow', 'setT', 'setP', 'scale', 'nudge') and int(t[1]) < nobj: ops.append(l)
    return Case(ops, {})


def generate(rng, tier, index, nworkers):
    n = max(1, budget(tier)['cases'] // nworkers)
    for _ in range(n):
        if rng.random() < 0.15: yield gen_scenario(rng)
        else: yield gen_case(rng, rng.randrange(6, 41))


def corpus():
    return [
        # the proxy history of DESIGN.md §8 #10
        Case(['new single 0 298.15 101325.0 l 1,2,0,0,0,0,0,0,0,0', 'read 0 H', 'proxy 0', 'setT 1 350.0', 'read 1 H',
              'setT 1 298.15', 'read 0 H']),
        Case(['new single 0 320.0 101325.0 g 1,2,0,0,0,0,0,0,0,0', 'read 0 H', 'copythermo 0 3', 'read 1 H', 'thermo 0 3', 'read 0 H']),
        Case(['new multi 0 320.0 101325.0 lg 1,2,0,3,0,0,0,0,0,0', 'read 0 H', 'view 0 l', 'read 1 H', 'viewflow 0 l 0 5.5',
              'read 0 H', 'read 1 H', 'setphases 0 lLg', 'read 0 H', 'read 1 H']),
        Case(['new single 0 298.15 101325.0 l 1,2,0,0,0,0,0,0,0,0', 'new single 0 350.0 101325.0 g 0,2,1,0,0,0,0,0,0,0',
              'read 0 H', 'link 0 1 1 1 1', 'read 0 H', 'setT 1 280.0', 'read 0 H', 'unlink 0', 'read 0 H', 'read 0 H']),
    ]


def search(case, rng, budget_s):
    """The correspondence broke (a memo hit/miss differs from the model).  Look for a stale value on the
    real code near it: every continuation of the history by one or two further reads on every object."""
    import time
    t0 = time.time()
    nobj = sum(1 for l in case.ops if l.split(' ')[0] in ('new', 'copy', 'copythermo', 'fromdata', 'flowproxy', 'proxy', 'view'))
    attrs = ATTRS_SINGLE
    prefixes = [case.ops[:n] for n in range(len(case.ops), max(0, len(case.ops) - 4), -1)]
    for pre in prefixes:
        for o in range(max(nobj, 1)):
            for a in [None] + attrs:
                for b in attrs:
                    if time.time() - t0 > budget_s: return None
                    ops = list(pre) + ([f'read {o} {a}'] if a else []) + [f'read {o} {b}']
                    try:
                        res = run_impl(Case(ops, {}))
                    except Exception:
                        continue
                    if res.failures:
                        return Case(ops, {'found_by': 'search'})
    return None
