"""
C01 — mixing, splitting and separating streams conserves every chemical.

Adapter for thermosteam Stream / MultiStream material operations (mix_from, Stream.sum, split_to,
separate_out, copy_flow, scale, * and /, all with energy_balance=False), generator of operation
histories over three real property packages, and the conservation oracle evaluated on the real
streams (dense per-chemical reference sums keyed by CAS, exact Fractions).
The Lean model is lean/ThermoVerif/Model/Flow.lean; the driver is lean/Driver/C01.lean.
"""
from __future__ import annotations
import itertools, random, time, warnings
from fractions import Fraction
from harness.core import Case, ImplResult, frac

PID = 'C01'
LEAN_MODULES = ['ThermoVerif.Props.C01']
RULE = ('operation histories (mix_from / Stream.sum / split_to / separate_out with energy_balance False (~70 %) and the default True '
        '(~30 %), vle / conserve_phases mixes, the operator forms + += -= unary- k* *=, in-place scaling of streams whose flow data is shared with phase views / flow proxies / from_streams constituents, Stream.copy_flow / MultiStream.copy_flow / scale / * /) over 3-8 real '
        'streams on five real property packages built per case from 6 bundled chemicals (a permuted superset, two permuted '
        'sub-packages, and re-orderings of the superset and of the first sub-package, so that one receiver package is reached '
        'by the same chemical set in different orders; ~12% of cases use non-superset packages to reach the undefined-chemical '
        'branch); half of the streams get their flows entered one by one in a random order of the chemicals (sparse key order '
        'is what the remap cache of index_overlap is keyed on), 30% carry every chemical; '
        'a deterministic grid first (receiver kind x every non-empty subset of the phases s/l/g/S/L as inlet phases x '
        'package relation x receiver among the inlets; split grid: feed kind x outlet kinds x package relation x '
        'scalar/vector split incl. 0 and 1; separate grid: the four kind pairings x package relation x equal/different '
        'phase tuples; copy grids: source kind x package relation x ID form x exclude, and for multi-phase destinations '
        'source phases equal / permuted / more x ID form x exclude x phase argument; remap-history grid: receiver kind x '
        'inlet kind x small/large shared set x {two packages in opposite orders, one package with different entry orders, '
        'both in one call, mix-then-separate, split onto the receiver package} with several cross-package operations '
        'against the same receiver package per case), then random histories generated adaptively on the real objects; flows and factors are dyadic '
        'so every comparison is exact; a case is non-trivial when at least one operation moved a non-zero amount; '
        'distinct = distinct op sequences')
ASSUMPTIONS = [
    'about 70 % of the mix / sum / split / separate calls are made with energy_balance=False, about 30 % (and all operator '
    'forms a+b, a+=b, a-=b) with the library default energy_balance=True; T, P and the enthalpy values themselves belong to '
    'C02.  Two things the energy balance does to a stream are decided by the thermodynamic models and are taken from the code '
    'as parameters of the protocol line (not computed by the model): (i) the g<->l relabelling of a single-phase result by '
    'the enthalpy setter (`ph:<i>:<letter>` token, accepted by the model only as such a flip, flows untouched), (ii) whether '
    'an enthalpy solve failed (exception from the thermodynamic code, or caught inside the call): then the rest of the case is '
    'not compared (`skip=numerics`), the oracle still judges the material of that line',
    'vle=True and conserve_phases=True are exercised as the last operation of a case with totals only (the model predicts the '
    'per-chemical totals, not the phase layout a flash or the phases setter produces; after a flash totals are compared to '
    '1e-9 relative, the split g + l = total being exact only to rounding); flash failures are not C01 failures',
    'a property package is modelled as the list of its CAS numbers (the ids are read off the real Chemicals object: index of '
    'chemical.CAS in the reference list); `chemicals is other_chemicals` is equality of package ids; in most cases one '
    'sub-package is built from separately constructed Chemical objects carrying other IDs for the same CAS numbers (H2O, EtOH, '
    '...) and in ~30 % another carries the usual IDs on other substances (equal ID, different CAS); chemical groups / aliases '
    'shared between packages are not generated',
    'whole cases are scaled by 2^-40 (20 %) or 2^30 (12 %): flows between 1e-13 and 1e15; the flash (vle) only at ordinary magnitudes',
    'an enthalpy solve that fails on an input with non-negative flows is an oracle failure (eb:enthalpy-solve-failed), not a skip; '
    'with negative flows (outside the quantifier) the rest of the case is skipped',
    'sparse rows are modelled by their dense image; stored zeros do not occur on the dyadic alphabet (C09 covers the sparse invariants)',
    'holders of shared flow data (phase views S[j][p], flow proxies, the constituents of MultiStream.from_streams) are extra '
    'stream indices; a holder and its owner are afterwards only read or scaled in place (scale, *=, /=), never a receiver / '
    'outlet / destination; the model re-derives every holder from its owner after each op, the oracle decides sharing by '
    'object identity of the sparse rows observed before the call; link_with partners are not generated',
    'phase views ms[p] are operands of separate_out (the stream taken out) and of mix_from (inlets), including views of the '
    'receiver itself; they are read-only there and modelled as the row read before the write.  Flow proxies, linked streams and '
    'views as receivers / outlets / copy operands are not generated; other aliasing is the same stream in several roles',
    'the model describes the code with fixes_proposed/C01-1..C01-8, C10-2 and C12-1 applied; until they are committed the '
    'check reports the corresponding failing inputs; likewise fixes_proposed/C01-9..C01-14 (the six former known findings) and '
    'C01-15 (copy_like of an own phase view)',
    'the whole line is compared: per-chemical totals, kind, phase tuple and per-phase rows of every stream',
    'MultiStream.copy_flow refuses a multi-phase source with another phase tuple (ValueError, like its same-chemicals '
    'requirement): that refusal is outside the quantifier, silent loss or duplication is not',
    'after a Python exception the case ends: the state left behind by a failed call is not compared',
]
TRUSTED = ['Lean 4.33 kernel', 'correspondence harness harness/props/c01.py + lean/Driver/C01.lean',
           'field-vs-float gap: flows are dyadic (k*2^-e), the adapter stops a history before a value leaves the '
           'exactly representable grid', 'generator reach (see histogram)']
EXHAUSTIVE = {'quick': False, 'thorough': False}

tmo = None
NAMES = ['Water', 'Ethanol', 'Methanol', 'Glycerol', 'Propanol', 'Octane']
CHEMS = []
ALT_NAMES = ['H2O', 'EtOH', 'MeOH', 'Glycerin', 'nPrOH', 'nC8']
ALT_CHEMS, SWAP_CHEMS, CASIDX = [], [], {}
PHASES = 'slgSL'


def setup():
    global tmo, CHEMS
    import thermosteam as tmo_
    tmo = tmo_
    warnings.simplefilter('ignore')
    CHEMS = [tmo.Chemical(n, cache=True) for n in NAMES]
    # the same substances (same CAS) under other IDs, as separately constructed Chemical objects, and the six IDs
    # attached to *other* substances (equal ID, different CAS): what decides a remap between packages is the CAS number
    ALT_CHEMS[:] = [tmo.Chemical(a, search_ID=n) for a, n in zip(ALT_NAMES, NAMES)]
    SWAP_CHEMS[:] = [tmo.Chemical(NAMES[(i + 3) % 6], search_ID=n) for i, n in enumerate(NAMES)]
    CASIDX.clear(); CASIDX.update({c.CAS: i for i, c in enumerate(CHEMS)})
    # hypothesis monitor: did an enthalpy setter give up during a call?  (Stream.mix_from then re-phases the receiver and
    # mixes a second time inside a bare `except:`; that path is decided by the thermodynamic models.)
    for cls in (tmo.Stream, tmo.MultiStream):
        prop = cls.__dict__['H']
        def fset(self, H, _orig=prop.fset):
            try: return _orig(self, H)
            except Exception:
                HFAIL[0] += 1; raise
        setattr(cls, 'H', prop.setter(fset))


def budget(tier):
    return {'quick': dict(seconds=45, cases=1600, shrink_s=8, search_s=6),
            'thorough': dict(seconds=400, cases=40000, shrink_s=25, search_s=20)}[tier]


class ErrorInOp(Exception):
    pass


def err_name(e):
    n = type(e).__name__
    if n == 'UndefinedChemicalAlias': return 'undefined-chemical'
    if n == 'UndefinedPhase': return 'undefined-phase'
    return 'rejected'


BOOKKEEPING = {'_stream.py', '_multi_stream.py', 'indexer.py', 'sparse.py', '_phase.py', '_chemicals.py', 'network.py',
               'c01.py', '_thermal_condition.py'}


def is_numerics(e):
    """the exception comes out of the thermodynamic machinery (enthalpy solve of the energy balance), not out of the
    material bookkeeping: not C01's subject (C02/C07)"""
    import os, traceback
    frames = traceback.extract_tb(e.__traceback__)
    return bool(frames) and os.path.basename(frames[-1].filename) not in BOOKKEEPING


def swapc(p):
    return p.lower() if p.isupper() else p.upper()


def F(x):
    return Fraction(float(x))


def parse_refs(t):
    """operand tokens: `3` = stream 3, `3.g` = the phase view S[3]['g']"""
    return [] if t in ('-', '()') else t.split(',')


def entry(before, tok):
    """snapshot entry of an operand token; None when a phase view does not exist (the call raises UndefinedPhase)"""
    if '.' not in tok: return before[int(tok)]
    j, p = tok.split('.'); pb = before[int(j)]
    if not pb['multi']:
        return pb if p.lower() == pb['rows'][0][0].lower() else None
    phases = [q for q, _ in pb['rows']]
    q = p if p in phases else (swapc(p) if swapc(p) in phases else None)
    if q is None: return None
    row = dict(pb['rows'])[q]
    return {'multi': False, 'pkg': pb['pkg'], 'rows': [(p, row)], 'tot': dict(zip(pb['pkg'], row)),
            'nonneg': all(v >= 0 for v in row), 'empty': not any(row), 'view_of': int(j)}


def parse_ids(t):
    return [] if t in ('-', '()') else [int(x) for x in t.split(',')]


class Universe:
    """The real objects of one case."""

    def __init__(self):
        self.pkgs = []       # list of (thermo, [chemical ids])
        self.streams = []
        self.tags = set()    # which input classes the case reached (for the coverage histogram)
        self.frozen = set()  # streams that share flow data with another one (holders and owners): only scaled / read

    # ---- observation (real objects only) -------------------------------------------------
    def pkg_of(self, s):
        """chemical ids of the stream's package, in package order; the ids are CAS numbers (index of the CAS in the
        reference list), read off the real `Chemicals` object when the package was built"""
        for th, ids, _ in self.pkgs:
            if th.chemicals is s.chemicals: return ids
        raise ErrorInOp('stream with an unknown package')

    def names_of(self, s):
        for th, _, names in self.pkgs:
            if th.chemicals is s.chemicals: return names
        raise ErrorInOp('stream with an unknown package')

    def is_multi(self, s):
        return isinstance(s, tmo.MultiStream)

    def rows(self, s):
        """[(phase, [Fraction,...])] of a real stream"""
        imol = s.imol
        if self.is_multi(s):
            if not hasattr(imol, '_phases'):        # left corrupt by a failed phases setter
                return [('?', [F(x) for x in imol.data.to_array()])]
            arr = imol.data.to_array()
            return [(p, [F(x) for x in arr[i]]) for i, p in enumerate(s.phases)]
        return [(s.phase, [F(x) for x in s.mol.to_array()])]

    def totals(self, s):
        """{chemical id: Fraction} summed over the phases"""
        ids = self.pkg_of(s)
        out = {c: Fraction(0) for c in ids}
        for _, r in self.rows(s):
            for c, v in zip(ids, r): out[c] += v
        return out

    def snapshot(self):
        snap = []
        for s in self.streams:
            rows = self.rows(s)
            data = s.imol.data
            rowobjs = list(data.rows) if hasattr(data, 'rows') else [data]
            snap.append({'multi': self.is_multi(s), 'pkg': self.pkg_of(s), 'rows': rows, 'rowobjs': rowobjs,
                         'tot': self.totals(s),
                         'nonneg': all(v >= 0 for _, r in rows for v in r),
                         'empty': all(v == 0 for _, r in rows for v in r)})
        return snap

    def show(self):
        tot, ph, rows = [], [], []
        for s in self.streams:
            t = self.totals(s)
            tot.append(','.join(f'{c}:{frac(t[c])}' for c in sorted(t) if t[c] != 0))
            rr = self.rows(s)
            ph.append(('M' if self.is_multi(s) else 'S') + ''.join(p for p, _ in rr))
            rows.append(';'.join(','.join(frac(v) for v in r) for _, r in rr))
        return f"tot={'|'.join(tot)} ph={'|'.join(ph)} rows={'|'.join(rows)}"

    def poisoned(self):
        """an entry written by indexer.index_overlap that CompiledChemicals._get_index_and_kind misreads (C10 defect #2)"""
        for th, _, _ in self.pkgs:
            for key, val in getattr(th.chemicals, '_index_cache', {}).items():
                if isinstance(key, tuple) and isinstance(val, tuple) and len(val) == 2 and val[1] == 0 \
                        and isinstance(val[0], list):
                    return True
        return False

    # ---- operations --------------------------------------------------------------------------
    def new_stream(self, pkg, kind, phases, rows, order=None):
        th, ids, names = self.pkgs[pkg]
        if order is not None:
            # flows entered one by one in the given order of positions: the sparse rows get that key order
            # (index_overlap's cache key is the CAS tuple in key order)
            if kind == 'S':
                s = tmo.Stream(None, thermo=th, phase=phases)
                for k in order:
                    if rows[0][k]: s.imol[names[k]] = float(rows[0][k])
            else:
                s = tmo.MultiStream(None, thermo=th, phases=tuple(phases))
                for p, r in zip(phases, rows):
                    for k in order:
                        if r[k]: s.imol[p, names[k]] = float(r[k])
            self.streams.append(s)
            return
        if kind == 'S':
            flows = {n: float(v) for n, v in zip(names, rows[0]) if v}
            s = tmo.Stream(None, thermo=th, phase=phases, **flows)
        else:
            pf = {}
            for p, r in zip(phases, rows):
                items = [(n, float(v)) for n, v in zip(names, r) if v]
                if items: pf[p] = items
            s = tmo.MultiStream(None, thermo=th, phases=tuple(phases), **pf)
        self.streams.append(s)

    def ref(self, tok):
        if '.' in tok:
            j, p = tok.split('.')
            return self.streams[int(j)][p]
        return self.streams[int(tok)]

    def apply(self, line):
        t = line.split(' ')
        eb = t[-1] == 'eb'                  # the library default energy_balance=True
        if eb: t = t[:-1]
        flag = t[-1] if t[-1] in ('vle', 'cp') else None
        if flag: t = t[:-1]
        op = t[0]
        S = self.streams
        if op == 'pkg':
            ids = [int(x) for x in t[1].split(',')]
            pool = {'alt': ALT_CHEMS, 'swap': SWAP_CHEMS}.get(t[2] if len(t) > 2 else '', CHEMS)
            th = tmo.Thermo(tmo.Chemicals([pool[c] for c in ids]))
            cas_ids = [CASIDX[cas] for cas in th.chemicals.CASs]        # the oracle's key: the real CAS numbers
            if cas_ids != ids: raise ErrorInOp('package built with other CAS numbers than asked for')
            self.pkgs.append((th, cas_ids, list(th.chemicals.IDs)))
            if len(self.pkgs) == 1: tmo.settings.set_thermo(th)     # `a + b` builds its result on the default package
            return 'ok'
        if op == 'new':
            rows = [[Fraction(x) for x in r.split(',')] for r in t[4].split(';')]
            order = [int(x) for x in t[5][1:].split(',')] if len(t) > 5 else None
            self.new_stream(int(t[1]), t[2], t[3], rows, order)
        elif op == 'mix':
            S[int(t[1])].mix_from([self.ref(x) for x in parse_refs(t[2])], energy_balance=eb,
                                  vle=(flag == 'vle'), conserve_phases=(flag == 'cp'))
            if flag:       # totals only; the case ends here (after a flash the split g + l = total is exact only to rounding)
                return ('approx ' if flag == 'vle' else '') + self.show().split(' ph=')[0]
        elif op == 'sum':
            s = tmo.Stream.sum([S[i] for i in parse_ids(t[2])], None, self.pkgs[int(t[1])][0], energy_balance=eb)
            S.append(s)
        elif op == 'split':
            if t[4] == 's':
                sp = float(Fraction(t[5]))
            else:
                import numpy as np
                sp = np.array([float(Fraction(x)) for x in t[5].split(',')])
            S[int(t[1])].split_to(S[int(t[2])], S[int(t[3])], sp, energy_balance=eb)
        elif op == 'sep':
            S[int(t[1])].separate_out(self.ref(t[2]), energy_balance=eb)
        elif op == 'copy':
            d = S[int(t[1])]
            # IDs are looked up in the source's package by Stream.copy_flow, in the destination's by MultiStream.copy_flow
            look = d if self.is_multi(d) else S[int(t[2])]
            nm = dict(zip(self.pkg_of(look), self.names_of(look)))
            name = lambda c: nm.get(c, f'NoSuchChemical{c}')
            if t[3] == '*': ids = ...
            elif t[3].startswith('='): ids = name(int(t[3][1:]))
            else: ids = tuple(name(c) for c in parse_ids(t[3]))
            if self.is_multi(d):
                ph = ... if len(t) < 7 or t[6] == '*' else t[6]
                d.copy_flow(S[int(t[2])], ph, ids, remove=(t[4] == '1'), exclude=(t[5] == '1'))
            else:
                d.copy_flow(S[int(t[2])], ids, remove=(t[4] == '1'), exclude=(t[5] == '1'))
        elif op == 'scale':
            S[int(t[1])].scale(float(Fraction(t[2])))
        elif op == 'idiv':
            s = S[int(t[1])]; s /= float(Fraction(t[2]))
        elif op == 'mul':
            S.append(S[int(t[1])] * float(Fraction(t[2])))
        elif op == 'div':
            S.append(S[int(t[1])] / float(Fraction(t[2])))
        elif op == 'iadd':
            s = S[int(t[1])]; s += S[int(t[2])]
        elif op == 'add':
            S.append(S[int(t[1])] + S[int(t[2])])
        elif op == 'isub':
            s = S[int(t[1])]; s -= S[int(t[2])]
        elif op == 'neg':
            S.append(-S[int(t[1])])
        elif op == 'rmul':
            S.append(float(Fraction(t[2])) * S[int(t[1])])
        elif op == 'imul':
            s = S[int(t[1])]; s *= float(Fraction(t[2]))
        elif op == 'obs':
            # another holder of the same flow data: a phase view or a flow proxy
            if '.' in t[1]:
                j, p = t[1].split('.'); S.append(S[int(j)][p])
            else:
                j = t[1]; S.append(S[int(j)].flow_proxy())
            self.frozen.update((int(j), len(S) - 1))
        elif op == 'from':
            ids = parse_ids(t[1])
            S.append(tmo.MultiStream.from_streams([S[i] for i in ids]))
            self.frozen.update(ids); self.frozen.add(len(S) - 1)
        elif op == 'empty':
            S[int(t[1])].empty()
        else:
            raise ErrorInOp('unknown op ' + line)
        return self.show()


# --------------------------------------------------------------------------
# the property, evaluated on the real streams
# --------------------------------------------------------------------------

def resolvable(phases, p):
    return p in phases or swapc(p) in phases


def oracle(U, line, before, exc):
    """Property-oracle verdict for one executed op.  `before` = snapshot before the op, `exc` = the exception or None.
    Returns (signature suffix, text) or None.  Only the real objects are looked at."""
    t = line.split(' ')
    eb = t[-1] == 'eb' or t[0] in DEFAULTS
    if t[-1] == 'eb': t = t[:-1]
    flag = t[-1] if t[-1] in ('vle', 'cp') else None
    if flag: t = t[:-1]; U.tags.add('in:mix:' + flag)
    if t[0] != {'iadd': 'mix', 'add': 'sum', 'isub': 'sep', 'neg': 'mul', 'rmul': 'mul', 'imul': 'scale'}.get(t[0], t[0]):
        U.tags.add('in:operator:' + t[0])
        t = {'iadd': lambda: ['mix', t[1], f'{t[1]},{t[2]}'], 'add': lambda: ['sum', '0', f'{t[1]},{t[2]}'],
             'isub': lambda: ['sep', t[1], t[2]], 'neg': lambda: ['mul', t[1], '-1'],
             'rmul': lambda: ['mul', t[1], t[2]], 'imul': lambda: ['scale', t[1], t[2]]}[t[0]]()
    op = t[0]
    if eb: U.tags.add('in:eb:' + op)
    S = U.streams
    poisoned = U.poisoned()
    sop = 'mix' if op == 'sum' else op

    def raised(cfg):
        if poisoned and type(exc).__name__ in ('IndexError', 'TypeError') and 'sequence' in str(exc):
            cfg = 'index-cache-entry-of-index_overlap'
        return (f'{sop}:{cfg}:raises', f'`{line}` raised {type(exc).__name__}: {str(exc)[:120]} on an input inside the '
                f'property\'s quantifier (material is neither conserved nor reported infeasible)')

    def now(i):
        return U.totals(S[i])

    if op in ('mix', 'sum'):
        toks = parse_refs(t[2])
        E = [entry(before, x) for x in toks]
        if any(e is None for e in E): return None          # a phase view that does not exist: UndefinedPhase is the answer
        if op == 'mix':
            r = int(t[1]); rb = before[r]; rlist = rb['pkg']; rmulti = rb['multi']
            rphases = [p for p, _ in rb['rows']]
        else:
            r = len(before); rlist = U.pkgs[int(t[1])][1]; rmulti = False; rphases = ['l']
        rpk = set(rlist)
        if not all(e['nonneg'] for e in E): return None
        live = [e for e in E if not e['empty']]
        other = any(e['pkg'] is not rlist for e in live)
        newph = rmulti and any(not resolvable(rphases, p) for e in live for p, _ in e['rows'])
        if eb and len(live) == 1 and op == 'mix' and live[0].get('view_of') == r: cfg = 'M<-own-phase-view.copy_like'
        elif eb and len(live) == 1: cfg = ('M' if rmulti else 'S') + '<-one-nonempty-inlet.copy_like'
        elif rmulti and len(live) == 1: cfg = 'M<-one-nonempty-inlet'
        elif newph: cfg = 'M<-new-phase'
        elif not rmulti and any(e['multi'] and e['pkg'] is not rlist for e in live):
            cfg = 'S<-M.other-package'
        else: cfg = ('M' if rmulti else 'S') + ('<-other-package' if other else '<-same-package')
        inq = all(set(e['pkg']) <= rpk for e in E)
        if eb: cfg += '.eb'
        if flag: cfg += '.' + flag
        U.tags.add(f'in:mix:{cfg}')
        nself = sum(1 for x in toks if op == 'mix' and x == str(r))
        if nself: U.tags.add('in:mix:receiver-among-inlets' + ('-twice' if nself > 1 else ''))
        if any('.' in x for x in toks):
            U.tags.add('in:mix:phase-view-inlet')
            if op == 'mix' and any(e.get('view_of') == r for e in live): U.tags.add('in:mix:view-of-the-receiver')
        U.tags.add(f'in:mix:{min(len(live), 3)}{"+" if len(live) >= 3 else ""}-nonempty-inlets')
        if rmulti and any(not (p in rphases) and resolvable(rphases, p) for e in live for p, _ in e['rows']):
            U.tags.add('in:mix:case-variant-phase')
        if exc is not None:
            return raised(cfg) if inq else None
        after = now(r)
        for c in set(itertools.chain(after, *[e['tot'] for e in E])):
            want = sum((e['tot'].get(c, 0) for e in E), Fraction(0))
            if flag == 'vle' and abs(float(after.get(c, 0)) - float(want)) <= 1e-12 + 1e-9 * abs(float(want)): continue
            if after.get(c, 0) != want:
                return (f'mix:{cfg}:totals', f'after `{line}` chemical {NAMES[c]}: receiver holds {after.get(c, 0)} but the inlets sum to {want}')
        return None

    if op == 'split':
        f, a, b = int(t[1]), int(t[2]), int(t[3])
        fb, ab, bb = before[f], before[a], before[b]
        if not fb['nonneg'] or a == b: return None
        if t[4] == 's':
            q = Fraction(t[5]); spl = {c: q for c in fb['pkg']}
        else:
            spl = {c: Fraction(x) for c, x in zip(fb['pkg'], t[5].split(','))}
        if any(v < 0 or v > 1 for v in spl.values()): return None
        fph = [p for p, _ in fb['rows']]
        other = (ab['pkg'] is not fb['pkg']) or (bb['pkg'] is not fb['pkg'])
        anyM = ab['multi'] or bb['multi']
        if eb: anyM = anyM or fb['multi']        # with the energy balance a multi-phase feed converts both outlets
        if fb['multi'] and anyM:
            # outlets must be able to take the feed's phases (their own content is overwritten)
            for o in (ab, bb):
                for p, r in o['rows']:
                    if any(r) and not resolvable(fph, p): return None
        if not fb['multi'] and anyM: cfg = 'S->M-outlet'
        elif fb['multi'] and not anyM: cfg = 'M->S,S' + ('.other-package' if other else '')
        else:
            cfg = ('M' if fb['multi'] else 'S') + ('->other-package' if other else '->same-package')
            if other:
                # an all-zero share towards an other-package outlet
                rows = fb['rows'] if (fb['multi'] and anyM) else [('*', [fb['tot'][c] for c in fb['pkg']])]
                for o, top in ((ab, True), (bb, False)):
                    if o['pkg'] is fb['pkg']: continue
                    for _, r in rows:
                        share = [v * spl[c] if top else v - v * spl[c] for c, v in zip(fb['pkg'], r)]
                        if not any(share): cfg += '.zero-share'; break
                    else: continue
                    break
        inq = set(fb['pkg']) <= set(ab['pkg']) and set(fb['pkg']) <= set(bb['pkg'])
        if eb: cfg += '.eb'
        U.tags.add(f'in:split:{cfg}'); U.tags.add('in:split:' + ('scalar' if t[4] == 's' else 'vector'))
        if f in (a, b): U.tags.add('in:split:feed-is-outlet')
        if exc is not None:
            return raised(cfg) if inq else None
        na, nb = now(a), now(b)
        for c in set(itertools.chain(fb['tot'], na, nb)):
            x = fb['tot'].get(c, Fraction(0)); s = spl.get(c, Fraction(0))
            if na.get(c, 0) != s * x:
                return (f'split:{cfg}:values', f'after `{line}` chemical {NAMES[c]}: first outlet holds {na.get(c, 0)}, split*feed = {s * x}')
            if nb.get(c, 0) != x - s * x:
                return (f'split:{cfg}:values', f'after `{line}` chemical {NAMES[c]}: second outlet holds {nb.get(c, 0)}, feed - split*feed = {x - s * x}')
        return None

    if op == 'sep':
        x = int(t[1])
        xb, yb = before[x], entry(before, t[2])
        if yb is None: return None                         # a phase view that does not exist
        if not (xb['nonneg'] and yb['nonneg']): return None
        if any(xb['tot'].get(c, 0) < v for c, v in yb['tot'].items()): return None      # y is not contained in x
        other = xb['pkg'] is not yb['pkg']
        xph = [p for p, _ in xb['rows']]
        if xb['multi']:
            for p, r in yb['rows']:
                if any(r) and not resolvable(xph, p): return None
        if yb['empty'] and not yb['multi'] and xb['multi']: cfg = 'M-S.empty'
        else:
            cfg = ('M' if xb['multi'] else 'S') + '-' + ('M' if yb['multi'] else 'S') + ('.other-package' if other else '') \
                + ('.same-phases' if xb['multi'] and yb['multi'] and xph == [p for p, _ in yb['rows']] else '')
        if eb: cfg += '.eb'
        U.tags.add(f'in:sep:{cfg}')
        if '.' in t[2]:
            U.tags.add('in:sep:phase-view' + ('-of-itself' if yb.get('view_of') == x and not yb['empty'] else ''))
        if exc is not None:
            return raised(cfg)
        after = now(x)
        for c in set(itertools.chain(after, yb['tot'])):
            want = xb['tot'].get(c, Fraction(0)) - yb['tot'].get(c, Fraction(0))
            if after.get(c, 0) != want:
                return (f'sep:{cfg}:remainder', f'after `{line}` chemical {NAMES[c]}: {after.get(c, 0)} left, mixture - separated = {want}')
        return None

    if op == 'copy' and before[int(t[1])]['multi']:
        return oracle_copy_multi(U, line, t, before, exc, raised)
    if op == 'copy':
        d, s = int(t[1]), int(t[2])
        db, sb = before[d], before[s]
        rm, ex = t[4] == '1', t[5] == '1'
        if d == s or not sb['nonneg']: return None
        spk = sb['pkg']
        if t[3] == '*' and not ex:
            # a whole-stream copy (with or without removal): the destination holds exactly the source's flows, i.e. also
            # nothing of what it held before of chemicals the source's package does not list
            other_ = db['pkg'] is not spk
            cfgw = 'S<-' + ('M' if sb['multi'] else 'S') + ('.other-package' if other_ else '') + '.whole-stream'
            U.tags.add(f'in:copy:{cfgw}' + ('' if rm else '.keep'))
            if exc is not None:
                return raised(cfgw) if set(spk) <= set(db['pkg']) else None
            nd0 = now(d)
            for c in set(db['pkg']) | set(spk):
                if nd0.get(c, 0) != sb['tot'].get(c, Fraction(0)):
                    return (f'copy:{cfgw}:destination-not-the-source', f'after `{line}` chemical {NAMES[c]}: the source held '
                            f'{sb["tot"].get(c, 0)}, the destination (holding {db["tot"].get(c, 0)} before) now holds {nd0.get(c, 0)}')
            if not rm:
                ns0 = now(s)
                if ns0 != sb['tot']:
                    return (f'copy:{cfgw}:source-changed', f'`{line}` (remove=False) changed the source')
                return None
        if not rm: return None
        if t[3] == '*': sel = list(spk); form = 'all'
        elif t[3].startswith('='): sel = [int(t[3][1:])]; form = 'str'
        else: sel = parse_ids(t[3]); form = 'seq'
        if any(c not in spk for c in sel): return None
        K = [c for c in spk if (c not in sel)] if ex else list(sel)
        if t[3] == '*' and ex: K = []
        other = db['pkg'] is not spk
        if ex and len(K) == len(spk) and t[3] != '*': cfg = 'exclude-nothing'
        elif form == 'str' and other and not ex and not db['multi']: cfg = 'str-ID.other-package'
        else: cfg = ('M' if db['multi'] else 'S') + '<-' + ('M' if sb['multi'] else 'S') + ('.other-package' if other else '')
        if db['multi']:
            dph = [p for p, _ in db['rows']]; sph = [p for p, _ in sb['rows']]
            cfg += ('' if not sb['multi'] else ('.same-phases' if dph == sph else '.other-phases'))
            if not sb['multi'] and not resolvable(dph, sph[0]): cfg += '.new-phase'
        inq = set(spk) <= set(db['pkg'])
        U.tags.add(f'in:copy:{cfg}.{form}' + ('.exclude' if ex else ''))
        if exc is not None:
            return raised(cfg) if inq else None
        nd, ns = now(d), now(s)
        for c in spk:
            if c in K:
                if ns.get(c, 0) != 0:
                    return (f'copy:{cfg}:not-removed', f'after `{line}` chemical {NAMES[c]} was copied but the source still holds {ns[c]}')
                if nd.get(c, 0) != sb['tot'][c]:
                    return (f'copy:{cfg}:moved-amount', f'after `{line}` chemical {NAMES[c]}: source held {sb["tot"][c]}, destination now holds {nd.get(c, 0)} (material lost or duplicated)')
            elif ns.get(c, 0) != sb['tot'][c]:
                return (f'copy:{cfg}:source-changed', f'after `{line}` chemical {NAMES[c]} was not selected but the source went from {sb["tot"][c]} to {ns.get(c, 0)}')
        return None

    if op in ('scale', 'idiv'):
        # in place: every stream that holds (some of) the same flow data must read k times what it read, row by row;
        # every other stream is untouched.  Sharing is object identity of the sparse rows, observed before the call.
        i = int(t[1]); k = Fraction(t[2])
        if k == 0 and op == 'idiv': return None
        fac = k if op == 'scale' else 1 / k
        target = {id(r) for r in before[i]['rowobjs']}
        sharing = [h for h, b in enumerate(before) if h != i and any(id(r) in target for r in b['rowobjs'])]
        cfg = ('M' if before[i]['multi'] else 'S') + ('.shared-data' if sharing else '')
        if sharing: U.tags.add('in:scale:shared-data')
        if exc is not None: return raised(cfg)
        for h, b in enumerate(before):
            want = {c: Fraction(0) for c in b['pkg']}
            for robj, (_, r) in zip(b['rowobjs'], b['rows']):
                f = fac if id(robj) in target else 1
                for c, v in zip(b['pkg'], r): want[c] += f * v
            got = now(h)
            for c in b['pkg']:
                if got.get(c, 0) != want[c]:
                    who = 'the stream itself' if h == i else (f'stream {h}, which holds the same flow data,' if h in sharing
                                                            else f'stream {h} (no shared data)')
                    return (f'{op}:{cfg}:' + ('linear' if h == i else 'holder-not-scaled' if h in sharing else 'other-stream-changed'),
                            f'after `{line}` chemical {NAMES[c]}: {who} reads {got.get(c, 0)}, expected {want[c]}')
        return None
    if op in ('mul', 'div'):
        i = int(t[1]); k = Fraction(t[2])
        if k == 0 and op in ('idiv', 'div'): return None
        fac = k if op in ('scale', 'mul') else 1 / k
        cfg = 'M' if before[i]['multi'] else 'S'
        if exc is not None: return raised(cfg)
        j = i if op in ('scale', 'idiv') else len(before)
        after = now(j)
        for c, v in before[i]['tot'].items():
            if after.get(c, 0) != fac * v:
                return (f'{op}:{cfg}:linear', f'after `{line}` chemical {NAMES[c]}: {after.get(c, 0)} instead of {fac} * {v}')
        if j != i and now(i) != before[i]['tot']:
            return (f'{op}:{cfg}:operand-changed', f'`{line}` changed its operand')
        return None
    return None


def oracle_copy_multi(U, line, t, before, exc, raised):
    """MultiStream.copy_flow(other, phase, IDs, remove=True, exclude=): the selected entries (phase x chemical, by name)
    leave the source and must be found in the destination; nothing else leaves the source."""
    d, s = int(t[1]), int(t[2])
    db, sb = before[d], before[s]
    rm, ex = t[4] == '1', t[5] == '1'
    ph = '*' if len(t) < 7 else t[6]
    if not rm or d == s or not sb['nonneg']: return None
    spk = sb['pkg']
    if t[3] == '*': sel = list(spk); form = 'all'
    elif t[3].startswith('='): sel = [int(t[3][1:])]; form = 'str'
    else: sel = parse_ids(t[3]); form = 'seq'
    if any(c not in spk for c in sel): return None
    dph = [p for p, _ in db['rows']]; sph = [p for p, _ in sb['rows']]
    # selected entries, by name: phases are named through the destination's phase indexer (exact, else other case)
    def rd(p):
        return p if p in dph else (swapc(p) if swapc(p) in dph else None)
    target = None if ph == '*' else (rd(ph) or '')
    def sel_entry(p, c):
        inside = (target is None or rd(p) == target) and (c in sel)
        return (not inside) if ex else inside
    moved = {c: Fraction(0) for c in spk}
    for p, r in sb['rows']:
        for c, v in zip(spk, r):
            if sel_entry(p, c): moved[c] += v
    if not db['nonneg']: return None
    if sb['multi'] and dph != sph: cfg = 'M<-M.different-phases'
    elif ex and form == 'all': cfg = 'M<-exclude-all-chemicals'
    elif sb['multi']: cfg = 'M<-M.same-phases'
    elif ex and target is not None and rd(sph[0]) != target: cfg = 'M<-S.exclude.other-phase'
    else: cfg = 'M<-S'
    same_chem = list(db['pkg']) == list(spk)
    U.tags.add(f'in:copy:{cfg}.{form}' + ('.exclude' if ex else '') + ('.phase' if ph != '*' else ''))
    if exc is not None:
        # a multi-phase source must have the destination's phase tuple (rows are paired by position; the call says so),
        # a single-phase source a phase the destination has: otherwise the refusal is legitimate
        ok_phases = (dph == sph) if sb['multi'] else resolvable(dph, sph[0])
        inq = same_chem and ok_phases and (ph == '*' or resolvable(dph, ph))
        return raised(cfg) if inq else None
    nd, ns = U.totals(U.streams[d]), U.totals(U.streams[s])
    if form == 'all' and not ex and ph == '*':
        # whole-stream cut and paste: the destination holds exactly the source's flows, whatever it held before
        for c in set(db['pkg']) | set(spk):
            if nd.get(c, 0) != sb['tot'].get(c, Fraction(0)):
                return (f'copy:{cfg}:destination-not-the-source', f'after `{line}` chemical {NAMES[c]}: the source held '
                        f'{sb["tot"].get(c, 0)}, the destination (holding {db["tot"].get(c, 0)} before) now holds {nd.get(c, 0)}')
    for c in spk:
        got = nd.get(c, 0)
        if ns.get(c, 0) != sb['tot'][c] - moved[c] or got < moved[c] or (db['empty'] and got != moved[c]):
            return (f'copy:{cfg}:' + ('rows-by-position' if cfg == 'M<-M.different-phases' else 'material'), f'after `{line}` chemical {NAMES[c]}: the selected entries of the source held {moved[c]} of '
                    f'{sb["tot"][c]}; the source now holds {ns.get(c, 0)}, the destination (holding {db["tot"].get(c, 0)} before) '
                    f'holds {got} (material lost or duplicated)')
    return None


SAFE_DEN = 1 << 24
SAFE_MAX = 1 << 20


def safe(U, mag=1):
    """every stored value stays on the grid (scaled by the case's magnitude) on which the float arithmetic of the next op is exact"""
    for s in U.streams:
        for _, r in U.rows(s):
            for v in r:
                if abs(v) >= SAFE_MAX * mag or (v * SAFE_DEN / mag).denominator != 1: return False
    return True


HFAIL = [0]
DEFAULTS = ('iadd', 'add', 'isub')       # operator forms: always the library defaults


def run_ops(ops):
    U = Universe()
    outs, failures, dead, moved = [], [], False, False
    model_in = []
    for i, line in enumerate(ops):
        model_in.append(line)
        if dead:
            if outs and outs[-1] == 'skip=numerics':
                outs.append('skip=numerics'); model_in[-1] = 'skip'
            else: outs.append('dead')
            continue
        before = U.snapshot() if not line.startswith(('pkg', 'new')) else None
        HFAIL[0] = 0
        try:
            o = U.apply(line); exc = None
        except ErrorInOp:
            raise
        except Exception as e:
            o = 'err=' + err_name(e); exc = e; dead = True
            if line.split(' ')[0] in DEFAULTS or line.endswith(' eb') or ' vle' in line:
                if is_numerics(e):
                    # the enthalpy solve gave up: the case ends here without a verdict on this line
                    U.tags.add('eb:numerics-skip')
                    if before is not None and all(b['nonneg'] for b in before) and ' vle' not in line:
                        # all flows non-negative, every stream at 298.15 K: the enthalpy solve has no reason to give up
                        # (a flash that does not converge is C03 / C04's business, not a C01 failure)
                        failures.append({'signature': 'eb:enthalpy-solve-failed', 'op_index': i,
                                         'what': f'`{line}` (all flows non-negative) raised {type(e).__name__} out of the '
                                                 f'thermodynamic code: {str(e)[:100]}; the case is not judged from here on'})
                    # from here on the real state is not the model's: the driver is not asked about these lines
                    outs.extend(['skip=numerics'] * (len(ops) - i))
                    model_in[-1:] = ['skip'] * (len(ops) - i)
                    break
        if exc is None and (' vle' in line or ' cp' in line) and line.startswith('mix'):
            dead = True
        if exc is None and HFAIL[0]:
            # the enthalpy solve failed and was handled inside the call (re-phase and re-mix, or worse): the material result
            # is still judged by the oracle below, but the model does not follow that path
            U.tags.add('eb:H-setter-failed-inside-call')
            if before is not None and all(b['nonneg'] for b in before):
                failures.append({'signature': 'eb:enthalpy-solve-failed', 'op_index': i,
                                 'what': f'during `{line}` (all flows non-negative) an enthalpy setter raised and the call went '
                                         f'on (re-phase / re-mix fallback); the case is not judged from here on'})
            o = 'skip=numerics'; dead = True; model_in[-1] = 'skip'
        outs.append(o)
        t0 = line.split(' ')
        if exc is None and not dead and (t0[0] in DEFAULTS or t0[-1] == 'eb') and before is not None \
                and not all(b['nonneg'] for b in before):
            # an energy balance while some stream holds a negative flow (outside the quantifier): what the enthalpy solve
            # does to phase labels is meaningless; the totals of this line are still compared, then the case ends
            U.tags.add('eb:negative-flows-totals-only')
            outs[-1] = o.split(' ph=')[0]; model_in[-1] = line + ' tot!'; dead = True
        elif exc is None and (t0[0] in DEFAULTS or t0[-1] == 'eb') and t0[0] in ('mix', 'sum', 'sep', 'iadd', 'add', 'isub'):
            # `self.H = H` may relabel a single-phase result g <-> l (temperature solve failed in the current phase):
            # thermodynamic numerics, handed to the model as a parameter of this line
            j = len(U.streams) - 1 if t0[0] in ('sum', 'add') else int(t0[1])
            if model_in[-1] != 'skip' and not U.is_multi(U.streams[j]) and U.streams[j].phase in 'gl':
                model_in[-1] = line + f' ph:{j}:{U.streams[j].phase}'
        if before is not None:
            if exc is None and not moved:
                after = U.snapshot()
                moved = any(a['tot'] != b['tot'] and not (a['empty'] and b['empty']) for a, b in zip(after, before)) \
                    or len(after) != len(before)
            v = oracle(U, line, before, exc)
            if v is not None:
                failures.append({'signature': v[0], 'op_index': i, 'what': v[1]})
    return U, outs, failures, moved, model_in


def run_impl(case: Case) -> ImplResult:
    U, outs, failures, moved, model_in = run_ops(case.ops)
    kinds = sorted({l.split(' ')[0] for l in case.ops if not l.startswith(('pkg', 'new'))})
    tags = list(kinds) + [o for o in outs if o.startswith('err=')] + sorted(U.tags)
    return ImplResult(model_in=model_in, outs=outs, failures=failures, tags=tags,
                      nontrivial=(tuple(case.ops) if moved else None))


def compare(impl_line, model_line):
    """the whole observable state: per-chemical totals of every stream (what the property talks about), the error class,
    and also each stream's kind, phase tuple and per-phase rows, so that the model's phase logic (expansion, case-variant
    merging, phases setter) is tied to the code directly and not only through totals"""
    if impl_line == 'skip=numerics': return True
    if impl_line.startswith('approx '):
        return approx_equal(impl_line[7:], model_line)
    return impl_line == model_line


def parse_tot(line):
    if not line.startswith('tot='): return None
    out = []
    for strm in line[4:].split('|'):
        out.append({int(x.split(':')[0]): Fraction(x.split(':')[1]) for x in strm.split(',') if x})
    return out


def approx_equal(a, b, rtol=1e-9, atol=1e-12):
    A, B = parse_tot(a), parse_tot(b)
    if A is None or B is None or len(A) != len(B): return a == b
    for x, y in zip(A, B):
        for c in set(x) | set(y):
            u, v = float(x.get(c, 0)), float(y.get(c, 0))
            if abs(u - v) > atol + rtol * max(abs(u), abs(v)): return False
    return True


def disagree_signature(case, res, first):
    l = res.model_in[first] if first < len(res.model_in) else 'length'
    t = l.split(' ')
    return 'disagree:' + t[0]


def protect_prefix(case):
    n = 0
    for l in case.ops:
        if l.startswith('pkg'): n += 1
        else: break
    return n


# --------------------------------------------------------------------------
# generation
# --------------------------------------------------------------------------

def dy(rng, zero=0.3):
    if rng.random() < zero: return Fraction(0)
    return Fraction(rng.randrange(1, 257), 1 << rng.randrange(0, 4)) * getattr(rng, 'mag', 1)


def draw_magnitude(rng):
    """the whole case is scaled by a power of two: exactness does not need O(1) flows, and thresholds on small or large
    flows (a tolerance in isempty, dropped trace entries) only show at other magnitudes"""
    r = rng.random()
    rng.mag = Fraction(1) if r < 0.68 else (Fraction(1, 1 << 40) if r < 0.88 else Fraction(1 << 30))
    return rng.mag


def fr(v):
    return frac(v)


def gen_pkgs(rng, subset=True):
    ids = list(range(6))
    n0 = rng.choice([4, 5, 6, 6])
    p0 = rng.sample(ids, n0)
    if subset:
        p1 = rng.sample(p0, rng.choice([1, 2, 2, 3, 3, min(4, n0)]))
        p2 = rng.sample(p0, rng.randrange(2, n0 + 1))
    else:
        p1 = rng.sample(ids, rng.randrange(2, 5))
        p2 = rng.sample(ids, rng.randrange(2, 6))
    # the same chemical sets listed in another order (the remap cache of a receiver package sees both orders)
    return [p0, p1, p2, reorder(rng, p1), reorder(rng, p0)]


def reorder(rng, p):
    if len(p) < 2: return list(p)
    q = list(p)
    for _ in range(8):
        rng.shuffle(q)
        if q != list(p): return q
    return list(reversed(p))


def entry_order(rng, n):
    return 'o' + ','.join(map(str, rng.sample(range(n), n)))


def row_line(rng, n, zero=0.3, empty=False):
    return ','.join(fr(Fraction(0) if empty else dy(rng, zero)) for _ in range(n))


def gen_new(rng, pkgs, pkg=None, kind=None, phases=None, empty=None, dense=None, order=None):
    pkg = rng.randrange(len(pkgs)) if pkg is None else pkg
    n = len(pkgs[pkg])
    kind = kind or rng.choice('SSM')
    empty = (rng.random() < 0.12) if empty is None else empty
    dense = (rng.random() < 0.3) if dense is None else dense      # every chemical flows: equal key *sets* meet often
    order = (rng.random() < 0.5) if order is None else order      # flows entered in a random order of the chemicals
    tail = (' ' + entry_order(rng, n)) if order else ''
    if kind == 'S':
        ph = phases or rng.choice('llgsSLg')
        return f'new {pkg} S {ph} {row_line(rng, n, 0.0 if dense else 0.35, empty)}' + tail
    if phases is None:
        k = rng.choice([2, 2, 2, 3, 3, 4, 5])
        phases = ''.join(rng.sample(PHASES, k)) if rng.random() < 0.6 else 'gl'
    rows = [row_line(rng, n, 0.0 if dense else 0.5, empty or rng.random() < 0.25) for _ in phases]
    return f'new {pkg} M {phases} {";".join(rows)}' + tail


def split_arg(rng, n):
    r = rng.random()
    if r < 0.45:
        return 's ' + fr(rng.choice([Fraction(0), Fraction(1), Fraction(1, 2), Fraction(1, 4), Fraction(3, 8), Fraction(7, 8)]))
    return 'v ' + ','.join(fr(rng.choice([Fraction(0), Fraction(1), Fraction(1, 2), Fraction(1, 4), Fraction(5, 8)])) for _ in range(n))


def view_tok(rng, U, i, p_variant=0.12):
    """a phase view of the multi-phase stream i: mostly one of its phases, sometimes the other case / a missing phase"""
    ph = U.streams[i].phases
    p = rng.choice(ph)
    if rng.random() < p_variant:
        p = rng.choice([swapc(p), rng.choice(PHASES)])
        if p not in PHASES: p = rng.choice(PHASES)          # 'G' is not a phase
    return f'{i}.{p}'


def with_views(rng, U, idxs, prob):
    out = []
    for i in idxs:
        if U.is_multi(U.streams[i]) and rng.random() < prob: out.append(view_tok(rng, U, i))
        else: out.append(str(i))
    return out


def EB(rng, p=0.3):
    """~30 % of the mix / sum / split calls are made with the library default energy_balance=True"""
    return ' eb' if rng.random() < p else ''


def write_targets(line):
    """streams whose flow data the op replaces or rewrites other than by scaling it in place"""
    t = line.split(' ')
    op = t[0]
    if op in ('mix', 'iadd', 'isub', 'sep', 'empty'): return [int(t[1])]
    if op == 'split': return [int(t[2]), int(t[3])]
    if op == 'copy': return [int(t[1])] + ([int(t[2])] if t[4] == '1' else [])
    return []


def gen_op(rng, U):
    """one generated step; streams that share flow data (holders and their owners) are only read or scaled in place"""
    for _ in range(12):
        new = gen_op0(rng, U)
        if not U.frozen or all(not (set(write_targets(l)) & U.frozen) for l in new if l != 'END'): return new
    i = rng.choice(sorted(U.frozen))
    return [f'{rng.choice(["scale", "imul", "idiv"])} {i} 2']


def gen_op0(rng, U):
    S = U.streams
    n = len(S)
    idx = list(range(n))
    kind = rng.choices(['mix', 'sum', 'split', 'sep', 'sepmix', 'copy', 'scale', 'mul', 'div', 'idiv', 'empty',
                        'iadd', 'add', 'isubmix', 'neg', 'rmul', 'imul', 'mixvle', 'mixcp', 'obs', 'from', 'shscale'],
                       [30, 5, 22, 8, 10, 14, 3, 2, 2, 1, 1,
                        4, 3, 3, 1, 2, 2, 1, 2, 4, 2, 6 if U.frozen else 0])[0]
    single = [i for i in idx if not U.is_multi(S[i])]
    if kind == 'mix':
        r = rng.choice(idx)
        k = rng.choice([0, 1, 1, 2, 2, 2, 3, 3, 4, 5])
        rp = set(U.pkg_of(S[r]))
        good = [i for i in idx if set(U.pkg_of(S[i])) <= rp]
        pool = good if (good and rng.random() < 0.93) else idx
        ins = [rng.choice(pool) for _ in range(k)]
        if k and rng.random() < 0.3: ins[rng.randrange(k)] = r
        toks = with_views(rng, U, ins, 0.25)
        # a view of the receiver labelled with the other case of one of its phases is not generated: when the same call
        # also expands the receiver's phases, MaterialIndexer.mix_from clears the row before it reads it (reported, not checked)
        toks = [x if not (x.startswith(f'{r}.') and x.split('.')[1] not in S[r].phases) else f'{r}.{rng.choice(S[r].phases)}'
                for x in toks]
        return [f'mix {r} {",".join(toks) if toks else "-"}' + EB(rng)]
    if kind == 'mixvle' and getattr(rng, 'mag', 1) != 1: kind = 'mixcp'       # the flash is run at ordinary magnitudes only
    if kind in ('mixvle', 'mixcp'):
        # vle=True / conserve_phases=True: totals only, ends the case.  For the flash everything is gas/liquid.
        gl = [i for i in idx if all(p in 'gl' for p in S[i].phases)] if kind == 'mixvle' else idx
        if not gl: return [f'scale {rng.choice(idx)} 1']
        r = rng.choice(gl)
        rp = set(U.pkg_of(S[r]))
        good = [i for i in gl if set(U.pkg_of(S[i])) <= rp]
        k = rng.choice([2, 2, 3, 3, 4])
        ins = [rng.choice(good) for _ in range(k)]
        if rng.random() < 0.3: ins[rng.randrange(k)] = r
        return [f'mix {r} {",".join(map(str, ins))} ' + ('vle' if kind == 'mixvle' else 'cp') + EB(rng, 0.6), 'END']
    if kind == 'sum':
        p = rng.randrange(len(U.pkgs))
        k = rng.choice([0, 1, 2, 2, 3])
        pp = set(U.pkgs[p][1])
        good = [i for i in idx if set(U.pkg_of(S[i])) <= pp]
        pool = good if (good and rng.random() < 0.93) else idx
        ins = [rng.choice(pool) for _ in range(k)]
        return [f'sum {p} {",".join(map(str, ins)) if ins else "-"}' + EB(rng)]
    if kind == 'split':
        f = rng.choice(idx)
        fp = set(U.pkg_of(S[f]))
        good = [i for i in idx if fp <= set(U.pkg_of(S[i]))]
        pool = good if (good and rng.random() < 0.93) else idx
        if not U.is_multi(S[f]) and rng.random() < 0.85:
            # a single-phase feed mostly onto single-phase outlets (a multi-phase outlet just becomes single-phase, C01-9)
            sp = [i for i in pool if not U.is_multi(S[i])]
            if sp: pool = sp
        elif U.is_multi(S[f]) and rng.random() < 0.5:
            mp = [i for i in pool if U.is_multi(S[i]) and i != f]
            if mp: pool = mp + [i for i in pool if i not in mp][:1]
        a = rng.choice(pool); b = rng.choice(pool)
        if a == b and rng.random() < 0.9 and len(pool) > 1:
            b = rng.choice([i for i in pool if i != a])
        return [f'split {f} {a} {b} {split_arg(rng, len(U.pkg_of(S[f])))}' + EB(rng)]
    if kind == 'sep':
        x = rng.choice(idx); y = rng.choice(idx)
        multi = [i for i in idx if U.is_multi(S[i])]
        if multi and rng.random() < 0.4:
            # one phase of a multi-phase stream separated out of that stream (or of another one)
            y = rng.choice(multi)
            if rng.random() < 0.7: x = y
            return [f'sep {x} {view_tok(rng, U, y)}']
        return [f'sep {x} {y}']
    if kind == 'sepmix':
        # the pattern of the property: mix a and b into r, then separate b out again
        r = rng.choice(idx)
        rp = set(U.pkg_of(S[r]))
        good = [i for i in idx if set(U.pkg_of(S[i])) <= rp and i != r]
        if len(good) < 1: return [f'sep {r} {r}']
        a = rng.choice(good); b = rng.choice(good)
        tb = with_views(rng, U, [b], 0.3)[0]
        e = EB(rng)
        return [f'mix {r} {a},{tb}' + e, f'sep {r} {tb}' + e]
    if kind == 'copy':
        multi = [i for i in idx if U.is_multi(S[i])]
        if multi and (not single or rng.random() < 0.4):
            d = rng.choice(multi)
            same = [i for i in idx if list(U.pkg_of(S[i])) == list(U.pkg_of(S[d])) and i != d]
            s = rng.choice(same) if (same and rng.random() < 0.9) else rng.choice(idx)
        else:
            d = rng.choice(single); s = rng.choice(idx)
            if s == d and rng.random() < 0.9: s = rng.choice(idx)
        sp = U.pkg_of(S[s])
        r = rng.random()
        if r < 0.35: ids = '*'
        elif r < 0.5: ids = '=' + str(rng.choice(sp if rng.random() < 0.9 else range(6)))
        else:
            k = rng.randrange(0, min(3, len(sp)) + 1)
            pool = sp if rng.random() < 0.9 else list(range(6))
            sel = rng.sample(list(pool), min(k, len(pool)))
            ids = ','.join(map(str, sel)) if sel else '()'
        rm = '1' if rng.random() < 0.75 else '0'
        ex = '1' if rng.random() < 0.25 else '0'
        if U.is_multi(S[d]):
            r = rng.random()
            php = '*' if r < 0.6 else (rng.choice(S[d].phases) if r < 0.92 else rng.choice(PHASES))
            return [f'copy {d} {s} {ids} {rm} {ex} {php}']
        return [f'copy {d} {s} {ids} {rm} {ex}']
    if kind in ('iadd', 'add', 'isubmix'):
        # operator forms; the result of `a + b` lives on the default package (package 0)
        tgt = set(U.pkgs[0][1]) if kind == 'add' else None
        a = rng.choice(idx)
        ap = tgt if tgt is not None else set(U.pkg_of(S[a]))
        good = [i for i in idx if set(U.pkg_of(S[i])) <= ap]
        if kind == 'add':
            if not good: return [f'neg {a}']
            a = rng.choice(good)
        b = rng.choice(good) if (good and rng.random() < 0.93) else rng.choice(idx)
        if kind == 'iadd': return [f'iadd {a} {b}']
        if kind == 'add': return [f'add {a} {b}']
        return [f'iadd {a} {b}', f'isub {a} {b}'] if a != b else [f'iadd {a} {b}']
    if kind == 'obs':
        free = [i for i in idx if i not in U.frozen]
        if not free: kind = 'shscale'
        else:
            j = rng.choice(free)
            if U.is_multi(S[j]) and rng.random() < 0.75: return [f'obs {view_tok(rng, U, j, 0.08)}']
            return [f'obs {j}']
    if kind == 'from':
        free = [i for i in idx if i not in U.frozen and not U.is_multi(S[i])]
        rng.shuffle(free)
        pick = []
        for i in free:
            if all(U.pkg_of(S[i]) is U.pkg_of(S[j]) and S[i].phase != S[j].phase for j in pick): pick.append(i)
            if len(pick) == 3: break
        if len(pick) >= 2: return [f'from {",".join(map(str, pick))}']
        kind = 'shscale'
    if kind == 'shscale':
        # scale, in place, something whose flow data is shared (owner or holder), then look at it through a split
        if not U.frozen: return [f'imul {rng.choice(idx)} 2']
        i = rng.choice(sorted(U.frozen))
        k = fr(rng.choice([Fraction(0), Fraction(1, 2), Fraction(2), Fraction(3), Fraction(3, 2), Fraction(1, 4)]))
        out = [f'{rng.choice(["scale", "imul", "imul"])} {i} {k}' if rng.random() < 0.8 else f'idiv {i} {rng.choice([2, 4])}']
        free = [x for x in idx if x not in U.frozen and set(U.pkg_of(S[i])) <= set(U.pkg_of(S[x]))]
        if len(free) >= 2 and rng.random() < 0.5:
            a, b = rng.sample(free, 2)
            out.append(f'split {i} {a} {b} {split_arg(rng, len(U.pkg_of(S[i])))}' + EB(rng))
        return out
    if kind == 'neg': return [f'neg {rng.choice(idx)}']
    if kind in ('rmul', 'imul'):
        return [f'{kind} {rng.choice(idx)} {fr(rng.choice([Fraction(0), Fraction(1, 2), Fraction(2), Fraction(3), Fraction(3, 2)]))}']
    if kind in ('scale', 'mul'):
        return [f'{kind} {rng.choice(idx)} {fr(rng.choice([Fraction(0), Fraction(1, 2), Fraction(1, 4), Fraction(2), Fraction(3), Fraction(3, 2), Fraction(1)]))}']
    if kind in ('div', 'idiv'):
        return [f'{kind} {rng.choice(idx)} {rng.choice([1, 2, 4, 8])}']
    return [f'empty {rng.choice(idx)}']


def build(lines):
    """run lines on a fresh universe; returns (U, ok)"""
    U = Universe()
    for l in lines:
        try: U.apply(l)
        except ErrorInOp: raise
        except Exception: return U, False
    return U, True


def pkg_lines(rng, pkgs):
    """package 3 (the re-ordering of package 1) is built from separately constructed chemicals with other IDs for the same
    CAS numbers; package 2 sometimes carries the six IDs on other substances.  Only when the CAS lists differ from every
    other package's, because MultiStream.copy_flow accepts a source whose ID tuple equals the destination's."""
    flags = [''] * len(pkgs)
    distinct = lambda k: all(pkgs[k] != pkgs[j] for j in range(len(pkgs)) if j != k)
    if len(pkgs) > 3 and len(pkgs[3]) >= 2 and distinct(3) and rng.random() < 0.8: flags[3] = ' alt'
    # the swapped IDs of package 2 must not spell the ID tuple of another package: MultiStream.copy_flow takes equal ID
    # tuples for equal chemicals
    swapped = [NAMES[(c + 3) % 6] for c in pkgs[2]]
    if distinct(2) and all(swapped != [NAMES[c] for c in pkgs[j]] for j in range(len(pkgs)) if j != 2) \
            and rng.random() < 0.3: flags[2] = ' swap'
    return ['pkg ' + ','.join(map(str, p)) + f for p, f in zip(pkgs, flags)]


def gen_random(rng, nstreams, nops):
    mag = draw_magnitude(rng)
    pkgs = gen_pkgs(rng, subset=rng.random() < 0.88)
    ops = pkg_lines(rng, pkgs)
    for _ in range(nstreams):
        ops.append(gen_new(rng, pkgs))
    U, ok = build(ops)
    if not ok: return Case(ops, {})
    for _ in range(nops):
        new = gen_op(rng, U)
        for l in new:
            if l == 'END': return Case(ops, {})
            ops.append(l)
            HFAIL[0] = 0
            try: U.apply(l)
            except ErrorInOp: raise
            except Exception: return Case(ops, {})
            if HFAIL[0]: return Case(ops, {})       # the enthalpy solve failed inside the call: the case ends here
        if not safe(U, mag):
            for _ in new: ops.pop()
            break
        if len(U.streams) > 10: break
    return Case(ops, {})


def phase_subsets():
    out = []
    for k in range(1, 6):
        out.extend(''.join(c) for c in itertools.combinations(PHASES, k))
    return out


def grid_cases(rng):
    """deterministic skeletons (values random): every dispatch branch at least once per run"""
    cases = []
    # ---- mixing: receiver kind x inlet phase subset x package relation x self among the inlets
    for sub in phase_subsets():
        for rk in ('S', 'M'):
            for rel in ('same', 'other'):
                for selfin in (False, True):
                    for shape in ('singles', 'multi'):
                        if shape == 'multi' and len(sub) < 2: continue
                        cases.append(('mix', sub, rk, rel, selfin, shape))
    # ---- splitting
    for fk in ('S', 'M'):
        for ak in ('S', 'M'):
            for bk in ('S', 'M'):
                for rel in ('same', 'other'):
                    for sp in ('0', '1', 'half', 'vec', 'vec01'):
                        cases.append(('split', fk, ak, bk, rel, sp))
    # ---- separating
    for xk in ('S', 'M'):
        for yk in ('S', 'M'):
            for rel in ('same', 'other'):
                for phs in ('equal', 'sub', 'variant'):
                    for ye in (False, True):
                        cases.append(('sep', xk, yk, rel, phs, ye))
    # ---- copy with removal
    for sk in ('S', 'M'):
        for rel in ('same', 'other'):
            for form in ('*', 'str', 'seq'):
                for ex in ('0', '1'):
                    cases.append(('copy', sk, rel, form, ex))
    # ---- copy with removal onto a multi-phase destination (same chemicals)
    for sk in ('S', 'Msame', 'Mother', 'Mmore'):
        for form in ('*', 'str', 'seq'):
            for ex in ('0', '1'):
                for php in ('*', 'p'):
                    cases.append(('mcopy', sk, form, ex, php))
    # ---- the CAS remap (index_overlap and its per-package cache) under history: the same chemical set reaches one
    #      receiver package from two packages listing it in opposite orders, and from one package with flows entered
    #      in different orders; through mix (single- and multi-phase receivers and inlets), sum, separate, split
    for rk in ('S', 'M'):
        for ik in ('S', 'M'):
            for big in (False, True):
                for variant in ('two-packages', 'entry-order', 'one-op', 'sep', 'split'):
                    cases.append(('remap', rk, ik, big, variant))
    # ---- holders of shared flow data: views, flow proxies, from_streams; scale owner / holder in place, then look at both
    for how in ('view', 'view-variant', 'proxyS', 'proxyM', 'from'):
        for op in ('scale', 'imul', 'idiv'):
            for whom in ('owner', 'holder'):
                for then in ('split', 'mix', 'none'):
                    cases.append(('holders', how, op, whom, then))
    # ---- phase views as operands: one phase separated out of its own multi-phase stream / of another stream / mixed
    for nph in (2, 3, 4):
        for which in ('own', 'own-variant', 'other', 'mix-own', 'mix-other', 'single'):
            for rel in ('same', 'other'):
                cases.append(('view', nph, which, rel))
    return cases


def nstreams(ops):
    return sum(1 for l in ops if l.startswith('new'))


def S_phase_tok(new_line):
    return new_line.split(' ')[3]


def make_grid_case(rng, spec):
    draw_magnitude(rng)
    pkgs = gen_pkgs(rng, subset=True)
    ops = pkg_lines(rng, pkgs)
    kind = spec[0]
    if kind == 'mix':
        _, sub, rk, rel, selfin, shape = spec
        rph = 'gl' if rng.random() < 0.6 else ''.join(rng.sample(PHASES, rng.choice([2, 3])))
        ops.append(gen_new(rng, pkgs, 0, rk, rph if rk == 'M' else rng.choice('lg'), empty=False))
        ipkg = 0 if rel == 'same' else rng.choice([1, 2, 3, 4])
        ins = []
        if shape == 'singles':
            for p in sub:
                ops.append(gen_new(rng, pkgs, ipkg if rng.random() < 0.8 else 0, 'S', p, empty=rng.random() < 0.1))
                ins.append(nstreams(ops) - 1)
        else:
            ops.append(gen_new(rng, pkgs, ipkg, 'M', sub, empty=False)); ins.append(nstreams(ops) - 1)
            if rng.random() < 0.5:
                ops.append(gen_new(rng, pkgs, 0, 'S', rng.choice(PHASES))); ins.append(nstreams(ops) - 1)
        if selfin: ins.insert(rng.randrange(len(ins) + 1), 0)
        e = EB(rng, 0.35)
        ops.append(f'mix 0 {",".join(map(str, ins))}' + e)
        # and separate the last inlet out again
        if ins[-1] != 0: ops.append(f'sep 0 {ins[-1]}' + e)
    elif kind == 'split':
        _, fk, ak, bk, rel, sp = spec
        fpkg = 0 if rel == 'same' else rng.choice([1, 2, 3, 4])
        fph = 'gl' if rng.random() < 0.5 else ''.join(rng.sample(PHASES, rng.choice([2, 3])))
        ops.append(gen_new(rng, pkgs, fpkg, fk, fph if fk == 'M' else rng.choice('lgs'), empty=False))
        for k in (ak, bk):
            ops.append(gen_new(rng, pkgs, 0, k, (fph if rng.random() < 0.7 else 'gl') if k == 'M' else rng.choice(fph if fk == 'M' else 'lg')))
        n = len(pkgs[fpkg])
        arg = {'0': 's 0', '1': 's 1', 'half': 's 1/2'}.get(sp)
        if sp == 'vec': arg = 'v ' + ','.join(fr(rng.choice([Fraction(1, 2), Fraction(1, 4), Fraction(3, 4), Fraction(1, 8)])) for _ in range(n))
        if sp == 'vec01': arg = 'v ' + ','.join(rng.choice(['0', '1']) for _ in range(n))
        ops.append(f'split 0 1 2 {arg}' + EB(rng, 0.4))
    elif kind == 'sep':
        _, xk, yk, rel, phs, ye = spec
        ypkg = 0 if rel == 'same' else rng.choice([1, 2, 3, 4])
        xph = ''.join(rng.sample(PHASES, rng.choice([2, 3, 4])))
        if phs == 'equal': yph = xph
        elif phs == 'sub': yph = ''.join(rng.sample(xph, 2))
        else: yph = ''.join(swapc(p) if p in 'slSL' else p for p in rng.sample(xph, 2))
        if len(set(yph)) < 2: yph = xph
        # a remainder a, the part y; x = a + y is built by mixing so that y is contained in x
        ops.append(gen_new(rng, pkgs, 0, xk, xph if xk == 'M' else rng.choice('lg'), empty=True))
        ak = rng.choice('SM')
        ops.append(gen_new(rng, pkgs, 0, ak, (xph if rng.random() < 0.5 else None) if ak == 'M' else rng.choice(xph)))
        ops.append(gen_new(rng, pkgs, ypkg, yk, yph if yk == 'M' else rng.choice(yph), empty=ye))
        ops.append('mix 0 1,2')
        ops.append('sep 0 2')
    elif kind == 'remap':
        _, rk, ik, big, variant = spec
        # package 0 receives; B and C hold the same set (all of package 1, or all of package 0) in two orders
        B, C = (4, 0) if big else (1, 3)
        if big:
            pkgs = pkgs + [reorder(rng, pkgs[0])]
            ops.append('pkg ' + ','.join(map(str, pkgs[5])) + (' alt' if all(pkgs[5] != q for q in pkgs[:5]) else '')); C = 5
        elif len(pkgs[1]) < 2:
            pkgs[1] = rng.sample(pkgs[0], 2); pkgs[3] = list(reversed(pkgs[1]))
            ops[1] = 'pkg ' + ','.join(map(str, pkgs[1]))
            ops[3] = 'pkg ' + ','.join(map(str, pkgs[3])) + (' alt' if all(pkgs[3] != pkgs[j] for j in (0, 1, 2, 4)) else '')
        rph = 'gl' if rng.random() < 0.5 else ''.join(rng.sample(PHASES, 3))
        def recv(): ops.append(gen_new(rng, pkgs, 0, rk, rph if rk == 'M' else rng.choice('lg'), empty=rng.random() < 0.5)); return nstreams(ops) - 1
        def inlet(pk, order):
            iph = (rph if rng.random() < 0.7 else 'ls') if ik == 'M' else rng.choice(rph)
            ops.append(gen_new(rng, pkgs, pk, ik, iph, empty=False, dense=True, order=order)); return nstreams(ops) - 1
        r1, r2 = recv(), recv()
        if variant == 'two-packages':
            b1, b2, c1, c2 = inlet(B, False), inlet(B, False), inlet(C, False), inlet(C, False)
            ops += [f'mix {r1} {b1},{b2}', f'mix {r2} {c1},{c2}', f'mix {r1} {b1},{c1},{c2}', f'sum 0 {c2},{b2}']
        elif variant == 'entry-order':
            d1, d2, d3 = inlet(B, True), inlet(B, True), inlet(B, True)
            ops += [f'mix {r1} {d1},{d2}', f'mix {r2} {d2},{d3}', f'mix {r1} {d3},{d1}']
        elif variant == 'one-op':
            b1, c1, d1 = inlet(B, True), inlet(C, True), inlet(B, True)
            ops += [f'mix {r1} {b1},{c1},{d1},{r1}', f'mix {r2} {c1},{d1}']
        elif variant == 'sep':
            b1, c1 = inlet(B, True), inlet(C, True)
            ops += [f'mix {r1} {b1},{c1}', f'sep {r1} {c1}', f'mix {r2} {c1},{b1},{r2}', f'sep {r2} {b1}', f'sep {r2} {c1}']
        else:
            b1, c1 = inlet(B, True), inlet(C, True)
            ops += [f'mix {r1} {b1},{c1}', f'split {c1} {r1} {r2} {split_arg(rng, len(pkgs[C]))}', f'mix {r2} {c1},{b1}',
                    f'split {b1} {r2} {r1} {split_arg(rng, len(pkgs[B]))}']
    elif kind == 'holders':
        _, how, op, whom, then = spec
        ph = ''.join(rng.sample(PHASES, rng.choice([2, 3])))
        if how == 'view-variant': ph = 'l' + rng.choice('gs') if rng.random() < 0.5 else 'S' + rng.choice('gl')
        if how in ('view', 'view-variant', 'proxyM'):
            ops.append(gen_new(rng, pkgs, 0, 'M', ph, empty=False, dense=True)); owner = 0
            if how == 'proxyM': ops.append('obs 0')
            else: ops.append(f'obs 0.{swapc(ph[0]) if how == "view-variant" else rng.choice(ph)}')
            holder = 1
        elif how == 'proxyS':
            ops.append(gen_new(rng, pkgs, 0, 'S', rng.choice(PHASES), empty=False)); ops.append('obs 0'); owner, holder = 0, 1
        else:
            for p in ph: ops.append(gen_new(rng, pkgs, 0, 'S', p, empty=False))
            ops.append('from ' + ','.join(map(str, range(len(ph))))); owner, holder = len(ph), rng.randrange(len(ph))
        base = nstreams(ops) + sum(1 for l in ops if l.startswith(('obs', 'from')))
        ops.append(gen_new(rng, pkgs, 0, 'M' if rng.random() < 0.5 else 'S', None, empty=True))
        ops.append(gen_new(rng, pkgs, 0, 'S', rng.choice('lg'), empty=True))
        a, b = base, base + 1
        target = owner if whom == 'owner' else holder
        k = '4' if op == 'idiv' else fr(rng.choice([Fraction(3), Fraction(1, 2), Fraction(0), Fraction(3, 2)]))
        ops.append(f'{op} {target} {k}')
        if then == 'split': ops.append(f'split {owner} {a} {b} {split_arg(rng, len(pkgs[0]))}' + EB(rng, 0.4))
        elif then == 'mix': ops.append(f'mix {b} {holder},{owner}' + EB(rng, 0.3))
        ops.append(f'{rng.choice(["scale", "imul"])} {holder if whom == "owner" else owner} 2')
    elif kind == 'view':
        _, nph, which, rel = spec
        xph = ''.join(rng.sample(PHASES, nph))
        if which == 'own-variant':
            base = rng.choice('ls'); xph = base + ''.join(rng.sample([p for p in 'gSL' if p.lower() != base], min(nph - 1, 2)))
        xpkg = 0 if rel == 'same' else rng.choice([1, 2, 3, 4])
        ops.append(gen_new(rng, pkgs, xpkg, 'M', xph, empty=False, dense=True))          # 0: the multi-phase stream
        ops.append(gen_new(rng, pkgs, 0, rng.choice('SM'), None if rng.random() < 0.5 else None, empty=rng.random() < 0.3))  # 1
        ops.append(gen_new(rng, pkgs, 0, 'M', xph, empty=False, dense=True))             # 2: a superset-package mixture
        p = rng.choice(xph)
        if which == 'own': ops += [f'sep 0 0.{p}', f'sep 0 0.{rng.choice(xph)}']
        elif which == 'own-variant': ops += [f'sep 0 0.{swapc(xph[0])}', f'sep 0 0.{xph[1]}']
        elif which == 'other': ops += [f'mix 2 2,0', f'sep 2 0.{p}', f'sep 2 0']
        elif which == 'mix-own':
            e = EB(rng, 0.5)
            ops += [f'mix 0 0.{p},1,0.{rng.choice(xph)}' + e if rel == 'same' else f'mix 0 0.{p},0.{rng.choice(xph)}' + e,
                    f'mix 0 0,0.{p}' + e]
            # the view is the only non-empty inlet (the others are empty streams), with the default energy balance
            ops.append(gen_new(rng, pkgs, 0, 'S', rng.choice('lgs'), empty=True)); e3 = nstreams(ops) - 1
            ops += [f'mix 0 {e3},0.{rng.choice(xph)} eb', f'mix 0 0.{rng.choice(xph)},{e3},{e3} eb']
        elif which == 'mix-other': ops += [f'mix 1 0.{p},2.{rng.choice(xph)},1', f'mix 2 0.{p},0', f'sep 2 0.{p}']
        else:
            ops.append(gen_new(rng, pkgs, 0, 'S', rng.choice('ls'), empty=False))           # 3: single-phase, S[3]['l'] is S[3]
            ops += [f'mix 1 3.{S_phase_tok(ops[-1])},0.{p}', f'sep 3 3.{S_phase_tok(ops[-1]).upper()}']
    elif kind == 'mcopy':
        _, sk, form, ex, php = spec
        dph = ''.join(rng.sample(PHASES, rng.choice([2, 3])))
        ops.append(gen_new(rng, pkgs, 0, 'M', dph, empty=rng.random() < 0.6))
        if sk == 'S': ops.append(gen_new(rng, pkgs, 0, 'S', rng.choice(dph), empty=False))
        elif sk == 'Msame': ops.append(gen_new(rng, pkgs, 0, 'M', dph, empty=False))
        elif sk == 'Mother':
            sph = ''.join(rng.sample(PHASES, len(dph)))
            ops.append(gen_new(rng, pkgs, 0, 'M', sph, empty=False))
        else:
            extra = [p for p in PHASES if p not in dph]
            ops.append(gen_new(rng, pkgs, 0, 'M', dph + rng.choice(extra), empty=False))
        sp_ = pkgs[0]
        if form == '*': ids = '*'
        elif form == 'str': ids = '=' + str(rng.choice(sp_))
        else: ids = ','.join(map(str, rng.sample(sp_, rng.randrange(1, len(sp_) + 1))))
        ops.append(f'copy 0 1 {ids} 1 {ex} {"*" if php == "*" else rng.choice(dph)}')
    else:
        _, sk, rel, form, ex = spec
        spkg = 0 if rel == 'same' else rng.choice([1, 2, 3, 4])
        ops.append(gen_new(rng, pkgs, 0, 'S', rng.choice('lg')))
        ops.append(gen_new(rng, pkgs, spkg, sk, None, empty=False))
        sp_ = pkgs[spkg]
        if form == '*': ids = '*'
        elif form == 'str': ids = '=' + str(rng.choice(sp_))
        else: ids = ','.join(map(str, rng.sample(sp_, rng.randrange(1, len(sp_) + 1))))
        ops.append(f'copy 0 1 {ids} 1 {ex}')
    return Case(ops, {'grid': list(map(str, spec))})


def generate(rng, tier, index, nworkers):
    b = budget(tier)
    grid = grid_cases(rng)
    reps = 1 if tier == 'quick' else 6
    # classes that the plain grid reaches only once: multi-phase copy with equal phase tuples, multi-phase feed onto
    # single-phase outlets
    thin = [sp for sp in grid if (sp[0] == 'mcopy' and sp[1] == 'Msame') or (sp[0] == 'split' and sp[1:4] == ('M', 'S', 'S'))]
    grid = grid + thin * 3
    for rep in range(reps):
        for j, spec in enumerate(grid):
            if j % nworkers == index:
                yield make_grid_case(rng, spec)
    n = max(1, (b['cases'] - reps * len(grid)) // nworkers)
    for j in range(n):
        r = rng.random()
        if r < 0.55: yield gen_random(rng, rng.randrange(3, 6), rng.randrange(1, 5))
        elif r < 0.9: yield gen_random(rng, rng.randrange(4, 8), rng.randrange(3, 9))
        else: yield gen_random(rng, rng.randrange(5, 9), 12)


def corpus():
    P = ['pkg 0,1,2,3,4,5', 'pkg 5,0,2', 'pkg 3,1,0,4']
    return [
        # DESIGN §8 #3: multi-phase inlet of another package into a single-phase receiver
        Case(P + ['new 0 S l 1,0,0,0,0,0', 'new 1 M gl 0,0,4;1,2,0', 'new 0 S g 0,1,0,0,0,0', 'mix 0 1,2']),
        Case(P + ['new 0 S l 8,8,8,8,8,8', 'new 1 M gl 0,0,4;1,2,0', 'sep 0 1']),
        # DESIGN §8 #4: other-package outlet with an all-zero share
        Case(P + ['new 0 S l 1,2,0,0,0,0', 'new 2 S l 0,0,0,0', 'new 2 S l 0,0,0,0', 'split 0 1 2 s 0']),
        # a phase the multi-phase receiver lacks
        Case(P + ['new 0 M gl 1,0,0,0,0,0;0,1,0,0,0,0', 'new 0 S s 3,0,0,0,0,0', 'new 0 S l 0,0,1,0,0,0', 'mix 0 1,2']),
        # exactly one non-empty inlet into a multi-phase receiver
        Case(P + ['new 0 M gl 1,0,0,0,0,0;0,1,0,0,0,0', 'new 0 S s 3,0,0,0,0,0', 'mix 0 1']),
        Case(P + ['new 0 M gl 1,0,0,0,0,0;0,1,0,0,0,0', 'new 0 M gls 3,0,0,0,0,0;0,0,0,0,0,0;0,0,0,0,0,5', 'mix 0 1']),
        # equal phase tuples, other package
        Case(P + ['new 0 M gl 8,8,8,8,8,8;8,8,8,8,8,8', 'new 1 M gl 1,2,0;1,0,0', 'sep 0 1']),
        # separating an empty stream of a phase the mixture lacks
        Case(P + ['new 0 M gl 8,8,8,8,8,8;8,8,8,8,8,8', 'new 0 S s 0,0,0,0,0,0', 'sep 0 1']),
        # multi-phase feed, single-phase outlets
        Case(P + ['new 0 M gl 8,8,0,0,0,0;0,4,4,0,0,0', 'new 0 S l 1,1,1,1,1,1', 'new 0 S l 1,1,1,1,1,1', 'split 0 1 2 s 1/4']),
        # index cache written by index_overlap, read by imol[CAS tuple] (C10 #2)
        Case(P + ['new 0 S l 0,0,0,0,0,0', 'new 2 S l 0,1,2,0', 'new 2 S g 0,1,2,0', 'mix 0 1,2',
                  'new 0 S l 0,0,0,0,0,0', 'split 1 0 3 s 1/2']),
        # receiver several times among the inlets
        Case(P + ['new 0 S l 1,2,0,0,0,0', 'new 0 M gl 1,2,4,0,0,0;0,0,4,0,0,0', 'mix 0 0,0,1', 'sep 0 1']),
        # single-phase feed, multi-phase outlet (C01-9)
        Case(P + ['new 0 S g 8,8,0,0,0,0', 'new 0 M gl 1,1,1,1,1,1;1,1,1,1,1,1', 'new 0 S l 1,1,1,1,1,1', 'split 0 1 2 s 1/4']),
        # copy_flow corner cases (C01-11, C01-10)
        Case(P + ['new 0 S l 1,1,1,1,1,1', 'new 1 S g 2,3,0', 'copy 0 1 =0 1 0']),
        Case(P + ['new 1 S l 1,1,1', 'new 1 S g 2,3,4', 'copy 0 1 =1 1 1']),
        # two splits with different phase tuples into the same multi-phase outlet (stale phase views, C12-1)
        Case(P + ['new 0 M gl 0,0,0,0,0,0;0,4,0,0,0,0', 'new 0 M ls 0,8,0,0,0,0;0,0,2,0,0,0', 'new 0 M gl 0,0,0,0,0,0;0,0,0,0,0,0',
                  'new 0 S l 0,0,0,0,0,0', 'split 0 2 3 s 1/2', 'split 1 2 3 s 1/2']),
        # MultiStream.copy_flow: whole stream, equally many phases; then the inputs of C01-12 / C01-13 / C01-14
        Case(P + ['new 0 M gl 1,1,1,1,1,1;0,0,0,0,0,0', 'new 0 M Ls 0,2,0,0,0,0;0,0,0,0,3,0', 'copy 0 1 * 1 0 *']),
        Case(['pkg 0,1,2', 'new 0 M gl 0,0,0;0,0,0', 'new 0 M gls 0,0,0;0,0,0;0,5,0', 'copy 0 1 * 1 0 *']),
        Case(['pkg 0,1,2', 'new 0 M gl 0,0,0;0,0,0', 'new 0 S g 1,2,3', 'copy 0 1 1 1 1 l']),
        Case(['pkg 0,1,2', 'new 0 M gl 0,0,0;0,0,0', 'new 0 S l 1,2,3', 'copy 0 1 * 1 1 *']),
        # one phase separated out of its own multi-phase stream, a view of the receiver among the inlets
        Case(P + ['new 0 M gl 3,1,0,0,0,0;5,2,4,0,0,0', 'new 0 S l 1,0,0,0,0,0', 'sep 0 0.g', 'mix 0 0.l,1,0', 'sep 0 0.L', 'sep 1 1.L']),
        # C01-15: the only non-empty inlet is a phase view of the receiver, default energy balance (copy_like of an own view)
        Case(P + ['new 0 M gl 0,0,0,0,0,0;5,2,0,0,0,0', 'new 0 S l 0,0,0,0,0,0', 'mix 0 1,0.l eb', 'mix 0 0.l eb', 'mix 0 0.l,0.g,1 eb']),
        Case(P + ['new 0 M Lgs 1,0,0,0,0,0;0,2,0,0,0,0;0,0,3,0,0,0', 'new 0 S g 0,0,0,0,0,0', 'mix 0 1,0.s,1 eb', 'sep 0 0.s eb']),
        # default energy balance: one non-empty inlet is copied (copy_like), single- and multi-phase, other package
        Case(P + ['new 0 S l 1,1,1,1,1,1', 'new 1 M gl 1,2,0;0,0,4', 'new 2 S s 0,0,0,0', 'mix 0 1,2 eb', 'mix 1 0 eb', 'sum 0 1,2 eb']),
        Case(P + ['new 0 M gl 8,8,0,0,0,0;0,4,4,0,0,0', 'new 0 S l 1,1,1,1,1,1', 'new 2 S s 1,1,1,1', 'split 0 1 2 s 1/4 eb', 'split 1 0 2 v 1/2,1/4,0,0,0,1 eb']),
        # operator forms
        Case(P + ['new 0 S l 1,2,0,0,0,0', 'new 1 S g 1,2,4', 'new 0 M gl 1,0,0,0,0,0;0,1,0,0,0,0', 'iadd 0 1', 'add 0 2', 'isub 0 1', 'iadd 2 0',
                  'neg 1', 'rmul 2 3/2', 'imul 2 1/2', 'imul 0 0']),
        # holders of shared flow data: scale the owner, a view, a proxy, a from_streams assembly; then split the owner
        Case(P + ['new 0 M gl 3,1,0,0,0,0;5,2,4,0,0,0', 'obs 0.l', 'obs 0', 'new 0 S l 0,0,0,0,0,0', 'new 0 S g 0,0,0,0,0,0', 'imul 0 3',
                  'imul 1 1/2', 'scale 2 2', 'idiv 1 4', 'split 0 3 4 s 1/4']),
        Case(P + ['new 0 S l 2,5,0,0,0,0', 'new 0 S g 1,0,4,0,0,0', 'from 0,1', 'new 0 S l 0,0,0,0,0,0', 'new 0 S l 0,0,0,0,0,0', 'imul 2 3',
                  'imul 0 1/2', 'obs 2.g', 'scale 5 2', 'split 2 3 4 v 1/2,1/4,1,0,0,0 eb']),
        # a package with other IDs for the same CAS numbers, one with the usual IDs on other substances; tiny and huge flows
        Case(['pkg 0,1,2', 'pkg 1,0 alt', 'pkg 0,1 swap', 'new 0 S l 0,0,0', 'new 1 S l 2,5', 'new 2 S g 7,11', 'new 1 M gl 1,0;0,3',
              'mix 0 1,2', 'mix 0 1,2,3 eb', 'sep 0 3', 'split 1 0 2 s 1/2', 'copy 0 3 =1 1 0', 'copy 0 2 0 1 1']),
        Case(['pkg 0,1,2', 'pkg 1,0 alt', 'new 0 S l 1/1099511627776,3/4398046511104,0', 'new 1 S g 5/1099511627776,1/2199023255552',
              'new 0 M gl 0,0,0;1/1099511627776,0,0', 'mix 2 0,1,2', 'mix 0 1,2 eb', 'sep 2 1', 'split 2 0 1 s 1/4']),
        Case(['pkg 0,1,2', 'pkg 1,0 alt', 'new 0 S l 1073741824,3221225472,0', 'new 1 S g 5368709120,1073741824',
              'new 0 M gl 0,0,0;1073741824,0,0', 'mix 2 0,1,2', 'mix 0 1,2 eb', 'sep 2 1', 'split 2 0 1 s 1/4']),
        # the remap cache of one receiver package sees the same chemical set in two orders (two packages, then two entry orders)
        Case(['pkg 0,1,2', 'pkg 1,0', 'pkg 0,1', 'new 0 S l 0,0,0', 'new 0 S l 0,0,0', 'new 1 S l 2,5', 'new 1 S l 1,3',
              'new 2 S l 7,11', 'new 2 S l 13,17', 'mix 0 2,3', 'mix 1 4,5', 'mix 0 2,4,5', 'new 2 S l 2,3 o0,1',
              'new 2 S l 23,19 o1,0', 'mix 1 6,7', 'sep 1 7']),
    ]


def search(case, rng, budget_s):
    """Look for a property failure on the real code near a disagreement: re-draw the numbers, append random ops."""
    t0 = time.time()
    npre = sum(1 for l in case.ops if l.startswith(('pkg', 'new')))
    while time.time() - t0 < budget_s:
        ops = list(case.ops)
        U, ok = build(ops[:-1] if ops else ops)
        if ok:
            for _ in range(rng.randrange(0, 4)):
                for l in gen_op(rng, U):
                    if l == 'END': break
                    ops.append(l)
                    try: U.apply(l)
                    except ErrorInOp: raise
                    except Exception: break
        c = Case(ops, {})
        try:
            res = run_impl(c)
        except Exception:
            continue
        if res.failures: return c
        if not ok: return None
    return None
