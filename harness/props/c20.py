"""
C20 — separation helper functions close the material balance and meet their targets.

Adapter for thermosteam/separations.py (mix_and_split, adjust_moisture_content, phase_fraction,
partition, partition_coefficients, lle, vle, phase_split, chemical_splits, material_balance,
mix_and_split_with_moisture_content) and the dispatch of
thermosteam/equilibrium/binary_phase_fraction.py::phase_fraction.

Every op of a case is one helper call on freshly built real streams; the outlet streams are built
NON-EMPTY (left over from "a previous call") in most cases, because the outlets are inputs too.
External numerics are recorded at run time by wrapping (no source edits) and passed to the Lean
driver as parameters of the model step:
  * the value returned by `compute_phase_fraction` (Rachford–Rice phase fraction) and, when it is
    reached, by `solve_phase_fraction_Rashford_Rice`;
  * the phase rows left by `ms.lle(..)` / `ms.vle(..)` inside the wrappers, and the two liquid densities;
  * molecular weights.
The oracle looks at the real streams only: inlets − outlets per chemical, non-negativity, achieved
partition ratios, achieved moisture, phase rows, splits round trip, balance residual, and that the
result does not depend on what the outlets held before the call.
Lean model: lean/ThermoVerif/Model/Separations.lean; driver lean/Driver/C20.lean.
"""
from __future__ import annotations
import json, math, warnings
from fractions import Fraction
from harness.core import Case, ImplResult, frac, close

PID = 'C20'
LEAN_MODULES = ['ThermoVerif.Props.C20']
RULE = ('1–3 helper calls per case, each on fresh real streams over the first n (1–6) of Water, Ethanol, Methanol, '
        'Glycerol, Octane, Propanol with dyadic flows (k·2^-e), outlets pre-filled with material in ~70 % of the '
        'calls; every collection of streams is passed as list / tuple / generator / iter / map (list / tuple where the '
        'helper indexes it), chemical collections as tuple / list / bare string; in 20–25 % of the mix_and_split / '
        'mix_and_split_with_moisture_content calls the bottom outlet was created under an equivalent property package with the '
        'chemicals in another order; in 20 % of the mix_and_split calls both outlets are MultiStreams (g, l) still holding '
        'material in both phases while the feed is liquid only (or has one gas-carrying MultiStream inlet); 10 % of the cases are holder histories: ONE MultiStream passed as multi_stream= to 2–5 successive lle '
        '(or vle) calls with different feeds / efficiencies / top chemicals, and single calls get a pre-filled holder in '
        '~25 % of the lle/vle ops; split vectors j/64; K = 2^e·(1+j/8) within 1e-3…1e3 (all-below-1, all-above-1, exactly-1 and mixed '
        'sets; 12 % of the partition calls with chemicals to force put every K on one side of 1 and force material only into '
        'the opposite phase), forced top/bottom chemicals disjoint from the equilibrium set; moisture j/64 in (0,0.95); '
        'efficiencies j/16; diagonally dominant dyadic inlet matrices for the balance solver; a 12 % share of '
        'out-of-domain K (negative) exercises the clipping / InfeasibleRegion branches.  Non-trivial = a call that '
        'returned with material in both outlets (or a reported infeasibility); distinct = distinct op lists')
ASSUMPTIONS = [
    'Rachford–Rice phase fraction (value returned by compute_phase_fraction) is a parameter: theorems hold for every value; '
    'the 2-component closed form and the dispatch of binary_phase_fraction.phase_fraction are modelled and compared; of '
    'solve_phase_fraction_Rashford_Rice the single-phase early exits and the end-point sign tests are modelled (sv=), the '
    'iterated root is a parameter monitored to bracket a sign change of the exact objective within 2e-6 (root=, K > 0 only); '
    'oracle: both phases non-empty => every equilibrium chemical in both and returned phi = top share within 1e-5',
    'adjust_moisture_content with MultiStream outlets: the model works on per-chemical totals of the retentate and on the LIQUID '
    'moisture of the permeate (what the code debits and tests); moisture the permeate holds in another phase is passive; '
    'non-negativity is checked phase by phase on the real streams',
    'exceptions: ZeroDivisionError / FloatingPointError / ReferenceError are tolerated only from the lle / vle wrappers (external '
    'solvers; ReferenceError is retried once) and only up to 25 % of a worker\'s lle/vle calls; any exception from any other helper '
    'on an in-domain input is an oracle failure',
    'the composition-balance correspondence is not compared once an iteration was shifted (exact and float loops differ: tag '
    'shift-history); an exactly singular inlet matrix is not compared either (LAPACK may not notice); oracle applies to invertible ones',
    'rows left by MultiStream.lle / .vle are parameters; monitored hypotheses: the rows the equilibrium routine is entered '
    'with are exactly the feed in `l` and nothing elsewhere whatever the multi_stream holder held (load=), and the rows it '
    'leaves sum to the feed (hyp=, C03)',
    'liquid densities compared by the lle wrapper are parameters',
    'model arithmetic is exact (Rat); float results are compared with rtol 1e-9 / atol 1e-11, mix_and_split and '
    'phase_split exactly; cases where an un-clipped equilibrium flow is within 1e-9 (relative) of a clip bound are '
    'flagged `borderline` by the driver and not compared',
    'model of partition / adjust_moisture_content is the repaired behaviour of fixes_proposed/C20-1.md / C20-2.md',
    'np.linalg.solve is not modelled: the model solves exactly and certifies its own solution (A x = b checked)',
]
TRUSTED = ['Lean 4.33 kernel', 'harness/props/c20.py + Driver/C20.lean', 'generator reach (see histogram)']

CHEMS = ['Water', 'Ethanol', 'Methanol', 'Glycerol', 'Octane', 'Propanol']
MW_WATER_LITERAL = 18.01528
tmo = sep = np = None
THERMO = {}
THERMO_PERM = {}      # n -> package with the same chemicals, rotated order
MWS = {}
REC = {}            # what the wrappers recorded during the current call
RTOL, ATOL = 1e-9, 1e-11


# --------------------------------------------------------------------------
# setup: property packages and recording wrappers
# --------------------------------------------------------------------------

def setup():
    global tmo, sep, np
    import numpy as np_
    import thermosteam as tmo_
    from thermosteam import separations as sep_
    from thermosteam.equilibrium import binary_phase_fraction as bpf
    from thermosteam.equilibrium import LLE, VLE
    tmo, sep, np = tmo_, sep_, np_
    warnings.simplefilter('ignore')
    for n in range(1, 7):
        chems = tmo.Chemicals(CHEMS[:n], cache=True)
        THERMO[n] = tmo.Thermo(chems, cache=False)
        MWS[n] = [float(c.MW) for c in chems]
        if n >= 2:
            # an equivalent property package: the same chemicals in another ORDER (rotated by one)
            THERMO_PERM[n] = tmo.Thermo(tmo.Chemicals(CHEMS[1:n] + CHEMS[:1], cache=True), cache=False)
    tmo.settings.set_thermo(THERMO[6])

    if not getattr(sep.compute_phase_fraction, '_verif', False):
        orig_pf = sep.compute_phase_fraction
        def compute_phase_fraction(zs, Ks, guess=None, za=0., zb=0.):
            REC['pf_args'] = (np.array(zs, float), np.array(Ks, float), float(za), float(zb))
            REC.pop('solver', None)
            r = orig_pf(zs, Ks, guess, za, zb)
            REC['pf'] = float(r)
            return r
        compute_phase_fraction._verif = True
        sep.compute_phase_fraction = compute_phase_fraction
        orig_rr = bpf.solve_phase_fraction_Rashford_Rice
        def solve_phase_fraction_Rashford_Rice(zs, Ks, guess, za=0, zb=0):
            r = orig_rr(zs, Ks, guess, za, zb)
            REC['solver'] = float(r)
            return r
        bpf.solve_phase_fraction_Rashford_Rice = solve_phase_fraction_Rashford_Rice
        for cls, key in ((LLE, 'lle'), (VLE, 'vle')):
            orig = cls.__call__
            def mk(orig, key):
                def __call__(self, *a, **k):
                    im = self._imol
                    # rows the equilibrium routine is entered with (= what the wrapper loaded into its holder)
                    REC[key + '_in'] = {ph: [float(x) for x in im[ph].to_array()] for ph in im.phases}
                    r = orig(self, *a, **k)
                    REC[key] = im
                    return r
                return __call__
            cls.__call__ = mk(orig, key)


def budget(tier):
    return {'quick': dict(seconds=70, cases=2400, shrink_s=20, search_s=5),
            'thorough': dict(seconds=480, cases=60000, shrink_s=40, search_s=20)}[tier]


# --------------------------------------------------------------------------
# helpers
# --------------------------------------------------------------------------

def V(xs):
    xs = list(xs)
    return ','.join(frac(float(x)) for x in xs) if xs else '-'


def VS(vs):
    vs = list(vs)
    return ';'.join(V(v) for v in vs) if vs else '-'


def NL(xs):
    xs = list(xs)
    return ','.join(str(int(i)) for i in xs) if xs else '-'


def mk(n, flows, phase='l', T=298.15, P=101325.):
    s = tmo.Stream(None, thermo=THERMO[n], T=T, P=P, phase=phase)
    if flows is not None:
        s.mol[:] = np.array(list(flows)[:n] + [0.] * (n - len(flows)), float)
    return s


def arr(s):
    """flows in the order of CHEMS, whatever property package (chemical order) the stream was created under"""
    n = len(s.chemicals)
    if tuple(c.ID for c in s.chemicals) == tuple(CHEMS[:n]):
        return [float(x) for x in s.mol.to_array()]
    return [float(s.imol[CHEMS[i]]) for i in range(n)]


def mk_perm(n, flows):
    """a stream created under the equivalent package with permuted chemical order; `flows` are in the order of CHEMS"""
    s = tmo.Stream(None, thermo=THERMO_PERM[n], T=298.15, P=101325., phase='l')
    for i, x in enumerate(list(flows or [])[:n]):
        if x: s.imol[CHEMS[i]] = float(x)
    return s


STREAM_REPS = ['list', 'tuple', 'gen', 'iter', 'map']      # Iterable[Stream]: sequences and one-shot iterables
SEQ_REPS = ['list', 'tuple']                                # where the helper indexes / measures the collection


def as_rep(items, rep):
    """the same streams / identifiers in the container kind `rep`"""
    items = list(items)
    if rep in (None, 'list'): return items
    if rep == 'tuple': return tuple(items)
    if rep == 'gen': return (x for x in items)
    if rep == 'iter': return iter(items)
    if rep == 'map': return map(lambda x: x, items)
    raise ValueError(rep)


def names(n, idx):
    return tuple(CHEMS[i] for i in idx)


def near(a, b, scale=1.0):
    return abs(a - b) <= ATOL + RTOL * max(abs(a), abs(b), scale)


def vec_near(a, b, scale=1.0):
    return len(a) == len(b) and all(near(x, y, scale) for x, y in zip(a, b))


class Out:
    """accumulates what one case produced"""
    def __init__(self):
        self.model_in, self.outs, self.failures, self.tags = [], [], [], []
        self.nontrivial = False
        self.holders = {}      # (kind, n) -> the MultiStream passed as multi_stream= by every `holder` op of the case

    def emit(self, line, ans):
        self.model_in.append(line); self.outs.append(ans)

    def fail(self, sig, what):
        self.failures.append({'signature': sig, 'op_index': len(self.model_in) - 1, 'what': what})


def check_balance(o, op, inlets_total, outlets, what=''):
    tot = [sum(x) for x in zip(*outlets)]
    scale = max([abs(x) for x in inlets_total] + [1.0])
    bad = [(i, a, b) for i, (a, b) in enumerate(zip(inlets_total, tot)) if not near(a, b, scale * 1e-3)]
    if bad:
        i, a, b = bad[0]
        o.fail(f'{op}:balance', f'{op}{what}: chemical {CHEMS[i]}: inlets sum to {a!r} but outlets sum to {b!r}')


def check_nonneg(o, op, outlets, what=''):
    for j, v in enumerate(outlets):
        for i, x in enumerate(v):
            if x < -1e-12 or x != x:
                o.fail(f'{op}:negative-flow', f'{op}{what}: outlet {j} has flow {x!r} of {CHEMS[i]} and no infeasibility was reported')
                return


def check_stale(o, op, got, fresh, what=''):
    for j, (a, b) in enumerate(zip(got, fresh)):
        scale = max([abs(x) for x in b] + [1.0])
        if not all(abs(x - y) <= 1e-7 * scale for x, y in zip(a, b)):
            o.fail(f'{op}:stale-outlet', f'{op}{what}: outlet {j} is {a} when it held material before the call, but {b} when it was empty')
            return


# --------------------------------------------------------------------------
# one op on the real code
# --------------------------------------------------------------------------

def op_ms(d, o):
    n = d['n']
    def call(top0, bot0):
        ins = [mk(n, f) for f in d['ins']]
        top, bottom = mk(n, top0), mk(n, bot0)
        if d.get('perm_bot') and n >= 2: bottom = mk_perm(n, bot0)      # outlet under an equivalent package, other order
        if d.get('ms_out'):
            # both outlets are MultiStreams (phases g, l) that still hold material in BOTH phases from an earlier call;
            # the inlets of this call may be liquid only: every phase row of the outlets must be rewritten
            def ms_out(rows):
                m = tmo.MultiStream(None, phases='gl', thermo=THERMO[n])
                if rows:
                    m.imol['l'] = np.array(list(rows)[:n] + [0.] * (n - len(rows)), float)
                    m.imol['g'] = np.array(list(reversed(list(rows)[:n])) + [0.] * (n - len(rows)), float)
                return m
            top, bottom = ms_out(top0), ms_out(bot0)
            if d.get('gas_in'):      # one inlet is a MultiStream carrying a gas row next to its liquid row
                g = d['gas_in']
                m = tmo.MultiStream(None, phases='gl', thermo=THERMO[n])
                m.imol['l'] = np.array([x - y for x, y in zip(d['ins'][0], g)], float); m.imol['g'] = np.array(g, float)
                ins[0] = m
        # aliasing: an outlet object is also one of the inlets (mix_and_split is alias-safe: the mixed flow is
        # computed before any outlet is written)
        if d.get('alias_top') is not None: top = ins[d['alias_top'] % len(ins)]
        if d.get('alias_bot') is not None: bottom = ins[d['alias_bot'] % len(ins)]
        if top is bottom: bottom = mk(n, bot0)
        sp = d['split']
        split = float(sp[0]) if d.get('scalar') else np.array(sp, float)
        sep.mix_and_split(as_rep(ins, d.get('rep')), top, bottom, split)
        return arr(top), arr(bottom)
    t, b = call(d.get('top0'), d.get('bot0'))
    o.emit(f'ms n={n} ins={VS(d["ins"])} split={V(d["split"])}', f'ms top={V(t)} bot={V(b)}')
    total = [sum(x) for x in zip(*d['ins'])]
    check_balance(o, 'mix_and_split', total, [t, b])
    check_nonneg(o, 'mix_and_split', [t, b])
    for i, (x, s) in enumerate(zip(t, d['split'])):
        if not near(x, total[i] * s):
            o.fail('mix_and_split:split', f'top flow of {CHEMS[i]} is {x!r}, split·mixed = {total[i] * s!r}')
            break
    if d.get('top0') or d.get('bot0'):
        check_stale(o, 'mix_and_split', [t, b], call(None, None))
    if any(t) and any(b): o.nontrivial = True
    o.tags.append('ms' + (':aliased' if d.get('alias_top') is not None or d.get('alias_bot') is not None else ''))
    o.tags.append('rep:ins:' + (d.get('rep') or 'list'))
    if d.get('perm_bot') and n >= 2: o.tags.append('ms:outlet-other-package-order')
    if d.get('ms_out'): o.tags.append('ms:multistream-outlets' + (':gas-inlet' if d.get('gas_in') else ':liquid-only-feed'))


def op_am(d, o):
    n, k, mode, mc, strict = d['n'], d['k'], d['mode'], d['mc'], d['strict']
    MW = MWS[n]
    R0, P0 = list(d['R']), list(d['P'])
    r, p = mk(n, R0), mk(n, P0)
    if d.get('multi'):
        # both outlets are MultiStreams (the `('l', ID)` keys of the code): the moisture chemical in the liquid,
        # every other chemical alternately in the solid / liquid row
        def mkms(fl, k_solid=0.0):
            ms = tmo.MultiStream(None, phases='ls', thermo=THERMO[n])
            ms.imol['l'] = np.array([x if (i == k or i % 2 == 0) else 0.0 for i, x in enumerate(fl)], float)
            ms.imol['s'] = np.array([0.0 if (i == k or i % 2 == 0) else x for i, x in enumerate(fl)], float)
            if k_solid:          # part of the moisture chemical is held outside the liquid phase (fixes_proposed/C20-9.md)
                ms.imol['l', CHEMS[k]] = fl[k] - k_solid
                ms.imol['s', CHEMS[k]] = k_solid
            return ms
        r, p = mkms(R0, d.get('k_solid') or 0.0), mkms(P0, d.get('kp_other') or 0.0)
        solid0 = ([float(x) for x in r.imol['s'].to_array()], [float(x) for x in p.imol['s'].to_array()])
    ID = None if mode == 'mol' else CHEMS[k]
    # Only the permeate's LIQUID moisture can be moved (the code debits the `('l', ID)` entry and tests that entry): what
    # the permeate holds of the moisture chemical in another phase is a passive amount, left out of the model's P
    # and added back for the balance; the retentate enters with its all-phase total (as in the code).
    p_other = float(d.get('kp_other') or 0.0) if d.get('multi') else 0.0
    P0m = [x - (p_other if i == k else 0.0) for i, x in enumerate(P0)]
    line = (f'am n={n} R={V(R0)} P={V(P0m)} MW={V(MW)} k={k} mode={mode} mwc={frac(MW_WATER_LITERAL)} mc={frac(mc)} '
            f'strict={"none" if strict is None else int(strict)}')
    # the property's own notion of "sufficient water"
    dry = sum(MW[i] * R0[i] for i in range(n) if i != k)
    required = dry * mc / (1 - mc)
    avail = MW[k] * (R0[k] + P0m[k])
    margin = 1e-9 * max(required, avail, 1.0)
    try:
        sep.adjust_moisture_content(r, p, mc, ID, strict)
    except tmo.exceptions.InfeasibleRegion:
        o.emit(line, 'am err=infeasible')
        if avail > required + margin:
            o.fail('adjust_moisture:spurious-infeasible', f'InfeasibleRegion raised although {avail!r} kg of {CHEMS[k]} is available and {required!r} is required')
        o.nontrivial = True
        o.tags.append('am:infeasible')
        return
    R1, P1 = arr(r), arr(p)
    o.emit(line, f'am R={V(R1)} P={V([x - (p_other if i == k else 0.0) for i, x in enumerate(P1)])}')
    if d.get('multi'):
        o.tags.append('am:multistream')
        if p_other: o.tags.append('am:permeate-moisture-outside-liquid')
        # "no negative flows unless it reports infeasibility" holds phase by phase, not only for the all-phase totals
        for nm, ms_ in (('retentate', r), ('permeate', p)):
            for ph in ms_.phases:
                row = [float(x) for x in ms_.imol[ph].to_array()]
                bad = [i for i, x in enumerate(row) if x < -1e-9 or x != x]
                if bad:
                    o.fail('adjust_moisture:negative-flow', f'{nm} phase {ph!r} holds {row[bad[0]]!r} of {CHEMS[bad[0]]} and no infeasibility was reported (strict={strict})')
                    break
        if ([float(x) for x in r.imol['s'].to_array()], [float(x) for x in p.imol['s'].to_array()]) != solid0:
            o.fail('adjust_moisture:solid-row-changed', 'the solid rows of the MultiStream outlets were modified')
    # a distinct signature for the class of C20-9 (moisture chemical partly outside the liquid phase of the retentate)
    opn = 'adjust_moisture:moisture-outside-liquid' if d.get('k_solid') else 'adjust_moisture'
    if d.get('k_solid'): o.tags.append('am:moisture-outside-liquid')
    check_balance(o, opn, [a + b for a, b in zip(R0, P0)], [R1, P1], f'(strict={strict})')
    check_nonneg(o, 'adjust_moisture', [R1, P1], f'(strict={strict})')
    if avail < required - margin and strict in (None, True):
        o.fail('adjust_moisture:infeasibility-not-reported', f'only {avail!r} kg of {CHEMS[k]} available, {required!r} required, strict={strict}, but no InfeasibleRegion')
    if avail > required + margin and dry > 0:
        mass = [MW[i] * R1[i] for i in range(n)]
        got = mass[k] / sum(mass)
        if not near(got, mc):
            o.fail(opn + ':moisture-not-reached', f'retentate moisture fraction is {got!r}, requested {mc!r}')
        o.nontrivial = True
    o.tags.append('am:' + mode + (':clip' if avail < required - margin else ''))


def op_msm(d, o):
    n, k, mode, mc, strict = d['n'], d['k'], d['mode'], d['mc'], d['strict']
    MW = MWS[n]
    ID = None if mode == 'mol' else CHEMS[k]
    def call(r0, p0):
        ins = [mk(n, f) for f in d['ins']]
        r, p = mk(n, r0), mk(n, p0)
        if d.get('perm_bot') and n >= 2: p = mk_perm(n, p0)
        try:
            if d.get('kwargs'):      # the public keywords of the wrapper
                sep.mix_and_split_with_moisture_content(as_rep(ins, d.get('rep')), r, p, np.array(d['split'], float),
                                                        moisture_content=mc, ID=ID, strict=strict)
            else:
                sep.mix_and_split_with_moisture_content(as_rep(ins, d.get('rep')), r, p, np.array(d['split'], float), mc, ID, strict)
        except tmo.exceptions.InfeasibleRegion:
            return None
        return arr(r), arr(p)
    def two_steps():
        """what the wrapper is documented to be: mix_and_split, then adjust_moisture_content with the same ID / strict"""
        ins = [mk(n, f) for f in d['ins']]
        r, p = mk(n, None), mk(n, None)
        sep.mix_and_split(ins, r, p, np.array(d['split'], float))
        try:
            sep.adjust_moisture_content(r, p, mc, ID=ID, strict=strict)
        except tmo.exceptions.InfeasibleRegion:
            return None
        return arr(r), arr(p)
    res = call(d.get('top0'), d.get('bot0'))
    ref = two_steps()
    if (res is None) != (ref is None) or (res is not None and not (vec_near(res[0], ref[0]) and vec_near(res[1], ref[1]))):
        o.fail('mix_split_moisture:differs-from-two-steps',
               f'mix_and_split_with_moisture_content(ID={ID!r}, strict={strict}) gives {res}; mix_and_split followed by '
               f'adjust_moisture_content(ID={ID!r}, strict={strict}) gives {ref}')
    if k != 0: o.tags.append('msm:non-water-ID')
    if d.get('perm_bot') and n >= 2: o.tags.append('msm:outlet-other-package-order')
    line = (f'msm n={n} ins={VS(d["ins"])} split={V(d["split"])} MW={V(MW)} k={k} mode={mode} mwc={frac(MW_WATER_LITERAL)} '
            f'mc={frac(mc)} strict={"none" if strict is None else int(strict)}')
    total = [sum(x) for x in zip(*d['ins'])]
    R0 = [t * s_ for t, s_ in zip(total, d['split'])]
    dry = sum(MW[i] * R0[i] for i in range(n) if i != k)
    required = dry * mc / (1 - mc)
    avail = MW[k] * total[k]
    margin = 1e-9 * max(required, avail, 1.0)
    if res is None:
        o.emit(line, 'msm err=infeasible')
        if avail > required + margin:
            o.fail('mix_split_moisture:spurious-infeasible', f'InfeasibleRegion raised although {avail!r} kg available, {required!r} required')
        o.tags.append('msm:infeasible'); o.nontrivial = True
        return
    R1, P1 = res
    o.emit(line, f'msm R={V(R1)} P={V(P1)}')
    check_balance(o, 'mix_split_moisture', total, [R1, P1], f'(strict={strict})')
    check_nonneg(o, 'mix_split_moisture', [R1, P1], f'(strict={strict})')
    if avail < required - margin and strict in (None, True):
        o.fail('mix_split_moisture:infeasibility-not-reported', f'only {avail!r} kg available, {required!r} required, strict={strict}')
    if avail > required + margin and dry > 0:
        mass = [MW[i] * R1[i] for i in range(n)]
        got = mass[k] / sum(mass)
        if not near(got, mc):
            o.fail('mix_split_moisture:moisture-not-reached', f'retentate moisture fraction is {got!r}, requested {mc!r}')
        o.nontrivial = True
    if d.get('top0') or d.get('bot0'):
        res2 = call(None, None)
        if res2 is not None: check_stale(o, 'mix_split_moisture', [R1, P1], list(res2))
    o.tags.append('msm')
    o.tags.append('rep:ins:' + (d.get('rep') or 'list'))


def emit_bpf(o, feed0=None, ids=None, K=None, topc=(), botc=()):
    """the dispatch of binary_phase_fraction.phase_fraction.  The fractions handed to the model are recomputed here from
    the feed (z = mol/F, za = Fa/F, zb = Fb/F with F = sum(IDs) + Fa + Fb), NOT taken from what the code passed on."""
    if 'pf_args' not in REC or 'pf' not in REC: return
    zs, ks, za, zb = REC['pf_args']
    if feed0 is not None:
        Fa = float(sum(feed0[i] for i in topc)); Fb = float(sum(feed0[i] for i in botc))
        F = float(sum(feed0[i] for i in ids)) + (Fa + Fb)
        zs2, za2, zb2 = [feed0[i] / F for i in ids], Fa / F, Fb / F
        # (no failure is raised when the code passed other numbers on: the root is invariant under a common scaling of
        #  z, za, zb, so e.g. normalising by another total is a harmless refactor; what matters is that the returned
        #  phi is a root for THESE fractions - the driver's root= monitor - and the oracle on the outlets)
        zs, ks, za, zb = zs2, list(K), za2, zb2
    called = 'solver' in REC
    o.emit(f'bpf zs={V(zs)} ks={V(ks)} za={frac(za)} zb={frac(zb)} solver={frac(REC.get("solver", 0.0))} '
           f'x0={frac(1e-16 if za else 0.)} x1={frac((1 - 1e-16) if zb else 1.)}',
           f'bpf phi={frac(REC["pf"])} sv={frac(REC["solver"]) if called else "-"} root=1')


def k_spread(ids, K, t, b):
    rs = [t[i] / (k * b[i]) for i, k in zip(ids, K) if t[i] != 0 and b[i] != 0 and k != 0]
    if len(rs) < 2: return 0.0
    return max(abs(x / rs[0] - 1) for x in rs)


def op_pt(d, o):
    n, ids, K, topc, botc, strict = d['n'], d['ids'], d['K'], d['topc'], d['botc'], bool(d['strict'])
    feed0 = list(d['feed'])
    alias = None if d.get('only_fraction') else d.get('alias')
    kw0 = {}
    if topc: kw0['top_chemicals'] = as_rep(names(n, topc), d.get('rep_f'))
    if botc: kw0['bottom_chemicals'] = as_rep(names(n, botc), d.get('rep_f'))
    if d.get('bare'):
        # the docstring form: a single forced chemical given as a bare string (phase_fraction accepts that for
        # bottom_chemicals only: fixes_proposed/C20-7.md)
        if len(botc) == 1: kw0['bottom_chemicals'] = CHEMS[botc[0]]
        if len(topc) == 1 and not d.get('only_fraction'): kw0['top_chemicals'] = CHEMS[topc[0]]
    def call(top0, bot0, only_fraction=False, no_guess=False):
        REC.clear()
        feed, top, bottom = mk(n, feed0), mk(n, top0), mk(n, bot0)
        # the optional `phi` argument is only a starting guess of the root finder
        kw = dict(kw0)
        if d.get('guess') is not None and not no_guess: kw['phi'] = float(d['guess'])
        if alias == 'top': top = feed
        elif alias == 'bottom': bottom = feed
        with warnings.catch_warnings(record=True) as wl:
            warnings.simplefilter('always')
            try:
                if only_fraction:
                    phi = sep.phase_fraction(feed, as_rep(names(n, ids), d.get('rep_ids')), np.array(K, float), strict=strict, **kw)
                else:
                    phi = sep.partition(feed, top, bottom, as_rep(names(n, ids), d.get('rep_ids')), np.array(K, float), strict=strict, **kw)
            except tmo.exceptions.InfeasibleRegion:
                return 'infeasible', None, None, None, feed0
            except FloatingPointError:
                if d.get('empty'): return 'zerodiv', None, None, None, feed0
                raise
        clip = any('negative flow' in str(w.message) for w in wl)
        if not only_fraction and sum(top.mol[i] for i in ids) > 0 and sum(bottom.mol[i] for i in ids) > 0:
            # achieved coefficients as the library itself computes them from the two outlets
            REC['Kach'] = [float(x) for x in sep.partition_coefficients(names(n, ids), top, bottom)]
        return float(phi), arr(top), arr(bottom), clip, (feed0 if alias else arr(feed))
    if d.get('only_fraction'):
        phi, _, _, clip, _ = call(None, None, True)
        if 'pf' not in REC and phi not in ('zerodiv', 'infeasible'):
            # the phase-fraction routine was not entered: still compare with partition on the same input
            phi_p, _, _, _, _ = call(None, None, False)
            if phi_p in ('zerodiv', 'infeasible') or abs(phi - phi_p) > 1e-9:
                o.fail('phase_fraction:differs-from-partition', f'phase_fraction returned {phi!r} but partition returned {phi_p!r} (K={K}, ids={ids}, topc={topc}, botc={botc})')
            o.fail('phase_fraction:hook-not-reached', f'phase_fraction returned {phi!r} without calling the phase-fraction routine (K={K}, ids={ids})')
            o.tags.append('pf:hook-not-reached')
            return
        if 'pf' not in REC and phi != 'zerodiv': return
        if phi != 'zerodiv': emit_bpf(o, feed0, ids, K, topc, botc)
        line = (f'pf n={n} feed={V(feed0)} ids={NL(ids)} K={V(K)} topc={NL(topc)} botc={NL(botc)} '
                f'phi={frac(REC.get("pf", 0.0))} strict={int(strict)}')
        if phi == 'zerodiv':
            o.emit(line, 'pf err=zerodiv'); o.tags.append('pf:empty-feed')
            return
        o.emit(line, 'pf err=infeasible' if phi == 'infeasible' else f'pf phi={frac(phi)}')
        # oracle: separations.phase_fraction answers what partition returns on the same input
        pf_val = phi
        phi_p, t_p, b_p, _, _ = call(None, None, False)
        if (pf_val == 'infeasible') != (phi_p == 'infeasible'):
            o.fail('phase_fraction:differs-from-partition', f'phase_fraction gave {pf_val!r}, partition {phi_p!r} (K={K}, ids={ids}, topc={topc}, botc={botc})')
        elif pf_val != 'infeasible' and abs(pf_val - phi_p) > 1e-9:
            o.fail('phase_fraction:differs-from-partition', f'phase_fraction returned {pf_val!r} but partition returned {phi_p!r} on the same input (K={K}, ids={ids}, topc={topc}, botc={botc})')
        if d.get('guess') is not None and pf_val != 'infeasible' and all(1e-3 <= k <= 1e3 for k in K) \
                and not all(abs(k - 1) <= 1e-9 for i, k in zip(ids, K) if feed0[i] > 0):
            o.tags.append('pf:with-guess')
            phi3, _, _, _, _ = call(None, None, True, True)
            if phi3 in ('zerodiv', 'infeasible') or abs(phi3 - pf_val) > 1e-6:
                o.fail('phase_fraction:depends-on-guess', f'with phi={d["guess"]} as starting guess phase_fraction returns {pf_val!r}, without a guess {phi3!r} (K={K}, ids={ids})')
        if pf_val != 'infeasible' and not (0.0 <= pf_val <= 1.0):
            o.fail('phase_fraction:range', f'phase_fraction returned {pf_val!r}')
        o.tags.append('pf')
        return
    phi, t, b, clip, f_after = call(d.get('top0'), d.get('bot0'))
    hook_missing = 'pf' not in REC and phi not in ('zerodiv', 'infeasible')
    if hook_missing:
        # the phase-fraction routine was not entered (a fast path? a trusted caller's guess?): no model line can be formed,
        # the missing hook is reported, and the call is judged on the real outlets by every oracle below
        o.fail('partition:hook-not-reached', f'partition returned phi={phi!r} without calling the phase-fraction routine '
               f'(K={K}, ids={ids}, top_chemicals={topc}, bottom_chemicals={botc})')
        o.tags.append('pt:hook-not-reached')
    emit = (lambda *a_: None) if hook_missing else o.emit
    if 'pf' not in REC and phi == 'infeasible': return
    if phi == 'zerodiv' or hook_missing: pass
    elif alias == 'bottom': emit_bpf(o)          # the feed was destroyed before the fractions were formed (C20-6)
    else: emit_bpf(o, feed0, ids, K, topc, botc)
    line = (f'pt n={n} feed={V(feed0)} bot0={V(d.get("bot0") or [])} ids={NL(ids)} K={V(K)} topc={NL(topc)} '
            f'botc={NL(botc)} phi={frac(REC.get("pf", 0.0))} strict={int(strict)}' + (f' alias={alias}' if alias else ''))
    if phi == 'zerodiv':
        # nothing to partition (F_mol = 0): numpy's 0/0 under thermosteam's error state -> FloatingPointError
        emit(line, 'pt err=zerodiv'); o.tags.append('pt:empty-feed')
        return
    if alias and not (alias == 'top' and not any(feed0[i] for i in botc)):
        # Outside what the code supports (fixes_proposed/C20-6.md): `bottom is feed` loses the feed, `top is feed` with
        # forced-bottom chemicals gives them a negative top flow.  The behaviour is mirrored by the model; the property
        # (stated for a feed distinct from the outlets) is not asserted here.
        emit(line, 'pt err=infeasible' if phi == 'infeasible' else
               f'pt phi={frac(phi)} top={V(t)} bot={V(b)} clip={int(clip)} kok={int(k_spread(ids, K, t, b) <= 1e-7)}')
        o.tags.append(f'pt:alias-{alias}:unsupported')
        return
    if phi == 'zerodiv':
        # nothing to partition (F_mol = 0): numpy's 0/0 under thermosteam's error state -> FloatingPointError
        emit(line, 'pt err=zerodiv'); o.tags.append('pt:empty-feed')
        return
    if phi == 'infeasible':
        emit(line, 'pt err=infeasible')
        if all(1e-3 <= k <= 1e3 for k in K) and all(x >= 0 for x in feed0):
            # K > 0 and a non-negative feed: the equilibrium split lies in [0, feed]; nothing is infeasible
            o.fail('partition:spurious-infeasible', f'InfeasibleRegion for a non-negative feed and positive K (K={K}, ids={ids}, feed={feed0})')
        o.tags.append('pt:infeasible'); o.nontrivial = True
        return
    in_domain = all(1e-3 <= k <= 1e3 for k in K)
    spread = k_spread(ids, K, t, b)
    kok = int(spread <= 1e-7)
    emit(line, f'pt phi={frac(phi)} top={V(t)} bot={V(b)} clip={int(clip)} kok={kok}')
    what = f'(K={K}, ids={ids}, top_chemicals={topc}, bottom_chemicals={botc}, phi={phi})'
    if f_after != feed0:
        o.fail('partition:feed-changed', f'partition changed its feed {what}')
    check_balance(o, 'partition', feed0, [t, b], what)
    check_nonneg(o, 'partition', [t, b], what)
    kach = REC.get('Kach')
    if in_domain and not clip and 0 < phi < 1 and kach is not None:
        rs = [ka / k for ka, k, i in zip(kach, K, ids) if t[i] > 0 and b[i] > 0]
        if len(rs) >= 2 and max(abs(x / rs[0] - 1) for x in rs) > 1e-7:
            o.fail('partition:K-not-reproduced', f'partition_coefficients(IDs, top, bottom) = {kach} is not a common multiple of the given K {what}')
    # (K <= 0: several roots, the guess may pick another; every present K = 1: the objective vanishes identically, every
    #  phi is a root and reproduces K)
    degenerate = all(abs(k - 1) <= 1e-9 for i, k in zip(ids, K) if feed0[i] > 0)
    if d.get('guess') is not None and not alias and in_domain and not degenerate:
        o.tags.append('pt:with-guess')
        phi3, t3, b3, _, _ = call(d.get('top0'), d.get('bot0'), False, True)
        scale = max(feed0 + [1.0])
        if phi3 in ('zerodiv', 'infeasible') or abs(phi3 - phi) > 1e-6 or \
                any(abs(x - y) > 1e-5 * scale for x, y in zip(t + b, t3 + b3)):
            o.fail('partition:depends-on-guess', f'with phi={d["guess"]} as starting guess partition returns {phi!r}, top={t}; without a guess {phi3!r}, top={t3} {what}')
    if (d.get('top0') or d.get('bot0')) and not alias:
        phi2, t2, b2, _, _ = call(None, None)
        if phi2 != 'infeasible': check_stale(o, 'partition', [t, b], [t2, b2], what)
    if in_domain and not clip and 0 < phi < 1 and spread > 1e-7:
        o.fail('partition:K-not-reproduced', f'top_i/(K_i·bottom_i) differs by {spread:.3g} between equilibrium chemicals {what}')
    # "reproduces the given partition coefficients between the two outlets when both are non-empty": the two phases of
    # the problem partition solves are (equilibrium + forced-top) and (equilibrium + forced-bottom) chemicals; chemicals
    # listed nowhere ride along in the top and take no part.  When both phases hold material every equilibrium chemical
    # of the feed (K finite and positive) must be present in both, and the returned "phase fraction in top phase" must be
    # the top's share of that material (Rachford–Rice consistency, the hypothesis of partition_K_exact).
    top_part = sum(t[i] for i in set(ids) | set(topc))
    bot_part = sum(b[i] for i in set(ids) | set(botc))
    one_sided = (all(k >= 1 for k in K) and any(feed0[i] for i in botc) and not any(feed0[i] for i in topc)) or \
                (all(k <= 1 for k in K) and any(feed0[i] for i in topc) and not any(feed0[i] for i in botc))
    if one_sided: o.tags.append('pt:class:one-sided-K-with-opposite-forced')
    if in_domain and not clip and top_part > 0 and bot_part > 0:
        o.tags.append('pt:class:both-phases-non-empty')
        missing = [i for i in ids if feed0[i] > 0 and not (t[i] > 0 and b[i] > 0)]
        if missing:
            o.fail('partition:K-not-reproduced',
                   f'both outlets hold material but {[CHEMS[i] for i in missing]} (K finite, > 0) are absent from one of them: '
                   f'achieved K is 0 or infinite; top={t} bottom={b} {what}')
        # y_i / x_i = K_i with the mole fractions taken over the whole phase (equilibrium + forced chemicals): the
        # "common factor" of the property text is exactly accounted for, nothing arbitrary is left
        for i, k in zip(ids, K):
            if feed0[i] > 0 and t[i] > 0 and b[i] > 0:
                kach_i = (t[i] / top_part) / (b[i] / bot_part)
                if 0 < phi < 1 and abs(kach_i / k - 1) > 2e-5 / max(min(phi, 1 - phi), 1e-6):
                    o.fail('partition:K-not-reproduced', f'{CHEMS[i]}: y/x over the two phases is {kach_i!r}, given K = {k!r} {what}')
                    break
        share = top_part / (top_part + bot_part)
        if abs(phi - share) > 1e-5:
            o.fail('partition:phi-inconsistent', f'returned phase fraction {phi!r} but the top phase holds {share!r} of the partitioned material {what}')
    # the returned value is documented as "phase fraction in top phase": 0 / 1 must mean an empty top / bottom
    # as far as the equilibrium chemicals are concerned
    if phi <= 0 and any(not near(t[i], 0.0) for i in ids):
        o.fail('partition:phi-inconsistent', f'returned phi = 0 but the top outlet holds equilibrium chemicals: {t} {what}')
    if phi >= 1 and any(not near(b[i], 0.0) for i in ids):
        o.fail('partition:phi-inconsistent', f'returned phi = 1 but the bottom outlet holds equilibrium chemicals: {b} {what}')
    for i in topc:
        if i not in ids and not near(b[i], 0.0):
            o.fail('partition:forced-top', f'{CHEMS[i]} was forced to the top but the bottom holds {b[i]!r} {what}'); break
    for i in botc:
        if i not in ids and not near(t[i], 0.0):
            o.fail('partition:forced-bottom', f'{CHEMS[i]} was forced to the bottom but the top holds {t[i]!r} {what}'); break
    if any(t) and any(b): o.nontrivial = True
    o.tags.append('pt:' + ('alias-top:' if alias else '') + ('phi0' if phi <= 0 else 'phi1' if phi >= 1 else 'two-phase') + (':clip' if clip else '')
                  + (':stale' if d.get('bot0') else ''))


def get_holder(o, kind, d):
    """the multi_stream= argument of this call and its rows before the call.
    `holder`: one MultiStream per (kind, n) reused by every such op of the case (what a unit does: it keeps one
    MultiStream and passes it at every simulation), optionally created already holding material (`holder0`);
    `use_ms`: a fresh one for this call only, also optionally pre-filled."""
    n = d['n']
    phases = 'lL' if kind == 'lle' else 'lg'
    other = 'L' if kind == 'lle' else 'g'
    def fresh():
        ms = tmo.MultiStream(None, phases=phases, thermo=THERMO[n])
        h0 = d.get('holder0')
        if h0:
            ms.imol[other] = np.array(h0[0], float); ms.imol['l'] = np.array(h0[1], float)
        return ms
    if d.get('holder'):
        key = (kind, n)
        if key not in o.holders: o.holders[key] = fresh()
        ms = o.holders[key]
    elif d.get('use_ms'):
        ms = fresh()
    else:
        return None, [], []
    if tuple(sorted(ms.phases)) != tuple(sorted(phases)):      # an earlier call re-phased it: start over
        ms = fresh()
        if d.get('holder'): o.holders[(kind, n)] = ms
    return ms, [float(x) for x in ms.imol[other].to_array()], [float(x) for x in ms.imol['l'].to_array()]


def liquid_rho(n, row, phase, T, P):
    s = tmo.Stream(None, thermo=THERMO[n], T=T, P=P, phase=phase)
    s.mol[:] = np.array(row, float)
    return s.rho


def op_lle(d, o):
    n, eff, tc = d['n'], d['eff'], d.get('tc')
    feed0 = list(d['feed'])
    def call(top0, bot0, ms):
        REC.clear()
        feed, top, bottom = mk(n, feed0), mk(n, top0), mk(n, bot0)
        kw = {}
        if tc is not None: kw['top_chemical'] = CHEMS[tc]
        sep.lle(feed, top, bottom, efficiency=eff, multi_stream=ms, **kw)
        return arr(top), arr(bottom), feed, ms
    ms, h0L, h0l = get_holder(o, 'lle', d)
    stale_holder = any(h0L) or any(h0l)
    t, b, feed, ms = call(d.get('top0'), d.get('bot0'), ms)
    im = REC.get('lle')
    if im is None:
        # the equilibrium routine was not entered (a fast path?): no model line can be formed, but the call is still
        # judged on the real streams, and the missing hook is itself reported
        w0 = f'(efficiency={eff}, top_chemical={tc}; LLE.__call__ was not reached)'
        check_balance(o, 'lle', feed0, [t, b], w0)
        check_nonneg(o, 'lle', [t, b], w0)
        if d.get('top0') or d.get('bot0'):
            t2, b2, _, _ = call(None, None, None)
            check_stale(o, 'lle', [t, b], [t2, b2], w0)
        o.fail('lle:hook-not-reached', f'lle returned without entering the equilibrium routine {w0}: nothing to compare with the model')
        o.tags.append('lle:hook-not-reached')
        return
    ld = REC.get('lle_in', {})
    rL = [float(x) for x in im['L'].to_array()]
    rl = [float(x) for x in im['l'].to_array()]
    rho_l = liquid_rho(n, rl, 'l', feed.T, feed.P)
    rho_L = liquid_rho(n, rL, 'L', feed.T, feed.P)
    fr = lambda x: 'none' if x is None else frac(float(x))
    o.emit(f'lle n={n} feed={V(feed0)} L={V(rL)} l={V(rl)} tc={0 if tc is None else 1} rhol={fr(rho_l)} rhoL={fr(rho_L)} '
           f'eff={frac(eff)} h0L={V(h0L)} h0l={V(h0l)} ldL={V(ld.get("L", []))} ldl={V(ld.get("l", []))}',
           f'lle top={V(t)} bot={V(b)} hyp=1 load=1')
    what = f'(efficiency={eff}, top_chemical={tc}, multi_stream={"reused" if d.get("holder") else "fresh" if ms is not None else None}' \
           f'{", holding material from a previous call" if stale_holder else ""})'
    check_balance(o, 'lle', feed0, [t, b], what)
    check_nonneg(o, 'lle', [t, b], what)
    if arr(feed) != feed0: o.fail('lle:feed-changed', 'lle changed its feed')
    if eff < 1:
        # "The rest of the feed is divided equally between phases": each outlet = efficiency·(its row) + (1−efficiency)/2·feed
        def fits(rt, rb):
            return all(near(t[i], eff * rt[i] + (1 - eff) / 2 * feed0[i], 1e-3) and
                       near(b[i], eff * rb[i] + (1 - eff) / 2 * feed0[i], 1e-3) for i in range(n))
        if not (fits(rL, rl) or fits(rl, rL)):
            o.fail('lle:efficiency-mixing', f'outlets are not efficiency·row + (1−efficiency)/2·feed for either assignment of the rows {what}')
    if (d.get('top0') or d.get('bot0')) and not d.get('holder') and not stale_holder:
        # same call with empty outlets.  Not done when the holder has a history: the equilibrium routine starts from
        # the K / phi it kept from the previous call and may stop at another point within its own resolution (C15's
        # subject); what C20 requires of a reused holder is the balance and non-negativity above and `load=1`.
        fresh = tmo.MultiStream(None, phases='lL', thermo=THERMO[n]) if ms is not None else None
        t2, b2, _, _ = call(None, None, fresh)
        check_stale(o, 'lle', [t, b], [t2, b2], what)
    if any(t) and any(b): o.nontrivial = True
    o.tags.append('lle' + (':eff' if eff < 1 else '') + (':tc' if tc is not None else '')
                  + (':holder-reused' if d.get('holder') else '') + (':holder-stale' if stale_holder else ''))


def op_vle(d, o):
    n = d['n']
    feed0 = list(d['feed'])
    def call(v0, l0, ms):
        REC.clear()
        feed, vap, liq = mk(n, feed0), mk(n, v0, phase=d.get('vphase0', 'l')), mk(n, l0)
        sep.vle(feed, vap, liq, multi_stream=ms, **d['spec'])
        return arr(vap), arr(liq), vap.phase, liq.phase, feed
    ms, h0g, h0l = get_holder(o, 'vle', d)
    stale_holder = any(h0g) or any(h0l)
    v, l, vp, lp, feed = call(d.get('top0'), d.get('bot0'), ms)
    im = REC.get('vle')
    if im is None:
        w0 = f'({d["spec"]}; VLE.__call__ was not reached)'
        check_balance(o, 'vle', feed0, [v, l], w0)
        check_nonneg(o, 'vle', [v, l], w0)
        if (vp, lp) != ('g', 'l'): o.fail('vle:phase', f'outlet phases are {(vp, lp)}, expected ("g", "l")')
        if d.get('top0') or d.get('bot0'):
            v2, l2, _, _, _ = call(None, None, None)
            check_stale(o, 'vle', [v, l], [v2, l2], w0)
        o.fail('vle:hook-not-reached', f'vle returned without entering the equilibrium routine {w0}: nothing to compare with the model')
        o.tags.append('vle:hook-not-reached')
        return
    ld = REC.get('vle_in', {})
    rg = [float(x) for x in im['g'].to_array()]
    rl = [float(x) for x in im['l'].to_array()]
    o.emit(f'vle n={n} feed={V(feed0)} g={V(rg)} l={V(rl)} h0g={V(h0g)} h0l={V(h0l)} ldg={V(ld.get("g", []))} ldl={V(ld.get("l", []))}',
           f'vle vap={V(v)} liq={V(l)} hyp=1 load=1')
    what = f'({d["spec"]}, multi_stream={"reused" if d.get("holder") else "fresh" if ms is not None else None}' \
           f'{", holding material from a previous call" if stale_holder else ""})'
    check_balance(o, 'vle', feed0, [v, l], what)
    check_nonneg(o, 'vle', [v, l], what)
    if (vp, lp) != ('g', 'l'):
        o.fail('vle:phase', f'outlet phases are {(vp, lp)}, expected ("g", "l")')
    if (d.get('top0') or d.get('bot0')) and not d.get('holder') and not stale_holder:
        fresh = tmo.MultiStream(None, phases='lg', thermo=THERMO[n]) if ms is not None else None
        v2, l2, _, _, _ = call(None, None, fresh)
        check_stale(o, 'vle', [v, l], [v2, l2], what)
    if any(v) and any(l): o.nontrivial = True
    o.tags.append('vle' + (':holder-reused' if d.get('holder') else '') + (':holder-stale' if stale_holder else ''))


def op_ps(d, o):
    n, phases, nout = d['n'], d['phases'], d['nout']
    feed = tmo.MultiStream(None, phases=phases, T=d.get('T', 320.0), thermo=THERMO[n])
    for ph, row in zip(phases, d['rows']):
        feed.imol[ph] = np.array(row, float)
    fph = list(feed.phases)
    rows = [[float(x) for x in feed.imol[ph].to_array()] for ph in fph]
    outs = [mk(n, (d.get('outs0') or [None] * nout)[j] if j < len(d.get('outs0') or []) else None,
               phase='lgs'[j % 3]) for j in range(nout)]
    line = f'ps n={n} phases={",".join(fph)} rows={VS(rows)} nout={nout}'
    try:
        sep.phase_split(feed, as_rep(outs, d.get('rep')))
    except RuntimeError:
        o.emit(line, 'ps err=runtime')
        if nout == len(fph): o.fail('phase_split:spurious-error', 'RuntimeError although the number of outlets equals the number of phases')
        o.tags.append('ps:error')
        return
    got = [(s.phase, arr(s)) for s in outs]
    o.emit(line, 'ps outs=' + ';'.join(f'{ph}:{V(v)}' for ph, v in got))
    total = [sum(x) for x in zip(*rows)]
    check_balance(o, 'phase_split', total, [v for _, v in got])
    for j, ((ph, v), fp, row) in enumerate(zip(got, fph, rows)):
        if ph != fp or v != row:
            o.fail('phase_split:rows', f'outlet {j} is phase {ph!r} with {v}, expected phase {fp!r} with {row}')
            break
    if sum(1 for r in rows if any(r)) >= 2: o.nontrivial = True
    o.tags.append('ps')


def op_cs(d, o):
    n = d['n']
    tmo.settings.set_thermo(THERMO[n])
    a = mk(n, d['a'])
    if d.get('mixed') is not None and d.get('b') is not None:
        # both given (a unit with more than two products): the mixed stream is the reference, `b` is one more product
        m, b = mk(n, d['mixed']), mk(n, d['b'])
        res = sep.chemical_splits(a, b, m) if d.get('positional') else sep.chemical_splits(a, b=b, mixed=m)
        mixed = list(d['mixed'])
        line = f'cs n={n} a={V(d["a"])} b={V(d["b"])} mixed={V(mixed)}'
        o.tags.append('cs:b-and-mixed')
    elif d.get('mixed') is not None:
        m = mk(n, d['mixed'])
        res = sep.chemical_splits(a, mixed=m)
        mixed = list(d['mixed'])
        line = f'cs n={n} a={V(d["a"])} b=- mixed={V(mixed)}'
    else:
        b = mk(n, d['b'])
        res = sep.chemical_splits(a, b)
        mixed = [x + y for x, y in zip(d['a'], d['b'])]
        line = f'cs n={n} a={V(d["a"])} b={V(d["b"])} mixed=-'
    sp = [float(x) for x in res.data.to_array()]
    o.emit(line, f'cs split={V(sp)}')
    for i, (s, m_, x) in enumerate(zip(sp, mixed, d['a'])):
        if not near(s * m_, x):
            o.fail('chemical_splits:roundtrip', f'split·mixed = {s * m_!r} but the first stream has {x!r} of {CHEMS[i]}')
            break
        if not (-1e-12 <= s <= 1 + 1e-12):
            o.fail('chemical_splits:range', f'split of {CHEMS[i]} is {s!r}')
            break
    if sum(1 for x in d['a'] if x) >= 1: o.nontrivial = True
    o.tags.append('cs')


def op_mb(d, o):
    n, idx = d['n'], d['idx']
    vin = [mk(n, f) for f in d['vin']]
    cin = [mk(n, f) for f in d['cin']]
    cout = [mk(n, f) for f in d['cout']]
    line = f'mb n={n} idx={NL(idx)} vin={VS(d["vin"])} cin={VS(d["cin"])} cout={VS(d["cout"])}'
    try:
        sep.material_balance(as_rep(names(n, idx), d.get('rep_ids')), as_rep(vin, d.get('rep')), as_rep(cin, d.get('rep')), as_rep(cout, d.get('rep')))
    except np.linalg.LinAlgError:
        o.emit(line, 'mb err=singular')
        o.tags.append('mb:singular')
        return
    new = [arr(s) for s in vin]
    o.emit(line, f'mb vin={VS(new)} res=1')
    # the property quantifies over INVERTIBLE inlet-composition matrices (exact determinant of the generated data)
    if _det([[Fraction(v[c]) for v in d['vin']] for c in idx]) == 0:
        o.tags.append('mb:singular-not-noticed')
        return
    scale = max([abs(x) for s in d['cout'] + d['cin'] for x in s] + [1.0])
    for c in idx:
        r = sum(s[c] for s in new) + sum(s[c] for s in d['cin']) - sum(s[c] for s in d['cout'])
        if abs(r) > 1e-8 * scale:
            o.fail('material_balance:residual', f'inlets − outlets = {r!r} for the chosen chemical {CHEMS[c]}')
            break
    # each variable inlet only changes in net flow: composition is kept
    for s0, s1 in zip(d['vin'], new):
        f0, f1 = sum(s0), sum(s1)
        if f0 and f1 and not all(near(x / f0, y / f1) for x, y in zip(s0, s1)):
            o.fail('material_balance:composition', f'a variable inlet changed composition: {s0} -> {s1}')
            break
    for s0, s1 in zip(d['cin'] + d['cout'], [arr(s) for s in cin + cout]):
        if list(s0)[:n] + [0.0] * (n - len(s0)) != s1:
            o.fail('material_balance:constant-stream-changed', f'{s0} -> {s1}'); break
    o.nontrivial = True
    o.tags.append('mb')


# Generate MultiStream retentates that hold part of the moisture chemical outside the liquid phase.  The code as of
# /repo without fixes_proposed/C20-9.md overwrites the liquid amount with the target TOTAL: the balance breaks by the
# amount held elsewhere (signature adjust_moisture:moisture-outside-liquid:balance).  Model / oracle describe the repaired
# behaviour; set to False to leave the class out.
MOISTURE_OUTSIDE_LIQUID = True
ITER_CAP = 80


class NoConvergence(Exception):
    pass


def mbc_float_reference(d, cap):
    """binary64 re-implementation of the `composition` loop (used where the exact model cannot follow the floats:
    after a shifted iteration).  Returns (new variable inlets | None when the cap is hit, iterations)."""
    idx = d['idx']; n = d['n']
    inlet = np.array([list(f)[:n] + [0.] * (n - len(f)) for f in d['vin']], float).T        # n x k
    mol_out = np.array([list(f)[:n] + [0.] * (n - len(f)) for f in d['cout']], float).sum(0)
    A = inlet[idx, :]
    Fout = mol_out.sum()
    f = (mol_out / Fout if Fout else mol_out)[idx]
    g_ = np.array([list(f_)[:n] + [0.] * (n - len(f_)) for f_ in d['cin']], float).sum(0)
    O = g_.sum() * f - g_[idx]
    x = np.ones(len(idx)); it = 0
    while True:
        if it >= cap: return None, it
        b = (inlet * x).sum() * f + O
        xn = np.linalg.solve(A, b); it += 1
        neg = xn < 0.
        if neg.any(): xn = xn - xn[neg].min()
        den = x.copy(); den[den == 0.] = 1.
        done = not (sum(((xn - x) / den) ** 2) > 1e-6)
        x = xn
        if done: break
    return [[float(v) * float(fac) for v in col] for fac, col in zip(x, inlet.T)], it


def op_mbc(d, o):
    """material_balance(balance='composition'): fixed-point iteration; np.linalg.solve is wrapped for the duration of the
    call to record the iterates and to stop the (cap-less) loop of the real code after ITER_CAP solves"""
    n, idx = d['n'], d['idx']
    vin = [mk(n, f) for f in d['vin']]
    cin = [mk(n, f) for f in d['cin']]
    cout = [mk(n, f) for f in d['cout']]
    line = (f'mbc n={n} idx={NL(idx)} vin={VS(d["vin"])} cin={VS(d["cin"])} cout={VS(d["cout"])} fuel={ITER_CAP} '
            f'tol={frac(1e-6)}')
    sols = []
    orig = np.linalg.solve
    def solve(A, b):
        if len(sols) >= ITER_CAP: raise NoConvergence()
        x = orig(A, b)
        sols.append([float(v) for v in x])
        return x
    np.linalg.solve = solve
    try:
        sep.material_balance(as_rep(names(n, idx), d.get('rep_ids')), as_rep(vin, d.get('rep')), as_rep(cin, d.get('rep')), as_rep(cout, d.get('rep')), balance='composition')
    except NoConvergence:
        o.emit(line, 'mbc err=noconv'); o.tags.append('mbc:noconv')
        np.linalg.solve = orig
        try:
            ref, ref_it = mbc_float_reference(d, ITER_CAP)
        except np.linalg.LinAlgError:
            ref = None
        if ref is not None:
            o.fail('material_balance_composition:differs-from-float-reference',
                   f'the real loop was still running after {ITER_CAP} solves; a plain binary64 re-implementation stops after {ref_it}')
        return
    except np.linalg.LinAlgError:
        o.emit(line, 'mbc err=singular'); o.tags.append('mbc:singular')
        return
    finally:
        np.linalg.solve = orig
    new = [arr(s_) for s_ in vin]
    # independent binary64 reference of the loop: covers the `shift-history` lines the exact model does not compare
    try:
        ref, ref_it = mbc_float_reference(d, ITER_CAP)
    except np.linalg.LinAlgError:
        ref, ref_it = None, -1
    scale = max([abs(x) for r_ in new for x in r_ if math.isfinite(x)] + [1.0])
    if ref is None or ref_it != len(sols) or any(abs(x - y) > 1e-9 * scale for r1, r2 in zip(new, ref) for x, y in zip(r1, r2)):
        o.fail('material_balance_composition:differs-from-float-reference',
               f'the call returned {new} after {len(sols)} solves; a plain binary64 re-implementation of the documented loop gives {ref} after {ref_it}')
    shift = lambda x: [v - min(w for w in x if w < 0) for v in x] if any(w < 0 for w in x) else list(x)
    shifted = any(w < 0 for w in sols[-1])
    o.emit(line, f'mbc vin={VS(new)} it={len(sols)} shift={int(shifted)}')
    # oracle on the real streams: composition of the chosen chemicals in the total inlet against the outlets.
    # Exactly (no shift in the last iteration): inlet_c − f_c·(total inlet) = f_c·(S(x_prev) − S(x_new)), S = total flow
    # of the scaled variable inlets; x_prev / x_new are the last two iterates of the real loop.
    Fj = [sum(f) for f in d['vin']]
    S = lambda x: sum(a * b for a, b in zip(Fj, x))
    x_new = shift(sols[-1])
    x_prev = shift(sols[-2]) if len(sols) >= 2 else [1.0] * len(idx)
    tot_in = [sum(s_[i] for s_ in new) + sum(s_[i] for s_ in d['cin']) for i in range(n)]
    tot_out = [sum(s_[i] for s_ in d['cout']) for i in range(n)]
    Fin, Fout = sum(tot_in), sum(tot_out)
    if not shifted and Fout > 0 and all(math.isfinite(v) for v in tot_in):
        for c in idx:
            f_c = tot_out[c] / Fout
            lhs = tot_in[c] - f_c * Fin
            rhs = f_c * (S(x_prev) - S(x_new))
            if abs(lhs - rhs) > 1e-8 * max(abs(Fin), abs(S(x_prev)), 1.0):
                o.fail('material_balance_composition:residual',
                       f'{CHEMS[c]}: inlet − z_out·(total inlet) = {lhs!r}, but the last iteration step accounts for {rhs!r}')
                break
        # and it did stop where the code says it stops
        den = [v if v != 0 else 1.0 for v in x_prev]
        if sum(((a - b) / e) ** 2 for a, b, e in zip(x_new, x_prev, den)) > 1e-6 * (1 + 1e-9):
            o.fail('material_balance_composition:not-converged', 'returned although the last relative change exceeds 1e-6')
    for s0, s1 in zip(d['vin'], new):
        f0, f1 = sum(s0), sum(s1)
        if f0 and f1 and not all(near(x / f0, y / f1) for x, y in zip(s0, s1)):
            o.fail('material_balance_composition:composition', f'a variable inlet changed composition: {s0} -> {s1}')
            break
    o.nontrivial = True
    o.tags.append('mbc' + (':shift' if shifted else ''))


OPS = {'mbc': op_mbc, 'ms': op_ms, 'am': op_am, 'msm': op_msm, 'pt': op_pt, 'lle': op_lle, 'vle': op_vle, 'ps': op_ps, 'cs': op_cs, 'mb': op_mb}
# Tolerated ONLY for the lle / vle wrappers (and for `wild` out-of-domain partition inputs), and only up to SKIP_BOUND of
# the calls: numerical give-ups of the external equilibrium solvers, and numba's
# cache writer failing with `ReferenceError: underlying object has vanished` while pickling the overload index of a
# kernel that takes a function argument (dew_point.solve_x(…, gamma.f, …)) when NUMBA_CACHE_DIR is set (./check sets
# it): an environment flake of numba's on-disk cache, GC-timing dependent, unrelated to the property.
SOLVER_ERRORS = (ZeroDivisionError, FloatingPointError, ReferenceError)


SKIP = {'ops': 0, 'skipped': 0}       # per worker process: lle / vle calls and how many of them were given up
SKIP_BOUND, SKIP_MIN_OPS = 0.25, 24


def run_impl(case: Case) -> ImplResult:
    o = Out()
    for line in case.ops:
        kind, _, js = line.partition(' ')
        d = json.loads(js)
        tmo.settings.set_thermo(THERMO[d['n']])
        external = kind in ('lle', 'vle')          # the only helpers that run an iterative thermodynamic solver
        if external: SKIP['ops'] += 1
        try:
            try:
                OPS[kind](d, o)
            except ReferenceError:
                # numba's on-disk cache writer (see SOLVER_ERRORS): the kernel itself compiled; run the call again
                if not external: raise
                o.tags.append(f'retried:{kind}:ReferenceError')
                OPS[kind](d, o)
        except Exception as e:
            # `wild` (K <= 0) inputs may make the root finder give up numerically; nothing else is excused there
            give_up = (external and isinstance(e, SOLVER_ERRORS)) or \
                      (d.get('wild') and isinstance(e, (FloatingPointError, ZeroDivisionError, RuntimeError)))
            if give_up:
                o.tags.append(f'skipped:{kind}:{type(e).__name__}')
                if external:
                    SKIP['skipped'] += 1
                    if SKIP['ops'] >= SKIP_MIN_OPS and SKIP['skipped'] > SKIP_BOUND * SKIP['ops']:
                        o.failures.append({'signature': 'lle-vle:too-many-skipped', 'op_index': len(o.model_in),
                                           'what': f'{SKIP["skipped"]} of {SKIP["ops"]} lle/vle calls of this worker gave up with '
                                                   f'{type(e).__name__} (bound {SKIP_BOUND:.0%}); last: {js[:200]}'})
            else:
                o.failures.append({'signature': f'{kind}:unexpected-{type(e).__name__}', 'op_index': len(o.model_in),
                                   'what': f'{kind} raised {type(e).__name__}: {e} on an input inside the property\'s domain: {js[:300]}'})
    return ImplResult(model_in=o.model_in, outs=o.outs, failures=o.failures, tags=o.tags,
                      nontrivial=(tuple(case.ops) if o.nontrivial else None))


# --------------------------------------------------------------------------
# comparison (exact for mix_and_split / phase_split, tolerance elsewhere)
# --------------------------------------------------------------------------

def _num(s):
    try:
        return float(Fraction(s))
    except (ValueError, ZeroDivisionError):
        return None


def _close_struct(x, y):
    import re
    px, py = re.split(r'[;,:]', x), re.split(r'[;,:]', y)
    if len(px) != len(py): return False
    nums = [_num(b) for b in py]
    scale = max([abs(v) for v in nums if v is not None] + [1.0])
    for a, b in zip(px, py):
        if a == b: continue
        fa, fb = _num(a), _num(b)
        if fa is None or fb is None: return False
        if abs(fa - fb) > ATOL + RTOL * max(abs(fa), abs(fb)) + 1e-12 * scale: return False
    return True


def compare(impl_line, model_line):
    if ' || ' in model_line:
        # aliased partition: the model prints the behaviour as found and the alias-safe result; either is accepted
        return any(compare(impl_line, alt) for alt in model_line.split(' || '))
    if impl_line == model_line: return True
    paths = [t[5:] for t in model_line.split(' ') if t.startswith('path=')]
    ta = [t for t in impl_line.split(' ') if not t.startswith('path=')]
    tb = [t for t in model_line.split(' ') if not t.startswith('path=')]
    if 'borderline' in tb: return True
    # Things the property does not talk about are not compared (BUILDING.md rule 2):
    #  * which of 0 / 1 the single-phase shortcuts of binary_phase_fraction.phase_fraction return (DESIGN §8 #25:
    #    the 2-component path and the N-component path use opposite conventions); the partition theorems hold for
    #    every phi, and the `pt` line that follows is computed from the phi the real code returned;
    #  * whether a clip of the FIRST listed chemical alone is reported (`infeasible_index.any()` quirk).
    #  * the composition-balance iteration once one of its solutions was shifted: the shift leaves an exact zero and a
    #    factor may then decay geometrically - binary64 reaches 0.0 and stops, exact arithmetic never does; the float
    #    and the exact loop legitimately differ in iteration count, convergence and result (oracle still applies).
    if ta[0] == 'mbc' and 'shift-history' in paths: return True
    #  * an exactly singular inlet matrix (outside "invertible"): LAPACK may or may not notice
    if tb[:2] == ['mb', 'err=singular']: return True
    if ta[0] == 'bpf' and paths and paths[0] in ('allKle1', 'allKge1'):
        return ta[1] in ('phi=0', 'phi=1')
    if 'silent-clip' in paths:
        if ta[1] == 'err=infeasible': return True
        ta = [t for t in ta if not t.startswith('clip=')]; tb = [t for t in tb if not t.startswith('clip=')]
    if len(ta) != len(tb) or ta[0] != tb[0]: return False
    exact = ta[0] in ('ms', 'ps')
    for x, y in zip(ta[1:], tb[1:]):
        if x == y: continue
        if exact: return False
        kx, _, vx = x.partition('='); ky, _, vy = y.partition('=')
        if kx != ky or not _close_struct(vx, vy): return False
    return True


def model_tags(line):
    t = line.split(' ')
    out = [x for x in t if x.startswith('path=') or x == 'borderline' or x.startswith('err=') or x in ('clip=1', 'hyp=0', 'kok=0', 'res=0')]
    return [t[0] + ':' + x for x in out]


def disagree_signature(case, res, first):
    return 'disagree:' + (res.model_in[first].split(' ')[0] if first < len(res.model_in) else 'length')


# --------------------------------------------------------------------------
# generation
# --------------------------------------------------------------------------

def dy(rng, kmax=640, emax=4):
    return rng.randrange(0, kmax + 1) / (1 << rng.randrange(0, emax + 1))


def flows(rng, n, pzero=0.25, at_least_one=True):
    v = [0.0 if rng.random() < pzero else dy(rng) for _ in range(n)]
    if at_least_one and not any(v): v[rng.randrange(n)] = 1.0 + dy(rng)
    return v


def stale(rng, n, p=0.7):
    return flows(rng, n, 0.3) if rng.random() < p else None


def gen_K(rng, m):
    style = rng.random()
    def one(lo, hi):
        e = rng.randrange(lo, hi + 1)
        k = (2.0 ** e) * (1 + rng.randrange(0, 8) / 8)
        return min(max(k, 1e-3), 1e3)               # the property's range, ends included
    if style < 0.14:   K = [one(-11, -1) for _ in range(m)]                # all below 1
    elif style < 0.28: K = [one(1, 10) for _ in range(m)]                  # all above 1
    elif style < 0.34: K = [rng.choice([1.0, one(-3, 3)]) for _ in range(m)]
    else:              K = [one(-11, 10) for _ in range(m)]
    if style >= 0.34 and rng.random() < 0.1: K[rng.randrange(m)] = 1.0
    return K


def holder_rows(rng, n, p=0.6):
    """rows (other, l) a multi_stream holder already holds when it is first passed"""
    return [flows(rng, n, 0.3), flows(rng, n, 0.3, at_least_one=False)] if rng.random() < p else None


VLE_SPECS = lambda rng: rng.choice([dict(V=rng.choice([0.0, 0.25, 0.5, 0.75, 1.0]), P=101325.0),
                                    dict(T=rng.choice([300.0, 345.0, 360.0, 372.0, 400.0, 520.0]), P=101325.0),
                                    dict(V=0.5, T=rng.choice([330.0, 360.0]))])


def gen_holder_history(rng):
    """one MultiStream holder passed as multi_stream= to 2–5 successive lle (or vle) calls with different feeds,
    efficiencies, top chemicals / specifications: the holder arrives non-empty from the previous call"""
    n = rng.choice([2, 3, 3, 4, 5, 6])
    kind = 'lle' if rng.random() < 0.6 else 'vle'
    ops = []
    for j in range(rng.randrange(2, 6)):
        feed = flows(rng, n, 0.2)
        d = dict(n=n, feed=feed, holder=1, top0=stale(rng, n, 0.4), bot0=stale(rng, n, 0.4))
        if j == 0: d['holder0'] = holder_rows(rng, n, 0.5)
        if kind == 'lle':
            d['tc'] = rng.choice([None, None] + [i for i in range(n) if feed[i]])
            d['eff'] = rng.choice([1.0, 1.0, rng.randrange(0, 17) / 16])
        else:
            d['spec'] = VLE_SPECS(rng); d['vphase0'] = rng.choice('lg')
        ops.append(kind + ' ' + json.dumps(d))
    return ops


def _det(M):
    M = [row[:] for row in M]; n = len(M); det = 1
    for c in range(n):
        piv = next((r for r in range(c, n) if M[r][c] != 0), None)
        if piv is None: return 0
        if piv != c: M[c], M[piv] = M[piv], M[c]; det = -det
        det *= M[c][c]
        for r in range(c + 1, n):
            f = M[r][c] / M[c][c]
            M[r] = [a - f * b for a, b in zip(M[r], M[c])]
    return det


def gen_op(rng):
    r = rng.random()
    n = rng.choice([1, 2, 2, 3, 3, 4, 5, 6, 6])
    if r < 0.36:                                      # partition / phase_fraction
        m = rng.randrange(1, n + 1)
        perm = rng.sample(range(n), n)
        ids, rest = sorted(perm[:m]) if rng.random() < 0.7 else perm[:m], perm[m:]
        topc, botc = [], []
        for i in rest:
            q = rng.random()
            if q < 0.3: topc.append(i)
            elif q < 0.6: botc.append(i)
        feed = flows(rng, n, 0.15)
        if not any(feed[i] for i in ids): feed[ids[0]] = 1.0 + dy(rng)
        K = gen_K(rng, m)
        if rest and rng.random() < 0.12:
            # every coefficient on one side of 1 and material forced only into the OTHER phase: both phases exist, the
            # single-phase shortcuts of the phase-fraction routine must not fire
            up = rng.random() < 0.5
            K = [k if (k >= 1) == up else 1 / k for k in K]
            forced = [i for i in rest if rng.random() < 0.7] or [rest[0]]
            topc, botc = ([], forced) if up else (forced, [])
            for i in forced:
                if not feed[i]: feed[i] = 0.5 + dy(rng)
        d = dict(n=n, feed=feed, ids=list(ids), K=K, topc=topc, botc=botc, strict=int(rng.random() < 0.3),
                 top0=stale(rng, n), bot0=stale(rng, n))
        if rng.random() < 0.12:      # outside the property's domain: reaches the clipping / InfeasibleRegion branches
            d['K'] = [2.0 ** rng.randrange(-4, 5) for _ in range(m)]
            d['K'][rng.randrange(m)] = -rng.choice([0.25, 0.5, 2.0, 3.0]); d['wild'] = 1
        if rng.random() < 0.15: d['only_fraction'] = 1
        elif rng.random() < 0.12: d['alias'] = rng.choice(['top', 'top', 'bottom'])
        if rng.random() < 0.3: d['bare'] = 1
        if rng.random() < 0.3: d['guess'] = rng.choice([0.0, 1.0, 0.5, rng.randrange(1, 64) / 64, rng.randrange(1, 64) / 64])
        d['rep_ids'], d['rep_f'] = rng.choice(SEQ_REPS), rng.choice(SEQ_REPS)
        if rng.random() < 0.02:      # nothing at all to partition: the code divides by F_mol = 0
            d['feed'] = [0.0 if (i in ids or i in topc or i in botc) else x for i, x in enumerate(d['feed'])]
            d['empty'] = 1
        return 'pt ' + json.dumps(d)
    if r < 0.50:                                      # mix_and_split
        k = rng.randrange(1, 5) if rng.random() > 0.1 else rng.randrange(5, 9)      # up to 8 inlets
        ins = [flows(rng, n, 0.3, at_least_one=rng.random() < 0.9) for _ in range(k)]
        if rng.random() < 0.25: ins.insert(rng.randrange(len(ins) + 1), [0.0] * n)      # an empty inlet somewhere
        if rng.random() < 0.3:
            s = rng.randrange(0, 65) / 64
            d = dict(n=n, ins=ins, split=[s] * n, scalar=1)
        else:
            d = dict(n=n, ins=ins, split=[rng.choice([0.0, 1.0, rng.randrange(0, 65) / 64, rng.randrange(0, 65) / 64]) for _ in range(n)])
        d['top0'], d['bot0'] = stale(rng, n), stale(rng, n)
        if rng.random() < 0.2: d['alias_top'] = rng.randrange(k)
        if rng.random() < 0.2: d['alias_bot'] = rng.randrange(k)
        if d.get('alias_top') is not None and d.get('alias_top') == d.get('alias_bot'): del d['alias_bot']
        d['rep'] = rng.choice(STREAM_REPS)
        if d.get('alias_bot') is None and rng.random() < 0.25: d['perm_bot'] = 1
        if d.get('alias_top') is None and d.get('alias_bot') is None and not d.get('perm_bot') and rng.random() < 0.2:
            d['ms_out'] = 1          # MultiStream outlets (g, l) holding material in both phases from an earlier call
            if rng.random() < 0.4:   # part of the first inlet enters as gas (a quarter of each flow: stays dyadic)
                d['gas_in'] = [x / 4 for x in d['ins'][0]]
        return 'ms ' + json.dumps(d)
    if r < 0.535:                                     # mix_and_split_with_moisture_content
        n = max(n, 2)
        mode = 'mol' if rng.random() < 0.5 else 'mass'
        ins = [flows(rng, n, 0.3) for _ in range(rng.randrange(1, 4) if rng.random() > 0.1 else rng.randrange(4, 9))]
        # the moisture chemical: water (ID None or 'Water') or, through the public ID keyword, any other chemical
        k = rng.randrange(1, n) if (mode == 'mass' and rng.random() < 0.6) else 0
        ins[0][k] += 64.0 * rng.randrange(0, 40)          # wash liquid
        split = [rng.randrange(32, 65) / 64 for _ in range(n)]
        split[k] = rng.randrange(0, 9) / 64
        return 'msm ' + json.dumps(dict(n=n, ins=ins, split=split, k=k, mode=mode, kwargs=int(rng.random() < 0.5), perm_bot=int(rng.random() < 0.2), mc=rng.randrange(1, 61) / 64, rep=rng.choice(STREAM_REPS),
                                        strict=rng.choice([None, True, False]), top0=stale(rng, n), bot0=stale(rng, n)))
    if r < 0.64:                                      # adjust_moisture_content
        mode = 'mol' if rng.random() < 0.5 else 'mass'
        k = 0 if mode == 'mol' or rng.random() < 0.5 else rng.randrange(n)
        R = flows(rng, n, 0.2)
        P = flows(rng, n, 0.3, at_least_one=False)
        mc = rng.randrange(1, 61) / 64
        if rng.random() < 0.7:       # sufficient water: top the permeate up
            MW = MWS[n]
            dry = sum(MW[i] * R[i] for i in range(n) if i != k)
            need = dry * mc / (1 - mc) / MW[k]
            P[k] = math.ceil(max(need - R[k], 0) * 16 + 1) / 16 + dy(rng, 64, 3)
        strict = rng.choice([None, True, False, False])
        d = dict(n=n, R=R, P=P, k=k, mode=mode, mc=mc, strict=strict, multi=int(rng.random() < 0.25))
        MW_ = MWS[n]
        need = sum(MW_[i] * R[i] for i in range(n) if i != k) * mc / (1 - mc) / MW_[k]        # target amount in the retentate
        if MOISTURE_OUTSIDE_LIQUID and d['multi'] and R[k] > 0 and need >= R[k] and rng.random() < 0.4:
            d['k_solid'] = R[k] / 4            # a quarter of the retentate's moisture chemical sits in the solid phase
        if d['multi'] and rng.random() < 0.45:
            # the permeate holds moisture outside its liquid phase; its LIQUID moisture is near what must be moved
            move = max(need - R[k], 0.0)
            liquid = round(move * rng.choice([0.5, 0.9, 0.999, 1.0, 1.001, 1.25, 2.0]) * 64) / 64
            other = round((move + dy(rng, 64, 3) + 0.25) * 64) / 64          # enough to keep the all-phase total >= 0
            P[k] = liquid + other
            d['P'] = P; d['kp_other'] = other
        return 'am ' + json.dumps(d)
    if r < 0.70:                                      # lle wrapper
        n = max(n, 2)
        feed = flows(rng, n, 0.2) if rng.random() > 0.03 else [0.0] * n
        tc = rng.choice([None, None] + [i for i in range(n) if feed[i]])
        eff = rng.choice([1.0, 1.0, rng.randrange(0, 17) / 16])
        return 'lle ' + json.dumps(dict(n=n, feed=feed, tc=tc, eff=eff, use_ms=int(rng.random() < 0.4),
                                        holder0=holder_rows(rng, n), top0=stale(rng, n), bot0=stale(rng, n)))
    if r < 0.75:                                      # vle wrapper
        feed = flows(rng, n, 0.2) if rng.random() > 0.03 else [0.0] * n
        spec = rng.choice([dict(V=rng.choice([0.0, 0.25, 0.5, 0.75, 1.0]), P=101325.0),
                           dict(T=rng.choice([300.0, 345.0, 360.0, 372.0, 400.0, 520.0]), P=101325.0),
                           dict(V=0.5, T=rng.choice([330.0, 360.0]))])
        return 'vle ' + json.dumps(dict(n=n, feed=feed, spec=spec, use_ms=int(rng.random() < 0.4),
                                        holder0=holder_rows(rng, n), vphase0=rng.choice('lg'), top0=stale(rng, n), bot0=stale(rng, n)))
    if r < 0.83:                                      # phase_split
        phases = rng.choice(['gl', 'lL', 'gls', 'glL', 'ls', 'l', 'g'])
        rows = [flows(rng, n, 0.3, at_least_one=False) for _ in phases]
        nout = len(phases) if rng.random() < 0.85 else rng.choice([len(phases) - 1, len(phases) + 1])
        return 'ps ' + json.dumps(dict(n=n, phases=phases, rows=rows, nout=nout, T=rng.choice([300.0, 350.0]), rep=rng.choice(SEQ_REPS),
                                       outs0=[stale(rng, n) for _ in range(nout)]))
    if r < 0.90:                                      # chemical_splits
        a = flows(rng, n, 0.3)
        other = flows(rng, n, 0.3, at_least_one=False)
        q = rng.random()
        if q < 0.35:
            return 'cs ' + json.dumps(dict(n=n, a=a, b=other))
        if q < 0.7:
            return 'cs ' + json.dumps(dict(n=n, a=a, mixed=[x + y for x, y in zip(a, other)]))
        # b AND mixed: mixed holds a third product on top of a + b (sometimes nothing more)
        third = flows(rng, n, 0.3, at_least_one=False) if rng.random() < 0.8 else [0.0] * n
        return 'cs ' + json.dumps(dict(n=n, a=a, b=other, mixed=[x + y + z for x, y, z in zip(a, other, third)],
                                       positional=int(rng.random() < 0.5)))
    if r >= 0.96:                                     # material_balance, balance='composition'
        n = max(n, 2)
        k = rng.randrange(1, min(n, 3) + 1)
        idx = rng.sample(range(n), k)
        contractive = rng.random() < 0.8
        vin = []
        for j in range(k):
            f = [0.0] * n
            for c in idx: f[c] = 0.0 if rng.random() < 0.5 else rng.randrange(0, 9) / 8
            f[idx[j]] = 4.0 + rng.randrange(0, 33) / 8
            if not contractive:
                for c in range(n):
                    if c not in idx and rng.random() < 0.5: f[c] = rng.randrange(1, 9) / 8
            vin.append(f)
        cin = [flows(rng, n, 0.4) for _ in range(rng.randrange(1, 3))]
        cout = [flows(rng, n, 0.2) for _ in range(rng.randrange(1, 3))]
        if rng.random() < 0.7:             # little of the chosen chemicals in the constant inlets: no negative factor, no shift
            for s_ in cin:
                for c in idx: s_[c] = rng.randrange(0, 9) / 8
            for c in idx: cout[0][c] += 32.0 * rng.randrange(1, 5)
        if contractive and n > k:          # the outlets carry other chemicals too: sum(f) < 1
            other = [c for c in range(n) if c not in idx]
            cout[0][rng.choice(other)] += 64.0 * rng.randrange(1, 9)
        return 'mbc ' + json.dumps(dict(n=n, idx=idx, vin=vin, cin=cin, cout=cout, rep=rng.choice(SEQ_REPS), rep_ids=rng.choice(SEQ_REPS)))
    # material_balance
    k = rng.randrange(1, min(n, 4) + 1) if rng.random() > 0.15 else rng.randrange(1, n + 1)        # up to 6 variable inlets
    idx = rng.sample(range(n), k)
    vin = []
    style = rng.random()
    for j in range(k):
        f = [0.0 if rng.random() < 0.5 else rng.randrange(0, 9) / 8 for _ in range(n)]
        if style < 0.5:
            f[idx[j]] = 4.0 + rng.randrange(0, 33) / 8          # dominant on "its" chemical
        else:
            # any small non-negative matrix: zero diagonal entries (pivot search), far from dominant, now and then singular
            for c in idx: f[c] = float(rng.choice([0, 0, 1, 2, 3, 5, 8]))
            if style < 0.75: f[idx[(j + 1) % k]] = float(rng.randrange(1, 9)); f[idx[j]] = 0.0 if k > 1 else f[idx[j]]
        vin.append(f)
    if style >= 0.97 and k > 1: vin[-1] = [2 * x for x in vin[0]]      # exactly singular
    if style >= 0.5:
        # keep it moderately conditioned for the tolerance comparison (exact determinant of the integer matrix)
        from fractions import Fraction as Fr
        M = [[Fr(v[c]) for v in vin] for c in idx]
        det = _det(M)
        if det != 0 and abs(det) < 1: vin[0][idx[0]] += 8.0
    many = rng.random() < 0.15                                   # 3-7 constant streams now and then
    cin = [flows(rng, n, 0.4, at_least_one=False) for _ in range(rng.randrange(3, 8) if many else rng.randrange(0, 3))]
    cout = [flows(rng, n, 0.3) for _ in range(rng.randrange(3, 8) if many else rng.randrange(1, 3))]
    return 'mb ' + json.dumps(dict(n=n, idx=idx, vin=vin, cin=cin, cout=cout, rep=rng.choice(SEQ_REPS), rep_ids=rng.choice(SEQ_REPS)))


def generate(rng, tier, index, nworkers):
    ncases = max(1, budget(tier)['cases'] // nworkers)
    for _ in range(ncases):
        if rng.random() < 0.10:
            yield Case(gen_holder_history(rng), {})
        else:
            yield Case([gen_op(rng) for _ in range(rng.randrange(1, 4))], {})


def corpus():
    j = json.dumps
    return [
        # DESIGN.md §8 #22: phi >= 1 with material left in the bottom outlet
        Case(['pt ' + j(dict(n=6, feed=[20, 20, 0, 1, 0, 0], ids=[0, 1, 2], K=[2.0, 3.0, 4.0], topc=[], botc=[], strict=0,
                             top0=None, bot0=[50, 3, 0, 7, 2, 0]))]),
        # stale non-equilibrium chemical in the bottom outlet, two-phase result
        Case(['pt ' + j(dict(n=6, feed=[20, 20, 0, 1, 0, 0], ids=[0, 1], K=[0.5, 2.0], topc=[], botc=[], strict=0,
                             top0=None, bot0=[0, 0, 0, 7, 2, 0]))]),
        # DESIGN.md §8 #25: all K on one side, 2 versus 3 equilibrium chemicals
        Case(['pt ' + j(dict(n=3, feed=[20, 20, 0], ids=[0, 1], K=[0.5, 0.25], topc=[], botc=[], strict=0, top0=None, bot0=None)),
              'pt ' + j(dict(n=3, feed=[20, 20, 4], ids=[0, 1, 2], K=[0.5, 0.25, 0.5], topc=[], botc=[], strict=0, top0=None, bot0=None)),
              'pt ' + j(dict(n=3, feed=[20, 20, 0], ids=[0, 1], K=[2.0, 4.0], topc=[], botc=[], strict=0, top0=None, bot0=None)),
              'pt ' + j(dict(n=3, feed=[20, 20, 4], ids=[0, 1, 2], K=[2.0, 4.0, 2.0], topc=[], botc=[], strict=0, top0=None, bot0=None))]),
        # forced chemicals, doctest-like
        Case(['pt ' + j(dict(n=4, feed=[20, 20, 0.125, 0.125], ids=[0, 1], K=[0.625, 1.5], topc=[3], botc=[2], strict=0,
                             top0=[1, 1, 1, 1], bot0=[2, 2, 2, 2]))]),
        # non-strict moisture adjustment without enough water (both branches), and strict
        Case(['am ' + j(dict(n=4, R=[1, 0, 0, 20], P=[2, 0, 0, 0.5], k=0, mode='mol', mc=0.5, strict=False)),
              'am ' + j(dict(n=4, R=[1, 0, 0, 20], P=[2, 0, 0, 0.5], k=0, mode='mass', mc=0.5, strict=False)),
              'am ' + j(dict(n=4, R=[1, 0, 0, 20], P=[2, 0, 0, 0.5], k=0, mode='mol', mc=0.5, strict=None)),
              'am ' + j(dict(n=2, R=[0, 4], P=[50, 0.125], k=0, mode='mol', mc=0.5, strict=None))]),
        # one multi_stream holder reused by successive lle / vle calls (seeded/C20-1)
        Case(['lle ' + j(dict(n=5, feed=[20, 1, 0, 0, 20], holder=1, tc=4, eff=1.0, top0=None, bot0=None)),
              'lle ' + j(dict(n=5, feed=[5, 3, 0, 0, 30], holder=1, tc=4, eff=0.75, top0=None, bot0=None)),
              'lle ' + j(dict(n=5, feed=[50, 0.5, 0, 0, 2], holder=1, tc=None, eff=1.0, top0=[1, 1, 1, 1, 1], bot0=None))]),
        Case(['vle ' + j(dict(n=3, feed=[20, 20, 1], holder=1, holder0=[[5, 5, 5], [1, 2, 3]], spec=dict(V=0.5, P=101325.0), top0=None, bot0=None)),
              'vle ' + j(dict(n=3, feed=[5, 30, 3], holder=1, spec=dict(T=360.0, P=101325.0), top0=None, bot0=[1, 1, 1]))]),
        # composition balance (doctest numbers), aliasing
        Case(['mbc ' + j(dict(n=2, idx=[0, 1], vin=[[1, 0], [0, 1]], cin=[[100, 0]], cout=[[200, 2], [0, 100]])),
              'ms ' + j(dict(n=2, ins=[[20, 5], [15, 5]], split=[0.75, 0.75], scalar=1, top0=None, bot0=None, alias_top=0, alias_bot=1)),
              'pt ' + j(dict(n=5, feed=[20, 20, 4, 1, 2], ids=[0, 1], K=[0.5, 2.0], topc=[4], botc=[], strict=0, top0=None, bot0=[3, 0, 0, 0, 0], alias='top')),
              'pt ' + j(dict(n=5, feed=[20, 20, 4, 1, 2], ids=[0, 1], K=[0.5, 2.0], topc=[4], botc=[3], strict=0, top0=None, bot0=None, alias='top')),
              'pt ' + j(dict(n=5, feed=[20, 20, 4, 1, 2], ids=[0, 1], K=[0.5, 2.0], topc=[4], botc=[3], strict=0, top0=[1, 0, 0, 0, 0], bot0=None, alias='bottom'))]),
        Case(['ms ' + j(dict(n=2, ins=[[20, 5], [15, 5]], split=[0.75, 0.75], scalar=1, top0=[1, 2], bot0=[3, 4])),
              'ps ' + j(dict(n=2, phases='gl', rows=[[1, 2], [3, 4]], nout=2, outs0=[[9, 9], [8, 8]])),
              'cs ' + j(dict(n=2, a=[1, 0], b=[3, 0])),
              'mb ' + j(dict(n=2, idx=[0, 1], vin=[[1, 0], [0, 1]], cin=[[100, 0]], cout=[[200, 2], [0, 100]]))]),
    ]
