"""
C11 — molar, mass and volumetric views and unit conversions of a stream always agree.

Adapter: histories of view reads / writes (imol, imass, ivol, F_mol, F_mass, F_vol, get_flow, set_flow,
get_total_flow, set_total_flow in eight units and some non-flow units) interleaved with T / P / phase /
phases changes, link_with (all flag combinations) / unlink, copy_like (incl. the `_expand_phases` path) and
property-package resets, on real single- and multi-phase streams.
Oracle (real code only, recomputed from the chemical objects): mass = mol × MW, vol = mol × 1000·V_i(phase, T, P)
with V evaluated freshly, totals = sums of the views, unit round trips against pint's direct factor,
composition kept by set_total_flow, non-flow units rejected.
Lean model: lean/ThermoVerif/Model/FlowViews.lean (driver lean/Driver/C11.lean).
"""
from __future__ import annotations
import itertools, random, warnings
import numpy as np
from harness.core import Case, ImplResult, close, frac, fbits, from_fbits

PID = 'C11'
LEAN_MODULES = ['ThermoVerif.Props.C11']
RULE = ('histories (8–45 ops) over 1–3 real streams (single- and multi-phase; Water/Ethanol/Methanol/Glycerol and a '
        'second package with other order + Propanol): reads and writes through imol/imass/ivol, F_*, get/set_flow, '
        'imol/imass/ivol.get_data/set_data(units), get_property/set_property(F_*, units) and indexer constructors with units= '
        '(unit strings drawn from all flow units, so mostly of another dimension than the view; each case starts from cold '
        'unit memos and many first convert legitimately to the same units string), '
        'empty_negative_flows on streams with negative flows and cached views, '
        'Stream / MultiStream constructors with units= (all eight) and total_flow=, Stream.copy() / copy(thermo=), '
        'view reductions (.sum/.max/.any), index-less get_data / set_data, Material indexer constructors with units=, '
        'reset_flow (single and multi-phase; every unit dimension or none; with / without phase(s) change and total_flow), '
        'whole-view assignment (s.mass = o.mass, s.vol = o.vol, ivol.data.copy_like(o.vol), imass[phase] = row / ndarray) '
        'between streams of different T / P / phase, get/set_total_flow in kmol/hr, mol/s, kg/hr, lb/hr, g/min, m3/hr, L/min, gal/min (+ non-flow units), '
        'on originals, phase views ms[phase], proxy() and flow_proxy() objects, interleaved with T, P, phase, phases, link_with (8 flag combinations), unlink, copy_like, _reset_thermo, '
        'mix_from, scale, empty and reactions defined on another property package (reset_chemicals with container); '
        'a grid enumerates link flags × class × follow-up and all unit pairs; non-trivial = a cached view was read, '
        'a structural/thermal change happened, and a view was read again; distinct = distinct op sequences')
ASSUMPTIONS = [
    'molar volumes 1000·V_i(phase,T,P) are parameters: evaluated freshly from the chemical objects by the adapter and '
    'passed on the protocol line (the ideal mixing rule F_vol = Σ mol_i·V_i is what thermosteam\'s default mixture does)',
    'molar contents: computed by the model for scale, empty, phase = , phases = (column sums / re-filing) and all writes; '
    'TOLD to the model (parameter R) after copy_like, _reset_thermo, mix_from and reactions, whose content semantics belongs to '
    'C01/C05/C12/C13 — for those the adapter checks on the real objects that per-chemical totals are conserved / copied / '
    'summed (signature contents:<op>), and the structural effect (fresh rows, data, _data_cache, phases) is modelled; '
    'stream.mol/.mass/.vol, get_flow(units) with the default key and tuple keys, set_flow(array) are read and compared; ',
    'pint factors, pint dimensionality vectors and MW are data dumped at run time; the model classifies a unit by comparing '
    'its dimensionality with those of kmol/hr, kg/hr, m^3/hr (as _get_flow_name_and_factor does); the driver checks nonzero '
    'factors, MW>0, factor(u→u\') = f(u\')/f(u) and that the molar volumes on the lines are a function of '
    '(chemicals, phase, T, P) (hypothesis monitors for factor_consistent and VLine/RunOk)',
    'ThermalCondition.in_equilibrium (|ΔT|,|ΔP| < 1e-12) is modelled as equality',
    'the model mirrors /repo with fixes C11-1..4 and the C12/C13 copy_like / unlink / phases-setter repairs applied',
    'arithmetic: model exact (Rat), implementation binary64; compared with rtol 1e-9 / atol 1e-12',
    'process-global state: unit memos are cleared at the start of every case; the cached Chemical objects (and their '
    'T-dependent property objects) are shared by all cases of a worker',
    'not generated: re-classing / re-linking a phase view itself (setphase(s), link_with as receiver, copy_like, unlink, '
    '_reset_thermo, proxies of a view: model answers Precondition), _reset_thermo on a stream that has a proxy, '
    'attachment of the phase views of a stream whose indexer another stream object holds (fixes_proposed/C11-6), '
    'linking multi-phase streams with different phase sets or '
    'streams of different packages by flow, _expand_phases on a data object shared with another stream, '
    'mix_from with fewer than two non-empty inlets or inlets of another package, '
    'view-to-view assignment whose source is a different view object over the receiver\'s own molar rows '
    '(repaired by a8461dd; ALLOW_ALIASED_ASSIGN is on)',
]
TRUSTED = ['Lean 4.33 kernel', 'harness/props/c11.py + Driver/C11.lean', 'pint', 'generator reach (see histogram)']

tmo = None
THERMOS = []
RXNS = {}
FLOW_UNITS = ['kmol/hr', 'mol/s', 'kg/hr', 'lb/hr', 'g/min', 'm3/hr', 'L/min', 'gal/min']
OTHER_UNITS = ['kg', 'm3', 'kJ/hr', 'K', 'kmol', 'hr', 'kg/m3']
BASE = {'mol': 'kmol/hr', 'mass': 'kg/hr', 'vol': 'm3/hr'}
UNIT_DIM = {}
UNIT_FACTOR = {}
CONV = {}
CFG = []          # (model line, expected answer)
RTOL, ATOL = 1e-9, 1e-12
DIM_ERRORS = ()
# Assigning a view from a *different* view object over the very same molar rows (flow-linked streams, phase views) wiped
# the data before a8461dd (fixes_proposed/C11-5); C11_ALIASED=0 switches these cases off.
import os
ALLOW_ALIASED_ASSIGN = os.environ.get('C11_ALIASED', '1') == '1'   # repaired in /repo by a8461dd


def setup():
    global tmo
    import thermosteam as tmo_
    tmo = tmo_
    warnings.simplefilter('ignore')
    np.seterr(all='ignore')
    c0 = tmo.Chemicals(['Water', 'Ethanol', 'Methanol', 'Glycerol'], cache=True)
    c1 = tmo.Chemicals(['Ethanol', 'Water', 'Glycerol', 'Methanol', 'Propanol'], cache=True)
    c2 = tmo.Chemicals(['Methanol', 'Water'], cache=True)
    THERMOS[:] = [tmo.Thermo(c0, cache=False), tmo.Thermo(c1, cache=False), tmo.Thermo(c2, cache=False)]
    # reactions defined on package 1: applied to a stream of package 0 they go through
    # reset_chemicals(chemicals) / reset_chemicals(old chemicals, container)
    tmo.settings.set_thermo(THERMOS[1])
    kw = dict(reactant='Ethanol', X=0.5, correct_atomic_balance=False, check_atomic_balance=False)
    RXNS.clear()
    RXNS['1mol'] = tmo.Reaction('Ethanol -> Methanol', **kw)
    RXNS['1wt'] = tmo.Reaction('Ethanol -> Methanol', basis='wt', **kw)
    RXNS['mmol'] = tmo.Reaction('Ethanol,l -> Methanol,g', phases='lg', **kw)
    RXNS['mwt'] = tmo.Reaction('Ethanol,l -> Methanol,g', phases='lg', basis='wt', **kw)
    tmo.settings.set_thermo(THERMOS[0])
    ureg = tmo.units_of_measure.ureg
    global DIM_ERRORS
    import pint
    DIM_ERRORS = (tmo.exceptions.DimensionError, pint.errors.DimensionalityError)
    dims = {k: ureg.get_dimensionality(v) for k, v in BASE.items()}
    CFG.clear()
    for k, th in enumerate(THERMOS):
        CFG.append(('cfg-thermo ' + ','.join(frac(float(x)) for x in th.chemicals.MW), f'ok {k}'))
    toks = []
    for u in FLOW_UNITS + OTHER_UNITS:
        d = ureg.get_dimensionality(u)
        dim = next((k for k, v in dims.items() if v == d), 'other')
        UNIT_DIM[u] = dim
        UNIT_FACTOR[u] = float(ureg.convert(1., BASE[dim], u)) if dim != 'other' else 0.0
        toks.append(f'{u}={dimvec(d)}={frac(UNIT_FACTOR[u])}')
    CFG.append(('cfg-units ' + ' '.join(toks), 'ok'))
    toks = []
    for u in FLOW_UNITS:
        for v in FLOW_UNITS:
            if UNIT_DIM[u] == UNIT_DIM[v]:
                CONV[u, v] = float(ureg.convert(1., u, v))
                toks.append(f'{u}={v}={frac(CONV[u, v])}')
    CFG.append(('cfg-conv ' + ' '.join(toks), 'ok'))


BASIS = ['[length]', '[mass]', '[time]', '[substance]', '[temperature]', '[current]', '[luminosity]']


def dimvec(d):
    """pint's dimensionality as exponents over BASIS plus one slot collecting every other base dimension: the model
    compares it with the dimensionalities of kmol/hr, kg/hr and m^3/hr itself (as _get_flow_name_and_factor does)"""
    d = dict(d)
    v = [int(round(float(d.pop(b, 0)))) for b in BASIS]
    v.append(int(round(sum(abs(float(x)) for x in d.values()))))
    return ','.join(str(x) for x in v)


def budget(tier):
    return {'quick': dict(seconds=70, cases=2300, shrink_s=20, search_s=5),
            'thorough': dict(seconds=480, cases=12000, shrink_s=40, search_s=20)}[tier]


def protect_prefix(case):
    return 0


# --------------------------------------------------------------------------
# observation of the real objects
# --------------------------------------------------------------------------

def is_multi(s):
    return isinstance(s, tmo.MultiStream)


def dense_rows(data):
    a = np.asarray(data.to_array() if hasattr(data, 'to_array') else data, dtype=float)
    return [list(a)] if a.ndim == 1 else [list(r) for r in a]


def mol_rows(s):
    return dense_rows(s.imol.data)


def phases_of(s):
    return list(s.phases) if is_multi(s) else [s.phase]


def fresh_V(s):
    """1000·V_i(phase, T, P) of every chemical for every row, evaluated from the chemical objects"""
    T, P = s.T, s.P
    return [[1000. * float(getattr(c.V, ph)(T, P)) for c in s.chemicals] for ph in phases_of(s)]


def mat(rows, tok=frac):
    if not rows: return '_'
    return '|'.join(','.join(tok(float(x)) for x in r) for r in rows)


def shape_ans(s):
    return f'ok {1 if is_multi(s) else 0} {"".join(phases_of(s))}'


def rows_close(a, b):
    if len(a) != len(b): return False
    for r, q in zip(a, b):
        if len(r) != len(q): return False
        for x, y in zip(r, q):
            if not close(float(x), float(y), RTOL, ATOL): return False
    return True


class Stop(Exception):
    """the real object is in a state the case cannot continue from"""


class World:
    def __init__(self):
        self.streams = []
        self.views = {}          # id(view object) -> number
        self.keep = []           # strong references (ids must not be recycled)
        self.last_struct = {}    # stream index -> last structural / thermal op kind
        self.last_set = None     # ('flow'|'total', sid, ph, i, unit, x)
        self.detached = set()    # (id(parent), phase) already reported as detached

    def vnum(self, v):
        k = id(v)
        if k not in self.views:
            self.views[k] = len(self.views); self.keep.append(v)
        return f'v{self.views[k]}'

    def shared_data(self, s):
        return any(t._imol is not s._imol and t._imol.data is s._imol.data for t in self.streams)


def diagnose(w, s, kind, generic):
    """name the failure specifically (white-box inspection, used for the signature only)"""
    try:
        view = s.imass if kind == 'mass' else s.ivol
        view_rows = dense_rows(view.data)
    except Exception:
        return generic
    mol = mol_rows(s)
    if len(view_rows) != len(mol) or any(len(a) != len(b) for a, b in zip(view_rows, mol)):
        return 'stale-view:rows-changed-under-cached-view'
    try:
        vd, md = view.data, s._imol.data
        pairs = list(zip(vd.rows, md.rows)) if hasattr(md, 'rows') else [(vd, md)]
        if any(a.dct.dct is not b.dct for a, b in pairs):
            return 'stale-view:data_cache-outlives-link'      # the cached view wraps another stream's rows
    except Exception:
        pass
    if kind == 'vol':
        T, P = s.T, s.P
        cur = phases_of(s)
        other = 0
        for k, (vr, mr) in enumerate(zip(view_rows, mol)):
            for i, (v, m) in enumerate(zip(vr, mr)):
                if not m: continue
                c = s.chemicals.tuple[i]
                hits = [ph for ph in 'lgs' if close(v, m * 1000. * float(getattr(c.V, ph)(T, P)), RTOL, ATOL)]
                if not hits: return generic
                if cur[k].lower() not in hits: other += 1
        if other: return 'stale-vol:phase-not-in-molar-volume-cache-key'
    return generic


def reset_unit_memos():
    """every case starts from cold unit-conversion memos, so that a history-dependent failure is reproduced by the case
    alone (the memos are class / module level and would otherwise carry over between cases of one worker)"""
    try:
        tmo.Stream._flow_cache.clear()
    except Exception:
        pass
    A = tmo.units_of_measure.AbsoluteUnitsOfMeasure
    for name, val in list(vars(A).items()):
        if isinstance(val, dict) and name != '_cache': val.clear()
    for u in list(A._cache.values()):
        fc = getattr(u, 'factor_cache', None)
        if isinstance(fc, dict): fc.clear()


def run_ops(ops):
    reset_unit_memos()
    w = World()
    model_in, outs, failures, tags = [], [], [], set()
    pending = [None]
    ran = []
    hist = {'viewread': 0, 'change_after_read': 0, 'read_after_change': 0}

    def emit(line, ans):
        model_in.append(line); outs.append(ans)
        pending[0] = None

    def fail(sig, what):
        failures.append({'signature': sig, 'op_index': len(model_in) - 1, 'what': what})

    for l, a in CFG: emit(l, a)

    def pend(sid, dim, ml):
        pending[0] = (sid, dim, ml)

    def S(tok):
        if not w.streams: raise Stop()
        return int(tok) % len(w.streams)

    def locked(s):
        return (not is_multi(s)) and isinstance(s._imol._phase, tmo._phase.LockedPhase)

    def reg(obj):
        """index of a real stream object in the universe (registered on first sight)"""
        for k, t in enumerate(w.streams):
            if t is obj: return k
        w.streams.append(obj)
        return len(w.streams) - 1

    def ix_shared(s):
        return any(t is not s and t._imol is s._imol for t in w.streams)

    def check_views_attached(opname):
        """every phase view of every (un-proxied) multi-phase stream wraps the parent's row of that phase and refers to the
        parent's thermal-condition object: a write through either is seen by the other"""
        for sid, s in enumerate(w.streams):
            if not is_multi(s) or ix_shared(s): continue
            for ph, v in s._streams.items():
                if not any(t is v for t in w.streams): continue
                pi = s._imol._phase_indexer
                ok = (ph in pi and not is_multi(v) and v._imol.data is s._imol.data.rows[pi(ph)]
                      and v._thermal_condition is s._thermal_condition and v.chemicals is s.chemicals)
                if not ok and (id(s), ph) not in w.detached:
                    w.detached.add((id(s), ph))
                    fail('phase-view-detached',
                         f'after `{opname}` the phase view {ph!r} of stream {sid} no longer wraps the parent\'s row / '
                         f'thermal condition (view flows {mol_rows(v) if not is_multi(v) else "?"}, parent row '
                         f'{mol_rows(s)[pi(ph)] if ph in pi else "-"}; T {v.T} vs {s.T})')

    RESTRUCTURING = ('setphase', 'setphases', 'link', 'unlink', 'copylike', 'thermo', 'view', 'proxy', 'flowproxy')

    def view_guard(sid, s, what, dim, u, err, before, x):
        """a unit of another dimension than the view / property it is applied to must be rejected and change nothing"""
        if UNIT_DIM[u] == dim: return
        if err != 'err DimensionError':
            fail('dimension_guard:view-units',
                 f'stream {sid}: {what} with units {u!r} ({UNIT_DIM[u]}) on a {dim} quantity was accepted '
                 f'(value {x!r}); flows before {before}, after {mol_rows(s)}')
        elif mol_rows(s) != before:
            fail('dimension_guard:view-units', f'stream {sid}: {what} with units {u!r} was rejected but changed the flows')

    def totals_by_cas(s):
        d = {}
        for r in mol_rows(s):
            for x, cas in zip(r, s.chemicals.CASs): d[cas] = d.get(cas, 0.0) + x
        return {k: v for k, v in d.items() if v}

    def row_dicts(x):
        d = x._imol.data
        return [id(r.dct) for r in d.rows] if hasattr(d, 'rows') else [id(d.dct)]

    def mix_expect(s, ins):
        """per-chemical totals of the inlets (None when an inlet shares row objects with the receiver)"""
        mine = set(row_dicts(s))
        if any(mine & set(row_dicts(i)) for i in ins): return None
        d = {}
        for i in ins:
            for k, v in totals_by_cas(i).items(): d[k] = d.get(k, 0.0) + v
        return {k: v for k, v in d.items() if v}

    def conserve(sid, s, opname, expect, rowwise=False):
        """contents after an operation whose numbers the model is TOLD (R) or computes: the property says the stream's
        material is untouched / copied / scaled by that operation, so check it on the real object"""
        if rowwise:
            got = mol_rows(s)
            ok = rows_close(got, expect)
        else:
            got = totals_by_cas(s)
            ok = set(got) == set(expect) and all(close(got[k], expect[k], RTOL, ATOL) for k in got)
        if not ok:
            fail(f'contents:{opname}', f'stream {sid}: after `{opname}` the molar contents are {got}, expected {expect}')

    def key_of(s, phsel, i):
        """(model ph token, model index, real key)"""
        n = len(s.chemicals)
        i = int(i) % n
        ID = s.chemicals.IDs[i]
        if is_multi(s):
            ph = s.phases[int(phsel) % len(s.phases)]
            return ph, i, (ph, ID)
        return '-', i, ID

    def sync_line(sid, s):
        return f'sync {sid} {frac(s.T)} {frac(s.P)} {"-" if is_multi(s) else s.phase} {mat(mol_rows(s))}'

    def vtok(s, need=True):
        return mat(fresh_V(s)) if need else '_'

    def indexer(s, dim):
        return s.imol if dim == 'mol' else s.imass if dim == 'mass' else s.ivol

    def mark_change(sid, kind):
        for k in range(len(w.streams)):
            w.last_struct[k] = kind
        if hist['viewread']: hist['change_after_read'] += 1
        w.last_set = None

    def check_mass(sid, s, rows):
        exp = [[m * float(mw) for m, mw in zip(r, s.chemicals.MW)] for r in mol_rows(s)]
        if not rows_close(rows, exp):
            sig = diagnose(w, s, 'mass', 'mass≠mol×MW')
            fail(sig, f'stream {sid}: imass.data = {rows} but mol×MW = {exp} (last change: {w.last_struct.get(sid)})')

    def check_vol(sid, s, rows):
        V = fresh_V(s)
        exp = [[m * v for m, v in zip(r, vr)] for r, vr in zip(mol_rows(s), V)]
        if not rows_close(rows, exp):
            sig = diagnose(w, s, 'vol', 'vol≠mol×V')
            fail(sig, f'stream {sid}: ivol.data = {rows} but mol×V(phase,T,P) = {exp} '
                      f'(phase(s) {phases_of(s)}, T={s.T}, P={s.P}; last change: {w.last_struct.get(sid)})')

    def do(line):
        t = line.split(' ')
        op = t[0]
        n_before = len(model_in)
        ran.append((op, n_before))
        if op in RESTRUCTURING and w.streams and locked(w.streams[S(t[1])]):
            return      # the indexer of a phase view: only its parent re-attaches it (model: Precondition)
        if op == 'view':
            sid = S(t[1]); s = w.streams[sid]
            if not is_multi(s): return
            c = s.phases[int(t[2]) % len(s.phases)]
            v = s[c]
            emit(f'view {sid} {c}', f'ok {reg(v)}')
        elif op in ('proxy', 'flowproxy'):
            sid = S(t[1]); s = w.streams[sid]
            if len(w.streams) >= 8: return
            v = s.proxy() if op == 'proxy' else s.flow_proxy()
            emit(f'{op} {sid}', f'ok {reg(v)}')
        elif op == 'new1':
            th, ph, T, P = int(t[1]), t[2], float(t[3]), float(t[4])
            thermo = THERMOS[th]
            n = len(thermo.chemicals)
            fl = [float(x) for x in t[5].split(',')]
            fl = (fl * n)[:n]
            s = tmo.Stream(None, flow=fl, phase=ph, T=T, P=P, thermo=thermo)
            w.streams.append(s)
            emit(f'new1 {th} {ph} {frac(T)} {frac(P)} {mat([fl])}', f'ok {len(w.streams) - 1}')
        elif op == 'newm':
            th, phs, T, P = int(t[1]), t[2], float(t[3]), float(t[4])
            thermo = THERMOS[th]
            n = len(thermo.chemicals)
            phs = ''.join(sorted(set(phs)))
            rows = [[float(x) for x in r.split(',')] for r in t[5].split('|')]
            rows = [((rows[k % len(rows)]) * n)[:n] for k in range(len(phs))]
            s = tmo.MultiStream(None, flow=[list(r) for r in rows], phases=tuple(phs), T=T, P=P, thermo=thermo)
            assert ''.join(s.phases) == phs
            w.streams.append(s)
            emit(f'newm {th} {phs} {frac(T)} {frac(P)} {mat(rows)}', f'ok {len(w.streams) - 1}')
        elif op in ('setT', 'setP'):
            sid = S(t[1]); s = w.streams[sid]; x = float(t[2])
            if op == 'setT': s.T = x
            else: s.P = x
            mark_change(sid, op)
            emit(f'{op} {sid} {frac(x)}', 'ok')
        elif op == 'setphase':
            sid = S(t[1]); s = w.streams[sid]; c = t[2]
            tb = totals_by_cas(s)
            s.phase = c
            mark_change(sid, op)
            emit(f'setphase {sid} {c} {mat(mol_rows(s))}', shape_ans(s))
            conserve(sid, s, op, tb)
        elif op == 'setphases':
            sid = S(t[1]); s = w.streams[sid]; ps = ''.join(sorted(set(t[2])))
            tb = totals_by_cas(s)
            try:
                s.phases = tuple(ps)
            except tmo.exceptions.UndefinedPhase:
                # a non-empty phase cannot be re-filed: rejected before anything is rebound
                emit(f'setphases {sid} {ps} {mat(mol_rows(s))}', 'err UndefinedPhase')
                return
            mark_change(sid, op)
            emit(f'setphases {sid} {ps} {mat(mol_rows(s))}', shape_ans(s))
            conserve(sid, s, op, tb)
        elif op == 'link':
            sid, oid = S(t[1]), S(t[2]); s, o = w.streams[sid], w.streams[oid]
            fl, ph, tp = t[3] == '1', t[4] == '1', t[5] == '1'
            if is_multi(s) == is_multi(o) and fl:
                if s.chemicals is not o.chemicals: return
                if is_multi(s) and tuple(s.phases) != tuple(o.phases): return
            try:
                s.link_with(o, flow=fl, phase=ph, TP=tp)
                ans = 'ok'
            except RuntimeError:
                ans = 'err ClassMismatch'
            mark_change(sid, 'link')
            emit(f'link {sid} {oid} {int(fl)} {int(ph)} {int(tp)}', ans)
        elif op == 'unlink':
            sid = S(t[1]); s = w.streams[sid]
            s.unlink()
            mark_change(sid, 'unlink')
            emit(f'unlink {sid}', 'ok')
        elif op == 'copylike':
            sid, oid = S(t[1]), S(t[2]); s, o = w.streams[sid], w.streams[oid]
            if s is not o:
                if is_multi(o) and len(o.phases) < 2: return
                if is_multi(s) and w.shared_data(s): return
                if s.chemicals is not o.chemicals:
                    have = set(s.chemicals.CASs)
                    for r in mol_rows(o):
                        if any(x and cas not in have for x, cas in zip(r, o.chemicals.CASs)): return
            s.copy_like(o)
            conserve(sid, s, 'copylike', totals_by_cas(o))
            mark_change(sid, 'copylike')
            emit(f'copylike {sid} {oid} {mat(mol_rows(s))}', shape_ans(s))
        elif op == 'thermo':
            sid = S(t[1]); s = w.streams[sid]; k = int(t[2]) % len(THERMOS)
            new = THERMOS[k]
            have = set(new.chemicals.CASs)
            for r in mol_rows(s):
                if any(x and cas not in have for x, cas in zip(r, s.chemicals.CASs)): return
            if new is not s.thermo and ix_shared(s): return     # a proxy would keep its old package
            tb = totals_by_cas(s)
            s._reset_thermo(new)
            conserve(sid, s, 'thermo', tb)
            mark_change(sid, 'thermo')
            emit(f'thermo {sid} {k} {mat(mol_rows(s))}', shape_ans(s))
        elif op == 'emptyneg':
            # Stream.empty_negative_flows(): negative molar flows are deleted in place; the cached views must still wrap the
            # stream's rows afterwards
            sid = S(t[1]); s = w.streams[sid]
            before = mol_rows(s)
            s.empty_negative_flows()
            mark_change(sid, op)
            emit(f'emptyneg {sid}', shape_ans(s))
            conserve(sid, s, op, [[x if x > 0 else 0.0 for x in r] for r in before], rowwise=True)
        elif op in ('scale', 'empty', 'react'):
            sid = S(t[1]); s = w.streams[sid]
            before = mol_rows(s)
            if op == 'scale':
                q = float(t[2]); s.scale(q)
                mark_change(sid, op)
                emit(f'scale {sid} {frac(q)}', shape_ans(s))
                conserve(sid, s, op, [[x * q for x in r] for r in before], rowwise=True)
                return
            if op == 'empty':
                s.empty()
                mark_change(sid, op)
                emit(f'empty {sid}', shape_ans(s))
                conserve(sid, s, op, [[0.0 for _ in r] for r in before], rowwise=True)
                return
            if s.thermo is THERMOS[2]: return          # the reaction's chemicals are not in this package
            if is_multi(s) and tuple(s.phases) != ('g', 'l'): return
            rxn = RXNS[('m' if is_multi(s) else '1') + ('wt' if t[2] == 'wt' else 'mol')]
            rxn(s)
            if np.shape(s.imol.data)[-1] != len(s.chemicals.IDs):
                emit(sync_line(sid, s), shape_ans(s))
                fail('reset_chemicals:container-not-rebound',
                     f'stream {sid}: after a reaction defined on another property package imol.data has '
                     f'{np.shape(s.imol.data)[-1]} columns for {len(s.chemicals.IDs)} chemicals '
                     f'(MaterialIndexer.reset_chemicals(chemicals, container) never rebinds data / _data_cache)')
                raise Stop()
            mark_change(sid, op)
            emit(sync_line(sid, s), shape_ans(s))
        elif op == 'mix':
            sid, a, b = S(t[1]), S(t[2]), S(t[3]); s = w.streams[sid]
            ins = [w.streams[a], w.streams[b]]
            if a == b or sid in (a, b): return
            if any(i.isempty() for i in ins): return               # other code paths (copy_flow / empty)
            if any(i.chemicals is not s.chemicals for i in ins): return
            if is_multi(s):
                others = ''.join(sorted({ph for i in ins for ph in phases_of(i)}))
                if any(ph not in s._imol._phase_indexer for ph in others) and w.shared_data(s): return
                exp = mix_expect(s, ins)
                s.mix_from(ins, energy_balance=False)
                mark_change(sid, 'mix')
                emit(f'mixinto {sid} {others} {frac(s.P)} {mat(mol_rows(s))}', shape_ans(s))
                if exp is not None: conserve(sid, s, 'mix', exp)
            else:
                exp = mix_expect(s, ins)
                s.mix_from(ins, energy_balance=False)
                mark_change(sid, 'mix')
                emit(sync_line(sid, s), shape_ans(s))
                if exp is not None: conserve(sid, s, 'mix', exp)
        elif op == 'rdmol':
            sid = S(t[1]); s = w.streams[sid]
            emit(f'rdmol {sid}', f'm - {mat(mol_rows(s), fbits)}')
        elif op == 'rdmass':
            sid = S(t[1]); s = w.streams[sid]
            pend(sid, 'mass', f'rdmass {sid}')
            v = s.imass
            rows = dense_rows(v.data)
            emit(f'rdmass {sid}', f'm {w.vnum(v)} {mat(rows, fbits)}')
            check_mass(sid, s, rows)
            note_view_read()
        elif op == 'rdvol':
            sid = S(t[1]); s = w.streams[sid]
            V = vtok(s)
            pend(sid, 'vol', f'rdvol {sid} {V}')
            v = s.ivol
            rows = dense_rows(v.data)
            emit(f'rdvol {sid} {V}', f'm {w.vnum(v)} {mat(rows, fbits)}')
            check_vol(sid, s, rows)
            note_view_read()
        elif op == 'rdF':
            sid = S(t[1]); s = w.streams[sid]; dim = t[2]
            x = float(getattr(s, 'F_' + dim))
            emit(f'rdF {sid} {dim} {vtok(s, dim == "vol")}', f'x - {fbits(x)}')
            mol = mol_rows(s)
            if dim == 'mol': exp = sum(sum(r) for r in mol)
            elif dim == 'mass': exp = sum(m * float(mw) for r in mol for m, mw in zip(r, s.chemicals.MW))
            else: exp = sum(m * v for r, vr in zip(mol, fresh_V(s)) for m, v in zip(r, vr))
            if not close(x, exp, RTOL, ATOL):
                fail(f'F_{dim}≠sum', f'stream {sid}: F_{dim} = {x!r} but the sum over chemicals and phases is {exp!r}')
        elif op == 'wrF':
            sid = S(t[1]); s = w.streams[sid]; dim = t[2]; x = float(t[3])
            V = vtok(s, dim == 'vol')
            z0, F0 = composition(s)
            try:
                setattr(s, 'F_' + dim, x)
                ans = 'ok'
            except AttributeError:
                ans = 'err UndefinedComposition'
            emit(f'wrF {sid} {dim} {frac(x)} {V}', ans)
            w.last_set = None
            if ans == 'ok': check_total_set(sid, s, dim, x, 1.0, z0, F0, f'F_{dim} setter')
        elif op in ('get', 'put'):
            sid = S(t[1]); s = w.streams[sid]; dim = t[2]
            ph, i, key = key_of(s, t[3], t[4])
            V = vtok(s, dim == 'vol')
            pend(sid, dim, f'get {sid} {dim} {ph} {i} {V}' if op == 'get' else f'put {sid} {dim} {ph} {i} {frac(float(t[5]))} {V}')
            ix = indexer(s, dim)
            vt = '-' if dim == 'mol' else w.vnum(ix)
            if op == 'get':
                x = float(ix[key])
                emit(f'get {sid} {dim} {ph} {i} {V}', f'x {vt} {fbits(x)}')
                check_elem(sid, s, dim, ph, i, x, 1.0)
                if dim != 'mol': note_view_read()
            else:
                x = float(t[5])
                ix[key] = x
                emit(f'put {sid} {dim} {ph} {i} {frac(x)} {V}', f'w {vt}')
                w.last_set = None
                back = float(indexer(s, dim)[key]) if dim == 'mol' else None
        elif op == 'assign':
            # whole-row assignment through a view: <receiver> <dim> <source> <mode view|copylike|arr> <phsel> <src phsel>
            sid, oid = S(t[1]), S(t[3]); s, o = w.streams[sid], w.streams[oid]
            dim, mode = t[2], t[4]
            if s.chemicals is not o.chemicals: return
            # the source: another stream's view (row) or its dense image
            if is_multi(o):
                pho = o.phases[int(t[6]) % len(o.phases)]
                src = indexer(o, dim)[pho] if dim != 'mol' else o.imol[pho]
            else:
                src = indexer(o, dim).data
            if is_multi(s):
                ph = s.phases[int(t[5]) % len(s.phases)]; k = list(s.phases).index(ph)
                tgt, tgt_mol = indexer(s, dim).data.rows[k], s.imol.data.rows[k]
            else:
                ph = '-'; k = 0
                tgt, tgt_mol = indexer(s, dim).data, s.imol.data
            src_mol = (o.imol.data.rows[list(o.phases).index(pho)] if is_multi(o) else o.imol.data)
            if src is not tgt and src_mol.dct is tgt_mol.dct and mode != 'arr' and not ALLOW_ALIASED_ASSIGN:
                return
            xs = [float(x) for x in np.asarray(src.to_array() if hasattr(src, 'to_array') else src, dtype=float)]
            value = np.array(xs) if mode == 'arr' else src
            V = vtok(s, dim == 'vol')
            pend(sid, dim, f'putrow {sid} {dim} {ph} {mat([xs])} {V}')
            ix = indexer(s, dim)
            if is_multi(s):
                ix[ph] = value
            elif mode == 'copylike' and mode != 'arr':
                ix.data.copy_like(value)
            else:
                setattr(s, dim, value)            # s.mol / s.mass / s.vol = value
            vt = '-' if dim == 'mol' else w.vnum(indexer(s, dim))
            emit(f'putrow {sid} {dim} {ph} {mat([xs])} {V}', f'w {vt}')
            w.last_set = None
            mark_change(sid, 'assign')
            # oracle: what was written reads back, and mol = value / factor at the RECEIVER's conditions
            back = dense_rows(indexer(s, dim).data)[k]
            if not rows_close([back], [xs]):
                fail(f'assign:{dim}:readback', f'stream {sid}: assigned {xs} through the {dim} view '
                     f'({mode}, from stream {oid}) but the view reads back {back}')
            if dim != 'mol':
                fac = [float(m) for m in s.chemicals.MW] if dim == 'mass' else fresh_V(s)[k]
                exp = [x / f for x, f in zip(xs, fac)]
                got = mol_rows(s)[k]
                if not rows_close([got], [exp]):
                    fail(f'assign:{dim}:mol≠value/factor(receiver)',
                         f'stream {sid} (phase(s) {phases_of(s)}, T={s.T}, P={s.P}): assigned {dim} flows {xs} '
                         f'({mode}, from stream {oid} at phase(s) {phases_of(o)}, T={o.T}, P={o.P}); molar flows are {got}, '
                         f'expected value/factor at the receiver\'s conditions = {exp}')
        elif op in ('getdata', 'setdata'):
            # imol / imass / ivol .get_data(units, key) / .set_data(x, units, key)
            sid = S(t[1]); s = w.streams[sid]; dim = t[2]; u = t[3]
            ph, i, key = key_of(s, t[4], t[5])
            udim = UNIT_DIM[u]
            V = vtok(s, dim == 'vol')
            before = mol_rows(s)
            x = float(t[6]) if op == 'setdata' else None
            ml = f'getdata {sid} {dim} {u} {ph} {i} {V}' if op == 'getdata' else f'setdata {sid} {dim} {u} {ph} {i} {frac(x)} {V}'
            pend(sid, dim, ml)
            ix = indexer(s, dim)
            try:
                if op == 'getdata': x = float(ix.get_data(u, key))
                else: ix.set_data(x, u, key)
                err = None
            except DIM_ERRORS:
                err = 'err DimensionError'
            view_guard(sid, s, f'i{dim}.{"get" if op == "getdata" else "set"}_data', dim, u, err, before, x)
            vt = '-' if dim == 'mol' or err else w.vnum(indexer(s, dim))
            if op == 'getdata':
                emit(ml, err or f'x {vt} {fbits(x)}')
                if err is None and udim == dim:
                    check_elem(sid, s, dim, ph, i, x, UNIT_FACTOR[u])
                    ls = w.last_set
                    if ls and ls[0] == 'flow' and ls[1:4] == (sid, ph, i) and UNIT_DIM[ls[4]] == dim:
                        exp = ls[5] * CONV[ls[4], u]
                        if not close(x, exp, RTOL, ATOL):
                            fail(f'roundtrip:get_data:{dim}', f'stream {sid}: a flow of {ls[5]!r} {ls[4]} written, '
                                 f'i{dim}.get_data({u!r}) gives {x!r}, expected {exp!r}')
                    if dim != 'mol': note_view_read()
            else:
                emit(ml, err or f'w {vt}')
                w.last_set = ('flow', sid, ph, i, u, x) if err is None and udim == dim else None
        elif op in ('getdataall', 'setdataall'):
            # imol/imass/ivol .get_data(units) / .set_data(array, units) without an index
            sid = S(t[1]); s = w.streams[sid]; dim = t[2]; u = t[3]
            udim = UNIT_DIM[u]
            before = mol_rows(s)
            ix = indexer(s, dim)
            if udim != dim:
                try:
                    (ix.get_data(u) if op == 'getdataall' else ix.set_data(np.ones(len(s.chemicals.IDs)), u)); err = None
                except DIM_ERRORS:
                    err = 'err DimensionError'
                view_guard(sid, s, f'i{dim}.{"get" if op == "getdataall" else "set"}_data (no index)', dim, u, err, before, None)
                emit(f'unitfor {dim} {u}', err or 'accepted')
                return
            f = UNIT_FACTOR[u]
            V = vtok(s, dim == 'vol')
            if op == 'getdataall':
                ml = {'mol': f'rdmol {sid}', 'mass': f'rdmass {sid}', 'vol': f'rdvol {sid} {V}'}[dim]
                pend(sid, dim, ml)
                val = ix.get_data(u)
                rows = dense_rows(val)
                vt = '-' if dim == 'mol' else w.vnum(indexer(s, dim))
                emit(ml, f'm {vt} {mat([[x / f for x in r] for r in rows], fbits)}')
                mol = mol_rows(s)
                fac = ([[float(m) for m in s.chemicals.MW]] * len(mol) if dim == 'mass' else fresh_V(s) if dim == 'vol'
                       else [[1.0] * len(mol[0])] * len(mol))
                exp = [[m * a * f for m, a in zip(r, fr)] for r, fr in zip(mol, fac)]
                if not rows_close(rows, exp):
                    fail(f'get_data(all):{dim}', f'stream {sid}: i{dim}.get_data({u!r}) = {rows}, expected {exp}')
                if dim != 'mol': note_view_read()
            else:
                if is_multi(s): return
                xs = [float(x) for x in t[4].split(',')]; n = len(s.chemicals.IDs); xs = (xs * n)[:n]
                base = [x / f for x in xs]
                ml = f'putrow {sid} {dim} - {mat([base])} {V}'
                pend(sid, dim, ml)
                ix.set_data(np.array(xs), u)
                vt = '-' if dim == 'mol' else w.vnum(indexer(s, dim))
                emit(ml, f'w {vt}')
                w.last_set = None
                mark_change(sid, 'set_data')
                back = [float(v) for v in np.asarray(dense_rows(indexer(s, dim).get_data(u))[0])]
                if not rows_close([back], [xs]):
                    fail(f'roundtrip:set_data(all):{dim}', f'stream {sid}: i{dim}.set_data({xs}, {u!r}) reads back {back}')
        elif op in ('getprop', 'setprop'):
            # get_property('F_<dim>', units) / set_property('F_<dim>', x, units)
            sid = S(t[1]); s = w.streams[sid]; dim = t[2]; u = t[3]
            udim = UNIT_DIM[u]
            V = vtok(s, dim == 'vol')
            before = mol_rows(s)
            z0, F0 = composition(s)
            x = float(t[4]) if op == 'setprop' else None
            ml = f'getprop {sid} {dim} {u} {V}' if op == 'getprop' else f'setprop {sid} {dim} {u} {frac(x)} {V}'
            try:
                if op == 'getprop': x = float(s.get_property('F_' + dim, u))
                else: s.set_property('F_' + dim, x, u)
                err = None
            except DIM_ERRORS:
                err = 'err DimensionError'
            except AttributeError:
                err = 'err UndefinedComposition'
            view_guard(sid, s, f'{"get" if op == "getprop" else "set"}_property(F_{dim})', dim, u, err, before, x)
            if op == 'getprop':
                emit(ml, err or f'x - {fbits(x)}')
                if err is None and udim == dim:
                    exp = float(getattr(s, 'F_' + dim)) * UNIT_FACTOR[u]
                    if not close(x, exp, RTOL, ATOL):
                        fail(f'get_property:F_{dim}', f'stream {sid}: get_property(F_{dim}, {u!r}) = {x!r}, expected {exp!r}')
            else:
                emit(ml, err or 'ok')
                w.last_set = None
                if err is None and udim == dim:
                    check_total_set(sid, s, dim, x, UNIT_FACTOR[u], z0, F0, f'set_property(F_{dim}, {u!r})')
        elif op == 'ctor':
            # {Chemical,}{Molar,Mass,Volumetric}FlowIndexer(…, units=u, …=1): data = 1 / factor
            dim, u = t[1], t[2]
            material = len(t) > 3 and t[3] == 'm'
            chems = THERMOS[0].chemicals
            if material:
                cls = {'mol': tmo.indexer.MolarFlowIndexer, 'mass': tmo.indexer.MassFlowIndexer,
                       'vol': tmo.indexer.VolumetricFlowIndexer}[dim]
                build = lambda: cls(units=u, chemicals=chems, l=[(chems.IDs[0], 1.)], g=[(chems.IDs[1], 1.)])
                first = lambda ix: float(np.asarray(ix.data.to_array())[ix._phase_indexer('l'), 0])
            else:
                cls = {'mol': tmo.indexer.ChemicalMolarFlowIndexer, 'mass': tmo.indexer.ChemicalMassFlowIndexer,
                       'vol': tmo.indexer.ChemicalVolumetricFlowIndexer}[dim]
                build = lambda: cls(phase='l', units=u, chemicals=chems, **{chems.IDs[0]: 1.})
                first = lambda ix: float(ix.data[0])
            try:
                val = first(build()); err = None
            except DIM_ERRORS:
                err = 'err DimensionError'
            except TypeError as e:
                # fixes_proposed/C11-8: MaterialIndexer.__new__ passes the last phase's value tuple to set_data
                emit(f'unitfor {dim} {u}', 'raised TypeError')
                fail('material-indexer-ctor-units:TypeError', f'{cls.__name__}(l=[…], g=[…], units={u!r}) raised TypeError: {e}')
                return
            if UNIT_DIM[u] != dim and err is None:
                fail('dimension_guard:view-units', f'{cls.__name__}(units={u!r}) was accepted although {u!r} is not a '
                     f'{dim} flow unit (data {val!r})')
            emit(f'unitfor {dim} {u}', err or f'x - {fbits(1. / val)}')
        elif op in ('newu1', 'newum'):
            # Stream(…, units=u, total_flow=…, **flows) / MultiStream(…, units=u, total_flow=…, **phase_flows): the model sees a
            # new empty stream followed by the set_flow / set_total_flow calls the constructor is documented to amount to
            th, T, P, u = int(t[1]), float(t[3]), float(t[4]), t[5]
            TOT = None if t[6] == '-' else float(t[6])
            thermo = THERMOS[th]; n = len(thermo.chemicals); IDs = thermo.chemicals.IDs
            dim = UNIT_DIM[u]
            if dim == 'other': return
            groups = []
            for g in t[7].split(';'):
                phsel, ii, xx = g.split(':')
                idx = sorted({int(x) % n for x in ii.split(',')})
                xs = [float(x) for x in xx.split(',')]; xs = (xs * len(idx))[:len(idx)]
                groups.append((int(phsel), idx, xs))
            if op == 'newu1':
                ph = t[2][0]
                idx, xs = groups[0][1], groups[0][2]
                s = tmo.Stream(None, phase=ph, T=T, P=P, units=u, total_flow=TOT, thermo=thermo,
                               **{IDs[i]: x for i, x in zip(idx, xs)})
                kw = {'-': (idx, xs)}
                w.streams.append(s); sid = len(w.streams) - 1
                emit(f'new1 {th} {ph} {frac(T)} {frac(P)} {mat([[0.0] * n])}', f'ok {sid}')
            else:
                phs = ''.join(sorted(set(t[2])))
                if len(phs) < 2: return
                seen, kw = set(), {}
                for phsel, idx, xs in groups:
                    p_ = phs[phsel % len(phs)]
                    if p_ not in seen: seen.add(p_); kw[p_] = (idx, xs)
                s = tmo.MultiStream(None, phases=tuple(phs), T=T, P=P, units=u, total_flow=TOT, thermo=thermo,
                                    **{p_: [(IDs[i], x) for i, x in zip(idx, xs)] for p_, (idx, xs) in kw.items()})
                w.streams.append(s); sid = len(w.streams) - 1
                emit(f'newm {th} {phs} {frac(T)} {frac(P)} {mat([[0.0] * n for _ in phs])}', f'ok {sid}')
            V = vtok(s, dim == 'vol')
            vt = w.vnum(indexer(s, dim)) if dim != 'mol' else '-'
            for p_, (idx, xs) in kw.items():
                for i, x in zip(idx, xs):
                    emit(f'setflow {sid} {u} {p_} {i} {frac(x)} {V}', f'w {vt}')
            if TOT: emit(f'settotal {sid} {u} {frac(TOT)} {V}', 'ok')
            # oracle: the stream reads back, in the units of the constructor, what the constructor was given
            tot_given = sum(sum(xs) for _, xs in kw.values())
            scale = (TOT / tot_given) if (TOT and tot_given) else 1.0
            for p_, (idx, xs) in kw.items():
                key = tuple(IDs[i] for i in idx) if p_ == '-' else (p_, tuple(IDs[i] for i in idx))
                back = [float(v) for v in np.asarray(s.get_flow(u, key), dtype=float).ravel()]
                exp = [x * scale for x in xs]
                if not rows_close([back], [exp]):
                    fail('ctor-units:readback', f'{type(s).__name__}(units={u!r}, total_flow={TOT}, {p_}: {xs}) reads back {back} '
                         f'in {u}, expected {exp}')
            got = float(s.get_total_flow(u)); exp_t = TOT if TOT else tot_given
            if not close(got, exp_t, RTOL, 1e-9):
                fail('ctor-units:total', f'{type(s).__name__}(units={u!r}, total_flow={TOT}) has a total of {got!r} {u}, expected {exp_t!r}')
        elif op == 'copy':
            # Stream.copy() / Stream.copy(thermo=other): nothing is shared with the original
            sid = S(t[1]); s = w.streams[sid]
            if len(w.streams) >= 9: return
            k = int(t[2]) % len(THERMOS) if t[2] != '-' else THERMOS.index(s.thermo)
            new = THERMOS[k]
            if new is not s.thermo:
                have = set(new.chemicals.CASs)
                for r in mol_rows(s):
                    if any(x and cas not in have for x, cas in zip(r, s.chemicals.CASs)): return
            c = s.copy(thermo=new) if new is not s.thermo else s.copy()
            cid = reg(c)
            emit(f'copy {sid} {k} {mat(mol_rows(c))}', f'ok {cid}')
            conserve(cid, c, 'copy', totals_by_cas(s))
            if c._imol is s._imol or c._imol.data is s._imol.data or c._imol._data_cache is s._imol._data_cache \
                    or c._thermal_condition is s._thermal_condition:
                fail('copy-shares-state', f'stream {sid}: copy() shares the indexer, data, view cache or thermal condition '
                     f'with the original')
        elif op == 'resetflow':
            # Stream.reset_flow(phase=, units=, total_flow=, **flows) / MultiStream.reset_flow(total_flow=, units=, phases=,
            # **phase_flows): ONE call on the real object; the model sees the calls it is documented to be made of
            # (empty, phase(s) setter, set_flow of the given flows, set_total_flow)
            sid = S(t[1]); s = w.streams[sid]
            PH, U, TOT = t[2], t[3], t[4]
            U = None if U == '-' else U
            TOT = None if TOT == '-' else float(TOT)
            if U is not None and UNIT_DIM[U] == 'other': return
            n = len(s.chemicals.IDs)
            groups = []
            for g in (t[5].split(';') if len(t) > 5 and t[5] != '-' else []):
                phsel, ii, xx = g.split(':')
                idx = sorted({int(x) % n for x in ii.split(',')})
                xs = [float(x) for x in xx.split(',')]; xs = (xs * len(idx))[:len(idx)]
                groups.append((int(phsel), idx, xs))
            dim = UNIT_DIM[U] if U else 'mol'
            multi = is_multi(s)
            if multi:
                if U is None: return                      # MultiStream.reset_flow needs units for its set_flow calls
                seen, kw = set(), {}
                if PH != '-':
                    newph = ''.join(sorted(set(PH)))
                    if len(newph) < 2: return
                    for phsel, idx, xs in groups:
                        ph = newph[phsel % len(newph)]
                        if ph not in seen: seen.add(ph); kw[ph] = (idx, xs)
                else:
                    for phsel, idx, xs in groups:
                        ph = s.phases[phsel % len(s.phases)]
                        if ph not in seen: seen.add(ph); kw[ph] = (idx, xs)
                    newph = ''.join(sorted(set('lg') | set(kw)))     # phases=None: set(phase_flows) ∪ {'l', 'g'}
                old_shape = shape_ans(s)
                call = lambda: s.reset_flow(total_flow=TOT, units=U, phases=(tuple(newph) if PH != '-' else None),
                                            **{ph: [(s.chemicals.IDs[i], x) for i, x in zip(idx, xs)] for ph, (idx, xs) in kw.items()})
            else:
                if PH != '-': PH = PH[0]
                if locked(s) and PH != '-': return      # the phase of a phase view is its parent's business
                groups = groups[:1]
                kw = {'-': (groups[0][1], groups[0][2])} if groups else {}
                old_shape = shape_ans(s)
                call = lambda: s.reset_flow(phase=(PH if PH != '-' else None), units=U, total_flow=TOT,
                                            **({s.chemicals.IDs[i]: x for i, x in zip(*kw['-'])} if kw else {}))
            try:
                call(); err = None
            except AttributeError:
                err = 'err UndefinedComposition'
            mark_change(sid, 'reset_flow')
            # the equivalent model lines (molar volumes at the phase the stream has now)
            emit(f'empty {sid}', old_shape)
            if multi:
                emit(f'setphases {sid} {newph} {mat([[0.0] * n for _ in newph])}', f'ok 1 {newph}')
            elif PH != '-':
                emit(f'setphase {sid} {PH} _', f'ok 0 {PH}')
            V = vtok(s, dim == 'vol')
            vt = w.vnum(indexer(s, dim)) if (kw and dim != 'mol') else '-'     # only set_flow goes through a view
            for ph, (idx, xs) in kw.items():
                for i, x in zip(idx, xs):
                    if U: emit(f'setflow {sid} {U} {ph} {i} {frac(x)} {V}', f'w {vt}')
                    else: emit(f'put {sid} mol {ph} {i} {frac(x)} _', 'w -')
            if TOT:
                if U: emit(f'settotal {sid} {U} {frac(TOT)} {V}', err or 'ok')
                else: emit(f'wrF {sid} mol {frac(TOT)} _', err or 'ok')
            w.last_set = None
            # oracle: what reset_flow was given reads back, in the units it was given, at the phase it was given
            if err is None:
                if not multi and PH != '-' and s.phase != PH:
                    fail('reset_flow:phase', f'stream {sid}: reset_flow(phase={PH!r}) left the phase {s.phase!r}')
                uu = U or 'kmol/hr'
                given = {}
                for ph, (idx, xs) in kw.items():
                    key = tuple(s.chemicals.IDs[i] for i in idx) if ph == '-' else (ph, tuple(s.chemicals.IDs[i] for i in idx))
                    back = [float(v) for v in np.asarray(s.get_flow(uu, key), dtype=float).ravel()]
                    given[ph] = (xs, back)
                tot_given = sum(sum(xs) for xs, _ in given.values())
                scale = (TOT / tot_given) if (TOT and tot_given) else 1.0
                for ph, (xs, back) in given.items():
                    exp = [x * scale for x in xs]
                    if not rows_close([back], [exp]):
                        fail('reset_flow:readback', f'stream {sid}: reset_flow(phase/phases={PH}, units={U}, total_flow={TOT}, '
                             f'{ph}: {xs}) reads back {back} in {uu}, expected {exp} (stream now at {phases_of(s)})')
                if TOT:
                    got = float(s.get_total_flow(uu))
                    if not close(got, TOT, RTOL, 1e-9):
                        fail('reset_flow:total', f'stream {sid}: reset_flow(total_flow={TOT}, units={U}) gives a total of {got!r}')
                total_all = float(s.get_total_flow(uu))
                exp_all = TOT if TOT else tot_given
                if not close(total_all, exp_all, RTOL, 1e-9):
                    fail('reset_flow:leftover', f'stream {sid}: after reset_flow the total in {uu} is {total_all!r}, the given flows '
                         f'sum to {exp_all!r} (something survived the reset)')
        elif op in ('getflow', 'setflow'):
            sid = S(t[1]); s = w.streams[sid]; u = t[2]
            ph, i, key = key_of(s, t[3], t[4])
            dim = UNIT_DIM[u]
            V = vtok(s, dim == 'vol')
            before = mol_rows(s)
            pend(sid, dim, f'getflow {sid} {u} {ph} {i} {V}' if op == 'getflow' else f'setflow {sid} {u} {ph} {i} {frac(float(t[5]))} {V}')
            try:
                if op == 'getflow':
                    x = float(s.get_flow(u, key))
                else:
                    x = float(t[5])
                    s.set_flow(x, u, key)
                err = None
            except tmo.exceptions.DimensionError:
                err = 'err DimensionError'
            if dim == 'other':
                if err is None:
                    fail('dimension_guard', f'{op}({u!r}) was accepted although {u!r} is not a molar, mass or volumetric flow unit')
                elif mol_rows(s) != before:
                    fail('dimension_guard', f'{op}({u!r}) was rejected but changed the flows')
            vt = '-' if dim in ('mol', 'other') else w.vnum(indexer(s, dim))
            if op == 'getflow':
                emit(f'getflow {sid} {u} {ph} {i} {V}', err or f'x {vt} {fbits(x)}')
                if err is None and dim != 'other':
                    check_elem(sid, s, dim, ph, i, x, UNIT_FACTOR[u])
                    ls = w.last_set
                    if ls and ls[0] == 'flow' and ls[1:4] == (sid, ph, i) and UNIT_DIM[ls[4]] == dim:
                        exp = ls[5] * CONV[ls[4], u]
                        if not close(x, exp, RTOL, ATOL):
                            fail(f'roundtrip:get_flow:{dim}',
                                 f'stream {sid}: set_flow({ls[5]!r}, {ls[4]!r}) then get_flow({u!r}) gives {x!r}, expected {exp!r}')
                    if dim != 'mol': note_view_read()
            else:
                emit(f'setflow {sid} {u} {ph} {i} {frac(x)} {V}', err or f'w {vt}')
                w.last_set = ('flow', sid, ph, i, u, x) if err is None and dim != 'other' else None
        elif op in ('gettotal', 'settotal'):
            sid = S(t[1]); s = w.streams[sid]; u = t[2]
            dim = UNIT_DIM[u]
            V = vtok(s, dim == 'vol')
            before = mol_rows(s)
            z0, F0 = composition(s)
            try:
                if op == 'gettotal':
                    x = float(s.get_total_flow(u))
                else:
                    x = float(t[3])
                    s.set_total_flow(x, u)
                err = None
            except tmo.exceptions.DimensionError:
                err = 'err DimensionError'
            except AttributeError:
                err = 'err UndefinedComposition'
            if dim == 'other':
                if err != 'err DimensionError':
                    fail('dimension_guard', f'{op}({u!r}) was accepted although {u!r} is not a molar, mass or volumetric flow unit')
                elif mol_rows(s) != before:
                    fail('dimension_guard', f'{op}({u!r}) was rejected but changed the flows')
            if op == 'gettotal':
                emit(f'gettotal {sid} {u} {V}', err or f'x - {fbits(x)}')
                if err is None:
                    ls = w.last_set
                    if ls and ls[0] == 'total' and ls[1] == sid and UNIT_DIM[ls[4]] == dim:
                        exp = ls[5] * CONV[ls[4], u]
                        if not close(x, exp, RTOL, ATOL):
                            fail(f'roundtrip:get_total_flow:{dim}',
                                 f'stream {sid}: set_total_flow({ls[5]!r}, {ls[4]!r}) then get_total_flow({u!r}) gives {x!r}, expected {exp!r}')
            else:
                emit(f'settotal {sid} {u} {frac(x)} {V}', err or 'ok')
                w.last_set = None
                if err is None:
                    check_total_set(sid, s, dim, x, UNIT_FACTOR[u], z0, F0, f'set_total_flow({u!r})')
                    w.last_set = ('total', sid, None, None, u, x)
        elif op == 'rdagg':
            # the aggregate accessors stream.mol / stream.mass / stream.vol (per chemical, summed over the phases)
            sid = S(t[1]); s = w.streams[sid]; dim = t[2]
            V = vtok(s, dim == 'vol')
            pend(sid, dim, f'rdagg {sid} {dim} {V}')
            val = getattr(s, dim)
            row = [float(x) for x in np.asarray(val.to_array() if hasattr(val, 'to_array') else val, dtype=float).ravel()]
            uses_view = dim == 'vol' or (dim == 'mass' and not is_multi(s))
            vt = w.vnum(indexer(s, dim)) if uses_view else '-'
            emit(f'rdagg {sid} {dim} {V}', f'm {vt} {mat([row], fbits)}')
            mol = mol_rows(s)
            n = len(s.chemicals.IDs)
            col = [sum(r[i] for r in mol) for i in range(n)]
            if dim == 'mol': exp = col
            elif dim == 'mass': exp = [c * float(mw) for c, mw in zip(col, s.chemicals.MW)]
            else:
                Vm = fresh_V(s)
                exp = [sum(r[i] * vr[i] for r, vr in zip(mol, Vm)) for i in range(n)]
            if not rows_close([row], [exp]):
                fail(f'stream.{dim}≠per-chemical-sum', f'stream {sid} ({"multi" if is_multi(s) else "single"}-phase): '
                     f'stream.{dim} = {row} but the per-chemical sums over the phases of '
                     f'{"mol" if dim == "mol" else "mol×MW" if dim == "mass" else "mol×V(phase,T,P)"} are {exp}')
            if uses_view: note_view_read()
        elif op == 'getflowall':
            # get_flow(units) with the default key: every chemical (multi-phase: summed over the phases)
            sid = S(t[1]); s = w.streams[sid]; u = t[2]
            dim = UNIT_DIM[u]
            V = vtok(s, dim == 'vol')
            pend(sid, dim, f'getflowall {sid} {u} {V}')
            try:
                val = s.get_flow(u); err = None
            except tmo.exceptions.DimensionError:
                err = 'err DimensionError'
            if dim == 'other':
                if err is None: fail('dimension_guard', f'get_flow({u!r}) was accepted although {u!r} is not a flow unit')
                emit(f'getflowall {sid} {u} {V}', err or 'accepted')
            else:
                row = [float(x) for x in np.asarray(val.to_array() if hasattr(val, 'to_array') else val, dtype=float).ravel()]
                vt = '-' if dim == 'mol' else w.vnum(indexer(s, dim))
                emit(f'getflowall {sid} {u} {V}', f'm {vt} {mat([row], fbits)}')
                mol = mol_rows(s); n = len(s.chemicals.IDs)
                if dim == 'mol': exp = [sum(r[i] for r in mol) for i in range(n)]
                elif dim == 'mass': exp = [sum(r[i] for r in mol) * float(s.chemicals.MW[i]) for i in range(n)]
                else:
                    Vm = fresh_V(s); exp = [sum(r[i] * vr[i] for r, vr in zip(mol, Vm)) for i in range(n)]
                exp = [x * UNIT_FACTOR[u] for x in exp]
                if not rows_close([row], [exp]):
                    fail(f'get_flow(all):{dim}', f'stream {sid}: get_flow({u!r}) = {row}, expected {exp}')
                if dim != 'mol': note_view_read()
        elif op in ('getflowarr', 'setflowarr'):
            # get_flow(units, (ID, ID, …)) / set_flow([x, …], units, (ID, …)): one call on the real object; the model sees the
            # equivalent element-wise calls
            sid = S(t[1]); s = w.streams[sid]; u = t[2]
            dim = UNIT_DIM[u]
            if dim == 'other': return
            n = len(s.chemicals.IDs)
            idx = sorted({int(x) % n for x in t[4].split(',')})
            IDs = tuple(s.chemicals.IDs[i] for i in idx)
            if is_multi(s):
                ph = s.phases[int(t[3]) % len(s.phases)]; key = (ph, IDs)
            else:
                ph = '-'; key = IDs
            V = vtok(s, dim == 'vol')
            if op == 'getflowarr':
                pend(sid, dim, f'getflow {sid} {u} {ph} {idx[0]} {V}')
                vals = [float(x) for x in np.asarray(s.get_flow(u, key), dtype=float).ravel()]
                vt = '-' if dim == 'mol' else w.vnum(indexer(s, dim))
                for i, x in zip(idx, vals):
                    emit(f'getflow {sid} {u} {ph} {i} {V}', f'x {vt} {fbits(x)}')
                    check_elem(sid, s, dim, ph, i, x, UNIT_FACTOR[u])
                if len(vals) != len(idx):
                    fail(f'get_flow(array):{dim}', f'stream {sid}: get_flow({u!r}, {key}) returned {len(vals)} values')
            else:
                xs = [float(x) for x in t[5].split(',')]
                xs = (xs * len(idx))[:len(idx)]
                pend(sid, dim, f'setflow {sid} {u} {ph} {idx[0]} {frac(xs[0])} {V}')
                s.set_flow(xs, u, key)
                vt = '-' if dim == 'mol' else w.vnum(indexer(s, dim))
                for i, x in zip(idx, xs):
                    emit(f'setflow {sid} {u} {ph} {i} {frac(x)} {V}', f'w {vt}')
                w.last_set = None
                back = [float(v) for v in np.asarray(s.get_flow(u, key), dtype=float).ravel()]
                if not rows_close([back], [xs]):
                    fail(f'roundtrip:set_flow(array):{dim}', f'stream {sid}: set_flow({xs}, {u!r}, {key}) reads back {back}')
        elif op == 'obs':
            sid = S(t[1])
            for sub in (f'rdmol {sid}', f'rdmass {sid}', f'rdvol {sid}', f'rdF {sid} mol', f'rdF {sid} mass', f'rdF {sid} vol',
                        f'rdagg {sid} mol', f'rdagg {sid} mass', f'rdagg {sid} vol'):
                do(sub); tags.add(sub.split(' ')[0])
            s = w.streams[sid]
            Fm, Fv = float(s.F_mass), float(s.F_vol)
            sm = float(sum(sum(r) for r in dense_rows(s.imass.data)))
            sv = float(sum(sum(r) for r in dense_rows(s.ivol.data)))
            if not close(Fm, sm, RTOL, ATOL):
                fail('F_mass≠sum(mass view)', f'stream {sid}: F_mass = {Fm!r}, imass.data.sum() = {sm!r}')
            if not close(Fv, sv, RTOL, ATOL):
                fail('F_vol≠sum(vol view)', f'stream {sid}: F_vol = {Fv!r}, ivol.data.sum() = {sv!r} '
                                            f'(phase(s) {phases_of(s)}, last change: {w.last_struct.get(sid)})')
            # reductions of the views (SparseVector/SparseArray.sum, .max, .any go through DictionaryView.values)
            for dim, F in (('mass', Fm), ('vol', Fv)):
                data = indexer(s, dim).data
                rows = dense_rows(data)
                red_sum, red_max, red_any = float(data.sum()), float(data.max()), bool(data.any())
                flat = [x for r in rows for x in r]
                if not close(red_sum, F, RTOL, ATOL) or not close(red_max, max(flat), RTOL, ATOL) \
                        or red_any != any(x != 0 for x in flat):
                    fail(f'view-reduction:{dim}', f'stream {sid}: i{dim}.data.sum()/.max()/.any() = {red_sum!r}/{red_max!r}/'
                         f'{red_any} but F_{dim} = {F!r}, elementwise max {max(flat)!r}')
                if not is_multi(s):
                    agg = float(getattr(s, dim).sum())
                    if not close(agg, F, RTOL, ATOL):
                        fail(f'view-reduction:{dim}', f'stream {sid}: stream.{dim}.sum() = {agg!r} but F_{dim} = {F!r}')
        else:
            raise ValueError('unknown op ' + line)

    def note_view_read():
        if hist['change_after_read']: hist['read_after_change'] += 1
        hist['viewread'] += 1

    def composition(s):
        mol = mol_rows(s)
        F = sum(sum(r) for r in mol)
        return ([[x / F for x in r] for r in mol] if F else None), F

    def check_elem(sid, s, dim, ph, i, x, factor):
        """one element read through a view, against mol × MW / mol × V recomputed from the chemicals"""
        mol = mol_rows(s)
        k = 0 if ph == '-' else list(s.phases).index(ph)
        m = mol[k][i]
        if dim == 'mol': exp = m
        elif dim == 'mass': exp = m * float(s.chemicals.MW[i])
        else: exp = m * fresh_V(s)[k][i]
        exp *= factor
        if not close(x, exp, RTOL, ATOL):
            if dim == 'mol':
                sig = 'mol-read'
            else:
                sig = diagnose(w, s, dim, 'mass≠mol×MW' if dim == 'mass' else 'vol≠mol×V')
            fail(sig, f'stream {sid}: {dim} flow of chemical {i} (phase {ph}) reads {x!r}, expected {exp!r} '
                      f'(last change: {w.last_struct.get(sid)})')

    def check_total_set(sid, s, dim, x, factor, z0, F0, what):
        z1, F1 = composition(s)
        got = float(getattr(s, 'F_' + dim)) * factor
        if not close(got, x, RTOL, 1e-9):
            fail('set_total:readback', f'stream {sid}: {what} = {x!r} but the total reads back as {got!r}')
        if z0 is not None and z1 is not None and not rows_close(z0, z1):
            fail('set_total:composition', f'stream {sid}: {what} changed the composition from {z0} to {z1}')

    try:
        for line in ops:
            pending[0] = None
            try:
                n0 = len(model_in)
                do(line)
                if len(model_in) > n0: tags.add(line.split(' ')[0])       # tags count operations that really ran
                check_views_attached(line.split(' ')[0])
            except Stop:
                raise
            except Exception as e:
                # an operation the property says must work raised: the case cannot continue
                name = type(e).__name__
                if pending[0] is not None:
                    sid, dim, ml = pending[0]
                    emit(ml, f'raised {name}')
                    sig = diagnose(w, w.streams[sid], dim, f'raises:{line.split(" ")[0]}:{name}') if dim in ('mass', 'vol') \
                        else f'raises:{line.split(" ")[0]}:{name}'
                else:
                    sig = f'raises:{line.split(" ")[0]}:{name}'
                fail(sig, f'`{line}` raised {name}: {str(e)[:200]}')
                raise Stop()
    except Stop:
        pass
    nontrivial = hist['read_after_change'] > 0
    return model_in, outs, failures, sorted(tags), nontrivial


def run_impl(case: Case) -> ImplResult:
    try:
        model_in, outs, failures, tags, nontrivial = run_ops(case.ops)
    except Stop:
        raise
    tags = tags + sorted({'ans:' + (o if o.startswith(('err', 'raised')) else o.split(' ')[0]) for o in outs})
    if case.meta.get('kind'): tags.append('kind:' + case.meta['kind'])
    if case.meta.get('grid'): tags.append('grid:' + case.meta['grid'])
    return ImplResult(model_in=model_in, outs=outs, failures=failures, tags=tags,
                      nontrivial=(tuple(case.ops) if nontrivial else None))


def _cmp_num(a, b):
    try:
        return close(from_fbits(a), from_fbits(b), RTOL, ATOL)
    except Exception:
        return False


def compare(impl_line, model_line):
    if impl_line == model_line: return True
    a, b = impl_line.split(' '), model_line.split(' ')
    if len(a) != len(b): return False
    for x, y in zip(a, b):
        if x == y: continue
        if not (x.startswith('b') and y.startswith('b')): return False
        xr, yr = x.split('|'), y.split('|')
        if len(xr) != len(yr): return False
        for p, q in zip(xr, yr):
            pe, qe = p.split(','), q.split(',')
            if len(pe) != len(qe): return False
            if not all(_cmp_num(u, v) for u, v in zip(pe, qe)): return False
    return True


def disagree_signature(case, res, first):
    return 'disagree:' + (res.model_in[first].split(' ')[0] if first < len(res.model_in) else 'length')


# --------------------------------------------------------------------------
# generation
# --------------------------------------------------------------------------
TS = [280.0, 298.15, 320.0, 350.0, 375.5]
PS = [101325.0, 50000.0, 202650.0]


def pickT(rng):
    """base temperatures and neighbours a few kelvin, a fraction of a kelvin and a millikelvin away"""
    T = rng.choice(TS)
    r = rng.random()
    if r < 0.45: return T
    return round(T + rng.choice([-1, 1]) * rng.choice([0.001, 0.02, 0.25, 1.0, 3.0, 7.5]), 6)


def pickP(rng):
    P = rng.choice(PS)
    r = rng.random()
    if r < 0.45: return P
    return round(P + rng.choice([-1, 1]) * rng.choice([0.5, 20.0, 500.0, 2500.0, 10000.0]), 3)
FLOWS = [0, 0, 0.5, 1, 2, 3.25, 7.5, 10]
XS = [0, 1.5, 20, 100.25, 0.125, 3, 7]
MULTIPHASES = ['gl', 'gl', 'gls', 'Lgl', 'ls', 'Ll']


def gen_row(rng, n=5):
    r = [rng.choice(FLOWS) for _ in range(n)]
    if not any(r): r[rng.randrange(n)] = rng.choice([1, 2.5, 4])
    return ','.join(str(x) for x in r)


def gen_spec(rng, ngroups):
    return ';'.join(f'{rng.randrange(3)}:{rng.randrange(5)},{rng.randrange(5)}:{rng.choice(XS[1:])},{rng.choice(XS[1:])}'
                    for _ in range(ngroups))


def gen_new(rng, th=None):
    th = rng.choice([0, 0, 0, 1]) if th is None else th
    r = rng.random()
    if r < 0.12:      # constructors with units= (all eight units) and optionally total_flow=
        return (f'newu1 {th} {rng.choice("lgls")} {pickT(rng)} {pickP(rng)} {rng.choice(FLOW_UNITS)} '
                f'{rng.choice(["-", "-", 5, 20.5])} {gen_spec(rng, 1)}')
    if r < 0.22:
        return (f'newum {th} {rng.choice(MULTIPHASES)} {pickT(rng)} {pickP(rng)} {rng.choice(FLOW_UNITS)} '
                f'{rng.choice(["-", "-", 5, 20.5])} {gen_spec(rng, rng.choice([1, 2, 2]))}')
    if r < 0.60:
        return f'new1 {th} {rng.choice("lgls")} {pickT(rng)} {pickP(rng)} {gen_row(rng)}'
    phs = rng.choice(MULTIPHASES)
    return f'newm {th} {phs} {pickT(rng)} {pickP(rng)} ' + '|'.join(gen_row(rng) for _ in phs)


def gen_read(rng, o):
    r = rng.random()
    if r < 0.30: return f'obs {o}'
    if r < 0.42: return f'rdmass {o}'
    if r < 0.56: return f'rdvol {o}'
    if r < 0.64: return f'rdF {o} {rng.choice(["mol", "mass", "vol", "vol"])}'
    if r < 0.76: return f'get {o} {rng.choice(["mol", "mass", "vol"])} {rng.randrange(3)} {rng.randrange(5)}'
    if r < 0.84: return f'getflow {o} {rng.choice(FLOW_UNITS)} {rng.randrange(3)} {rng.randrange(5)}'
    if r < 0.87: return gen_view_units(rng, o, False)
    if r < 0.90:
        return rng.choice([f'getflowall {o} {rng.choice(FLOW_UNITS)}', f'rdagg {o} {rng.choice(ALL_DIMS)}',
                           f'getflowarr {o} {rng.choice(FLOW_UNITS)} {rng.randrange(3)} {rng.randrange(5)},{rng.randrange(5)},{rng.randrange(5)}'])
    return f'gettotal {o} {rng.choice(FLOW_UNITS)}'


def gen_assign(rng, o, n):
    return (f'assign {o} {rng.choice(["mass", "vol", "vol", "mol"])} {rng.randrange(n)} '
            f'{rng.choice(["view", "view", "copylike", "arr"])} {rng.randrange(3)} {rng.randrange(3)}')


ALL_DIMS = ['mol', 'mass', 'vol']


def gen_view_units(rng, o, write):
    """a units-taking entry point of ONE view / property, with a unit string drawn from all flow units (so two times out of
    three of another dimension, which must be rejected whatever was converted before) or a non-flow unit"""
    dim = rng.choice(ALL_DIMS)
    u = rng.choice(FLOW_UNITS) if rng.random() < 0.9 else rng.choice(OTHER_UNITS)
    r = rng.random()
    if r < 0.1: return f'ctor {dim} {u}' + (' m' if rng.random() < 0.4 else '')
    if r < 0.25:
        return (f'setdataall {o} {dim} {u} {rng.choice(XS)},{rng.choice(XS)},{rng.choice(XS)}' if write
                else f'getdataall {o} {dim} {u}')
    if write:
        return (f'setdata {o} {dim} {u} {rng.randrange(3)} {rng.randrange(5)} {rng.choice(XS)}' if r < 0.6
                else f'setprop {o} {dim} {u} {rng.choice(XS[1:])}')
    return f'getdata {o} {dim} {u} {rng.randrange(3)} {rng.randrange(5)}' if r < 0.6 else f'getprop {o} {dim} {u}'


def gen_resetflow(rng, o):
    """reset_flow with every unit dimension (or none), with / without a phase (set) change, with / without total_flow"""
    PH = rng.choice(['-', '-', 'l', 'g', 's', 'gl', 'gls', 'Ll'])
    U = rng.choice(FLOW_UNITS + ['-', '-'])
    TOT = rng.choice(['-', '-', 5, 20.5, 0.75])
    ng = rng.choice([1, 1, 2])
    spec = ';'.join(f'{rng.randrange(3)}:{rng.randrange(5)},{rng.randrange(5)}:{rng.choice(XS[1:])},{rng.choice(XS[1:])}'
                    for _ in range(ng)) if rng.random() < 0.9 else '-'
    return f'resetflow {o} {PH} {U} {TOT} {spec}'


def gen_write(rng, o):
    r = rng.random()
    if r < 0.07:
        return [gen_resetflow(rng, o), f'obs {o}']
    if r < 0.12:
        # the same units string first through the right view (legitimate), then on the views of the other dimensions
        u = rng.choice(FLOW_UNITS); ph, i = rng.randrange(3), rng.randrange(5)
        out = [rng.choice([f'getflow {o} {u} {ph} {i}', f'gettotal {o} {u}', f'setflow {o} {u} {ph} {i} {rng.choice(XS)}',
                           f'getdata {o} {UNIT_DIM.get(u, "mol")} {u} {ph} {i}'])]
        for d in ALL_DIMS:
            out.append(rng.choice([f'getdata {o} {d} {u} {ph} {i}', f'setdata {o} {d} {u} {ph} {i} {rng.choice(XS)}',
                                   f'getprop {o} {d} {u}', f'setprop {o} {d} {u} {rng.choice(XS[1:])}', f'ctor {d} {u}']))
        return out + [f'obs {o}']
    if r < 0.22:
        w1 = gen_view_units(rng, o, True)
        return [w1, gen_view_units(rng, o, False)]
    if r < 0.28:
        u = rng.choice(FLOW_UNITS); ph = rng.randrange(3)
        idx = f'{rng.randrange(5)},{rng.randrange(5)},{rng.randrange(5)}'
        return [f'setflowarr {o} {u} {ph} {idx} {rng.choice(XS)},{rng.choice(XS)},{rng.choice(XS)}',
                f'getflowarr {o} {u} {ph} {idx}', f'getflowall {o} {rng.choice(FLOW_UNITS)}', f'rdagg {o} {rng.choice(ALL_DIMS)}']
    if r < 0.30: return [f'put {o} {rng.choice(["mol", "mass", "vol"])} {rng.randrange(3)} {rng.randrange(5)} {rng.choice(XS)}']
    if r < 0.65:
        ph, i, u = rng.randrange(3), rng.randrange(5), rng.choice(FLOW_UNITS)
        out = [f'setflow {o} {u} {ph} {i} {rng.choice(XS)}', f'getflow {o} {u} {ph} {i}']
        for _ in range(rng.randrange(3)): out.append(f'getflow {o} {rng.choice(FLOW_UNITS)} {ph} {i}')
        return out
    if r < 0.88:
        u = rng.choice(FLOW_UNITS)
        out = [f'settotal {o} {u} {rng.choice(XS[1:])}', f'gettotal {o} {u}']
        for _ in range(rng.randrange(3)): out.append(f'gettotal {o} {rng.choice(FLOW_UNITS)}')
        return out
    return [f'wrF {o} {rng.choice(["mol", "mass", "vol"])} {rng.choice(XS)}']


def gen_change(rng, o, n):
    r = rng.random()
    other = rng.randrange(n)
    if r < 0.13: return f'setT {o} {pickT(rng)}'
    if r < 0.19: return f'setP {o} {pickP(rng)}'
    if r < 0.30: return f'setphase {o} {rng.choice("lgls")}'
    if r < 0.40: return f'setphases {o} {rng.choice(MULTIPHASES + ["l", "g", "gl"])}'
    if r < 0.57: return f'link {o} {other} {rng.randrange(2)} {rng.randrange(2)} {rng.randrange(2)}' \
        if rng.random() < 0.5 else f'link {o} {other} 1 1 1'
    if r < 0.67: return f'unlink {o}'
    if r < 0.78: return f'copylike {o} {other}'
    if r < 0.84: return f'thermo {o} {rng.choice([0, 1, 1, 2])}'
    if r < 0.91: return f'mix {o} {other} {rng.randrange(n)}'
    if r < 0.96: return f'react {o} {rng.choice(["mol", "wt"])}'
    if r < 0.975: return f'scale {o} {rng.choice([2, 0.5, 3])}'
    if r < 0.99: return f'emptyneg {o}'
    return f'empty {o}'


def gen_case(rng, length):
    ops = [gen_new(rng)]
    th = int(ops[0].split(' ')[1])
    n = 1
    for _ in range(rng.choice([0, 1, 1, 2])):
        ops.append(gen_new(rng, th if rng.random() < 0.8 else None)); n += 1
    focus = rng.randrange(n)
    while len(ops) < length:
        o = focus if rng.random() < 0.6 else rng.randrange(n)
        r = rng.random()
        if r < 0.40: ops.append(gen_read(rng, o))
        elif r < 0.52: ops.extend(gen_write(rng, o))
        elif r < 0.58:
            ops.append(gen_assign(rng, o, n))
            if rng.random() < 0.6: ops.append(f'obs {o}')
        elif r < 0.92:
            # the staleness pattern: make sure views exist, change something, look again (at both ends of a link)
            if rng.random() < 0.5: ops.append(gen_read(rng, o))
            ch = gen_change(rng, o, n)
            ops.append(ch)
            ops.append(gen_read(rng, o))
            if ch.startswith(('link', 'unlink', 'copylike')) and rng.random() < 0.7:
                ops.append(f'obs {rng.randrange(n)}')
        elif r < 0.945:
            ops.append(f'getflow {o} {rng.choice(OTHER_UNITS)} 0 0' if rng.random() < 0.5 else
                       rng.choice([f'setflow {o} {rng.choice(OTHER_UNITS)} 0 0 1.5', f'gettotal {o} {rng.choice(OTHER_UNITS)}',
                                   f'settotal {o} {rng.choice(OTHER_UNITS)} 2']))
        elif n < 4 and rng.random() < 0.4:
            ops.append(gen_new(rng, th)); n += 1
        elif n < 8:
            # a phase view / proxy / flow proxy of an existing stream, then work on one of the pair and look at both
            kind = rng.choice(['view', 'view', 'proxy', 'flowproxy', 'copy', 'copy'])
            ops.append(f'view {o} {rng.randrange(3)}' if kind == 'view' else
                       f'copy {o} {rng.choice(["-", "-", 0, 1])}' if kind == 'copy' else f'{kind} {o}')
            new = n; n += 1
            for _ in range(rng.randrange(1, 4)):
                a, b = (o, new) if rng.random() < 0.5 else (new, o)
                ops.extend(gen_write(rng, a) if rng.random() < 0.6 else [gen_change(rng, a, n)])
                ops += [f'obs {b}', f'obs {a}']
        if rng.random() < 0.1: focus = rng.randrange(n)
    for k in range(n): ops.append(f'obs {k}')
    return Case(ops, {})


def grid():
    """enumerated sub-space: link flags × class × views cached before × follow-up, and all unit pairs"""
    out = []
    news = {'1': ['new1 0 l 298.15 101325.0 1,2,0,0.5', 'new1 0 g 350.0 50000.0 0,3.25,1,0'],
            'm': ['newm 0 gl 298.15 101325.0 1,2,0,0.5|0,1,0,2', 'newm 0 gl 350.0 50000.0 0,3.25,1,0|2,0,0,0']}
    for cls in '1m':
        for f, p, t in itertools.product('01', repeat=3):
            for pre in (0, 1, 2):
                for follow in ('none', 'unlink0', 'unlink1', 'relink', 'phase', 'T'):
                    ops = list(news[cls])
                    if pre >= 1: ops += ['obs 0']
                    if pre >= 2: ops += ['obs 1']
                    ops.append(f'link 0 1 {f} {p} {t}')
                    ops += ['obs 0', 'obs 1']
                    if follow == 'unlink0': ops += ['unlink 0', 'put 0 mol 0 0 7', 'obs 0', 'obs 1']
                    elif follow == 'unlink1': ops += ['unlink 1', 'put 1 mol 0 1 7', 'obs 1', 'obs 0']
                    elif follow == 'relink':
                        ops += [news[cls][0].replace('1,2,0,0.5', '0,0,4,1'), 'link 0 2 1 0 0', 'obs 0', 'obs 1', 'obs 2']
                    elif follow == 'phase': ops += ['setphase 1 g' if cls == '1' else 'setT 1 320.0', 'obs 0', 'obs 1']
                    elif follow == 'T': ops += ['setT 0 375.5', 'obs 0', 'obs 1']
                    out.append(Case(ops, {'grid': 'link'}))
    for u in FLOW_UNITS:
        for v in FLOW_UNITS:
            out.append(Case(['new1 0 l 298.15 101325.0 1,2,0,0.5', f'setflow 0 {u} 0 1 20', f'getflow 0 {u} 0 1',
                             f'getflow 0 {v} 0 1', f'settotal 0 {u} 100.25', f'gettotal 0 {u}', f'gettotal 0 {v}', 'obs 0'],
                            {'grid': 'units'}))
            out.append(Case(['newm 0 gl 320.0 101325.0 1,2,0,0.5|0,1,3,0', f'setflow 0 {u} 1 2 3', f'getflow 0 {u} 1 2',
                             f'getflow 0 {v} 1 2', f'settotal 0 {u} 7', f'gettotal 0 {v}', 'obs 0'], {'grid': 'units'}))
    for dim in ('mass', 'vol', 'mol'):
        for mode in ('view', 'copylike', 'arr'):
            for other in ('new1 0 l 350.0 101325.0 20,10,0,1', 'new1 0 g 400.0 50000.0 5,5,1,0', 'new1 0 l 298.15 202650.0 3,0,2,0',
                          'newm 0 gl 375.5 101325.0 1,2,0,0.5|0,1,3,0'):
                for pre in (0, 1):
                    out.append(Case(['new1 0 l 298.15 101325.0 1,1,0,0', other] + (['obs 0', 'obs 1'] if pre else []) +
                                    [f'assign 0 {dim} 1 {mode} 0 1', 'obs 0', 'obs 1'], {'grid': 'assign'}))
                    out.append(Case(['newm 0 gl 298.15 101325.0 1,1,0,0|0,2,0,1', other] + (['obs 0', 'obs 1'] if pre else []) +
                                    [f'assign 0 {dim} 1 {mode} 1 0', 'obs 0', f'assign 0 {dim} 1 {mode} 0 1', 'obs 0', 'obs 1'],
                                    {'grid': 'assign'}))
    for u in FLOW_UNITS:
        for d2 in ('mol', 'mass', 'vol'):
            for entry in (f'getdata 0 {d2} {u} 0 1', f'setdata 0 {d2} {u} 0 1 3', f'getprop 0 {d2} {u}',
                          f'setprop 0 {d2} {u} 7', f'ctor {d2} {u}'):
                for legit in (f'getflow 0 {u} 0 1', f'gettotal 0 {u}', None):
                    out.append(Case(['new1 0 l 298.15 101325.0 1,2,0,0.5'] + ([legit] if legit else []) + [entry, 'obs 0'],
                                    {'grid': 'view-units'}))
    for u in FLOW_UNITS + ['-']:
        for ph in ('-', 'l', 'g'):
            for tot in ('-', '20.5'):
                for pre in (0, 1):
                    out.append(Case(['new1 0 l 298.15 101325.0 1,2,0,0.5'] + (['obs 0'] if pre else []) +
                                    [f'resetflow 0 {ph} {u} {tot} 0:0,1:3,7', 'obs 0'], {'grid': 'reset_flow'}))
        if u != '-':
            for phs in ('-', 'gl', 'gls'):
                for tot in ('-', '20.5'):
                    out.append(Case(['newm 0 gl 320.0 101325.0 1,2,0,0.5|0,1,3,0', 'obs 0',
                                     f'resetflow 0 {phs} {u} {tot} 0:0,1:3,7;1:2:1.5', 'obs 0'], {'grid': 'reset_flow'}))
    for u in FLOW_UNITS:
        for tot in ('-', '20.5'):
            out.append(Case([f'newu1 0 g 350.0 50000.0 {u} {tot} 0:0,1:3,7', 'obs 0', f'gettotal 0 {u}', f'getflowall 0 {u}'],
                            {'grid': 'ctor-units'}))
            out.append(Case([f'newum 0 gl 320.0 101325.0 {u} {tot} 0:0,1:3,7;1:1,2:1.5,20', 'obs 0', f'gettotal 0 {u}',
                             f'getflowall 0 {u}'], {'grid': 'ctor-units'}))
        for d in ('mol', 'mass', 'vol'):
            out.append(Case(['new1 0 l 298.15 101325.0 1,2,0,0.5', f'getdataall 0 {d} {u}', f'setdataall 0 {d} {u} 3,0,7,1.5',
                             f'getdataall 0 {d} {u}', 'obs 0', f'ctor {d} {u} m'], {'grid': 'view-units'}))
    for cls in ('new1 0 l 298.15 101325.0 1,-2.1,0,0.5', 'newm 0 gl 320.0 101325.0 1,-2.1,0,0.5|-0.45,1,3,0',
                'new1 0 l 298.15 101325.0 1,2,0,0.5'):
        for pre in ('obs 0', 'rdmass 0', 'rdvol 0', None):
            out.append(Case([cls] + ([pre] if pre else []) + ['emptyneg 0', 'obs 0', 'put 0 mass 0 1 20', 'obs 0',
                                                              'put 0 vol 0 0 0.125', 'obs 0'], {'grid': 'emptyneg'}))
    for cls in ('new1 0 l 298.15 101325.0 1,2,0,0.5', 'newm 0 gl 320.0 101325.0 1,2,0,0.5|0,1,3,0'):
        for k in ('-', '1'):
            out.append(Case([cls, 'obs 0', f'copy 0 {k}', 'obs 1', 'put 1 mol 0 1 5', 'obs 1', 'obs 0', 'setT 1 350.0', 'obs 1',
                             'obs 0', 'put 0 mass 0 0 9', 'obs 0', 'obs 1'], {'grid': 'copy'}))
    for u in OTHER_UNITS:
        out.append(Case(['new1 0 l 298.15 101325.0 1,2,0,0.5', f'getflow 0 {u} 0 0', f'setflow 0 {u} 0 0 1.5',
                         f'gettotal 0 {u}', f'settotal 0 {u} 2', 'obs 0'], {'grid': 'dimension'}))
    return out


def gen_negative_case(rng):
    """negative flows through the mass / volumetric dictionary views (no total setters: a cancelling total makes the
    scaling ill-conditioned, which is not what is being looked at)"""
    NEG = [-7.3, -2.1, -0.45, 0, 1.15, 3.3]     # some subsets cancel exactly (3.3+3.3+1.15 = 0.45+7.3); F_vol of a zero net molar flow was repaired by 2c4e422 (fixes_proposed/C11-7)
    row = lambda: ','.join(str(rng.choice(NEG)) for _ in range(5))
    if rng.random() < 0.5:
        ops = [f'new1 0 {rng.choice("lg")} {pickT(rng)} {pickP(rng)} {row()}']
    else:
        ops = [f'newm 0 gl {pickT(rng)} {pickP(rng)} {row()}|{row()}']
    ops.append(f'new1 0 l {pickT(rng)} {pickP(rng)} {row()}')
    for _ in range(rng.randrange(4, 12)):
        o = rng.randrange(2); r = rng.random()
        if r < 0.25: ops += [f'put {o} {rng.choice(ALL_DIMS)} {rng.randrange(3)} {rng.randrange(5)} {rng.choice(NEG)}', f'obs {o}']
        elif r < 0.45:
            u = rng.choice(FLOW_UNITS); ph, i = rng.randrange(3), rng.randrange(5)
            ops += [f'setflow {o} {u} {ph} {i} {rng.choice(NEG)}', f'getflow {o} {u} {ph} {i}', f'getflow {o} {rng.choice(FLOW_UNITS)} {ph} {i}']
        elif r < 0.58: ops += [gen_assign(rng, o, 2), f'obs {o}']
        elif r < 0.66: ops.append(f'setT {o} {pickT(rng)}')
        elif r < 0.74: ops.append(f'getflowall {o} {rng.choice(FLOW_UNITS)}')
        elif r < 0.80: ops.append(f'setphase {o} {rng.choice("lg")}')
        else:
            # views cached, negative flows removed in place, then the views are read and written again
            ops += [rng.choice([f'obs {o}', f'rdmass {o}', f'rdvol {o}']), f'emptyneg {o}', f'obs {o}',
                    f'put {o} {rng.choice(["mass", "vol"])} {rng.randrange(3)} {rng.randrange(5)} {rng.choice([1.5, 20, 3])}', f'obs {o}']
    return Case(ops + ['obs 0', 'obs 1'], {'kind': 'negative'})


def generate(rng, tier, index, nworkers):
    g = grid()
    for k, c in enumerate(g):
        if k % nworkers == index: yield c
    n = max(1, (budget(tier)['cases'] - len(g)) // nworkers)
    for _ in range(n):
        yield gen_negative_case(rng) if rng.random() < 0.08 else gen_case(rng, rng.randrange(8, 46))


def corpus():
    return [
        # fixes_proposed/C11-1: molar-volume cache of the volumetric view ignores the phase
        Case(['new1 0 l 298.15 101325.0 1,2,0,0', 'obs 0', 'setphase 0 g', 'obs 0'], {'witness': 'C11-1'}),
        # fixes_proposed/C11-2: unlink / re-link leave the _data_cache dict shared
        Case(['new1 0 l 298.15 101325.0 1,2,0,0', 'new1 0 l 298.15 101325.0 0,0,0,0', 'link 1 0 1 1 1', 'unlink 1',
              'put 1 mol 0 0 7', 'rdmass 1', 'rdmass 0'], {'witness': 'C11-2'}),
        Case(['new1 0 l 298.15 101325.0 1,2,0,0', 'new1 0 l 298.15 101325.0 0,0,0,0', 'new1 0 l 298.15 101325.0 0,0,4,0',
              'link 1 0 1 1 1', 'link 1 2 1 0 0', 'rdmass 1', 'rdmass 0', 'obs 0'], {'witness': 'C11-2b'}),
        # fixes_proposed/C11-3: _expand_phases keeps the cached views of the old rows
        Case(['newm 0 gl 298.15 101325.0 0,2,0,0|1,0,0,0', 'newm 0 Lgl 298.15 101325.0 0,0,0,3|0,0,0,0|1,0,0,0', 'obs 0',
              'copylike 0 1', 'obs 0'], {'witness': 'C11-3'}),
        # phase views, proxies, flow proxies: work on one of a pair, look at both
        Case(['newm 0 gl 298.15 101325.0 1,2,0,0.5|0,1,0,2', 'view 0 0', 'view 0 1', 'obs 0', 'obs 1', 'obs 2', 'put 1 mass - 1 20',
              'obs 0', 'put 0 vol 1 0 0.125', 'obs 2', 'setT 0 350.0', 'obs 1', 'unlink 0', 'put 0 mol 0 2 3', 'obs 1', 'obs 0',
              'setphases 0 gls', 'obs 1', 'obs 2', 'thermo 0 1', 'obs 1', 'obs 2', 'setphase 0 l', 'obs 0', 'obs 1']),
        Case(['new1 0 l 298.15 101325.0 1,2,0,0.5', 'proxy 0', 'flowproxy 0', 'obs 0', 'obs 1', 'obs 2', 'setflow 1 lb/hr 0 1 20',
              'obs 0', 'obs 2', 'setphase 1 g', 'obs 0', 'obs 1', 'obs 2', 'setT 2 350.0', 'obs 2', 'obs 0', 'new1 0 g 320.0 50000.0 0,1,3,0',
              'link 1 3 1 1 1', 'obs 0', 'obs 1', 'obs 3', 'unlink 0', 'put 0 mol 0 0 7', 'obs 1', 'obs 0', 'obs 2']),
        Case(['newm 0 gl 298.15 101325.0 1,2,0,0.5|0,1,0,2', 'newm 0 gl 350.0 50000.0 0,3.25,1,0|2,0,0,0', 'view 0 1', 'view 1 1',
              'obs 2', 'obs 3', 'link 0 1 1 0 1', 'obs 2', 'obs 0', 'put 2 mass - 0 5', 'obs 1', 'obs 3', 'link 0 1 0 0 1', 'obs 2',
              'proxy 0', 'obs 4', 'setflow 4 kg/hr 0 1 3', 'obs 0', 'obs 2']),
        # view-to-view bulk writes between streams at different T / phase (seeded/C11-1)
        Case(['new1 0 l 298.15 101325.0 1,1,0,0', 'new1 0 l 350.0 101325.0 20,10,0,0', 'obs 0', 'obs 1', 'assign 0 vol 1 view 0 0',
              'obs 0', 'new1 0 g 400.0 101325.0 5,5,0,0', 'assign 0 vol 2 copylike 0 0', 'obs 0', 'assign 0 mass 1 view 0 0', 'obs 0']),
        # _expand_phases through mix_from and through copy_like from a single-phase stream
        Case(['newm 0 gl 298.15 101325.0 0,2,0,0|1,0,0,0', 'new1 0 s 298.15 101325.0 0,0,0,3', 'new1 0 l 298.15 101325.0 1,0,0,0',
              'obs 0', 'mix 0 1 2', 'obs 0', 'new1 0 L 320.0 101325.0 0,1,0,3', 'copylike 0 3', 'obs 0']),
        Case(['new1 0 s 298.15 101325.0 1,0,0,3', 'newm 0 Ll 298.15 101325.0 0,2,0,0|1,0,0,0', 'obs 0', 'copylike 0 1', 'obs 0']),
        # fixes_proposed/C11-4: a reaction of another package on a multi-phase stream
        Case(['newm 0 gl 298.15 101325.0 0,2,0,0|1,2,0,0', 'obs 0', 'react 0 mol', 'obs 0', 'react 0 wt', 'obs 0'],
             {'witness': 'C11-4'}),
        Case(['new1 0 l 298.15 101325.0 1,2,0,0', 'obs 0', 'react 0 mol', 'obs 0', 'react 0 wt', 'obs 0', 'scale 0 2', 'obs 0',
              'new1 0 g 350.0 101325.0 1,2,0,0', 'new1 0 g 320.0 50000.0 0,2,1,0', 'mix 0 1 2', 'obs 0', 'empty 0', 'obs 0']),
        Case(['new1 0 l 298.15 101325.0 1,2,0,0.5', 'getflow 0 kg 0 0', 'settotal 0 K 2', 'setflow 0 kJ/hr 0 0 1', 'obs 0']),
        Case(['new1 0 l 298.15 101325.0 1,2,0,0.5', 'setflow 0 lb/hr 0 1 20', 'getflow 0 lb/hr 0 1', 'getflow 0 g/min 0 1',
              'getflow 0 mol/s 0 1', 'settotal 0 gal/min 3', 'gettotal 0 gal/min', 'gettotal 0 L/min', 'obs 0']),
        Case(['new1 0 l 298.15 101325.0 1,2,0,0.5', 'obs 0', 'thermo 0 1', 'obs 0', 'setphases 0 gl', 'obs 0', 'thermo 0 0',
              'obs 0', 'setphase 0 g', 'obs 0', 'unlink 0', 'obs 0']),
    ]
