"""
C19 — the simulation order derived from a flowsheet is complete and follows material flow.

Adapter for `Network.from_units` (thermosteam/network.py) on real `AbstractUnit` /
`AbstractStream` objects, generator of flowsheets, and the property oracle (the Python
twin of the Lean checker `validNetwork`, evaluated on the real `Network` only).
The Lean model is lean/ThermoVerif/Model/NetSort.lean, the driver lean/Driver/C19.lean.

A case is a flowsheet:
    units 1:2 2:1 …        number of inlet:outlet ports of unit 0, 1, …   (all fixed-size)
    edge 0.1 2.0           outlet 1 of unit 0 feeds inlet 0 of unit 2
    fmass 2.1 5            F_mass of the feed stream at inlet 1 of unit 2 (default 0)
    order 2,0,1            the order in which the units are handed to Network.from_units
    psort e=3,4 ( u1 ( u0 u2 r5 ) )   probe: build this Network from the real units and call .sort(ends)
    pdfs 4 e=3 u=0,1,2     probe: find_paths_with_and_without_recycle(stream 4, ends, units) on the real objects
(stream ids: the streams of the `edge` lines in order, then the remaining ports unit by unit, inlets first)
    rewire                 starts another round on the SAME unit and stream objects: the `edge` / `order` lines that
                           follow describe the new connectivity; the adapter empties every port and re-pipes the
                           existing stream objects (a stream keeps its role — product, feed, internal, same source
                           port — wherever possible, so the end streams handed to Network.sort stay the same objects),
                           then calls Network.from_units again.  Every round is compared and judged like the first.

What is compared with the model (one driver line each, captured by wrapping the real
functions at run time): `sort_feeds_big_to_small`, every call of
`find_paths_with_and_without_recycle`, every top-level call of `Network.sort`
(nested path and recycles before → after, number of "could not be determined" warnings),
and the verdict of `validNetwork` on the final network.
"""
from __future__ import annotations
import itertools, math, random, re, warnings, collections
from harness.core import Case, ImplResult

PID = 'C19'
LEAN_MODULES = ['ThermoVerif.Props.C19', 'ThermoVerif.Props.C19Pipeline']
RULE = ('histories of 1-3 rounds on the same unit and stream objects (build, re-pipe, build again: two units of equal '
        'ports swapped, a stream end moved, a stream added or removed); each round: connected flowsheets of 2-10 units with 1-3 inlet and outlet ports each, several feeds (with different '
        'F_mass) and products, 0-3 back-edges such that every unit still reaches a product, handed to '
        'Network.from_units in every / sampled orders; exhaustive part: every connected simple DAG on <= 4 (quick) / '
        '5 (thorough) units with in/out degree <= 3 in every unit order; a case is non-trivial when it has at least one '
        'stream between two units; distinct = distinct (ports, edges, F_mass, order)')
ASSUMPTIONS = [
    'the assembly of Network.from_units is modelled end to end as long as no walk reports a recycle (every acyclic '
    'flowsheet): feeds, sort_feeds_big_to_small, the walk of every feed, simplified_linear_paths, join_linear_network, '
    '_remove_overlap, _insert_linear_network, _append_network, join_network_at_unit, first_unit, final sort; '
    'the model answers err=recycle exactly when a walk of the real code reports a recycle',
    'hypotheses of the theorems, monitored by the driver on every flowsheet (answer of the graph line): every stream '
    'ends in a given unit or nowhere (Graph.SinksOK), one outlet list per unit, every unit has an outlet',
    'the recycle part of the assembly (join_recycle_network, _insert_recycle_network, _add_linear_network, '
    'reduce_recycles) is not modelled; on cyclic flowsheets its output is validated per run by validNetwork',
    'Network.units of every (sub-)network equals the units of its flattened path when Network.sort runs (monitored)',
    'Python sets are modelled as duplicate-free lists, compared after sorting',
    'no interaction / universal / auxiliary units, no disjunctions, no missing streams, no explicit feed priorities',
]
TRUSTED = ['Lean 4.33 kernel', 'correspondence harness harness/props/c19.py + Driver/C19.lean',
           'generator reach (see histogram)', 'Python twin of validNetwork agrees with the Lean checker (compared every case)']
EXHAUSTIVE = {'quick': False, 'thorough': False}

net = None
VStream = None
CLASSES = {}
REC = None          # active recorder
WARN_TEXT = 'network path could not be determined'


class Recorder:
    def __init__(self, units):
        self.idx = {u: k for k, u in enumerate(units)}
        self.lines = []       # (driver line, expected answer)
        self.depth = 0
        self.tags = set()
        self.last_warn = 0
        self.in_from_units = False
        self.fu_recycle = False

    def sid(self, s):
        return s.n

    def ids(self, streams):
        return ','.join(str(x) for x in sorted(self.sid(s) for s in streams))

    def tokens(self, nw, monitor=False):
        out = ['(']
        for i in nw.path:
            if isinstance(i, net.Network): out.extend(self.tokens(i, monitor))
            else: out.append(f'u{self.idx[i]}')
        r = nw.recycle
        if r:
            rs = [r] if hasattr(r, 'sink') else list(r)
            out.extend(f'r{k}' for k in sorted(self.sid(s) for s in rs))
        out.append(')')
        if monitor and set(flatten(nw.path)) != set(nw.units):
            out.append('units-attr-differs-from-path')       # hypothesis monitor: makes the line disagree
        return out


def flatten(path):
    out = []
    for i in path:
        if isinstance(i, net.Network): out.extend(flatten(i.path))
        else: out.append(i)
    return out


def setup():
    global net, VStream
    import thermosteam as tmo
    from thermosteam import network as net_
    net = net_
    tmo.settings.set_thermo(['Water'], cache=True)
    warnings.simplefilter('ignore')

    class VStream_(net.AbstractStream):
        __slots__ = ('F_mass', 'n')
    VStream = VStream_

    orig_sort = net.Network.sort
    orig_find = net.find_paths_with_and_without_recycle
    orig_feeds = net.sort_feeds_big_to_small

    def sort(self, ends):
        rec = REC
        if rec is None or rec.depth > 0:
            return orig_sort(self, ends)
        before = rec.tokens(self, monitor=True)
        e = rec.ids(ends)
        rec.depth += 1
        try:
            with warnings.catch_warnings(record=True) as w:
                warnings.simplefilter('always')
                orig_sort(self, ends)
        finally:
            rec.depth -= 1
        nwarn = sum(1 for x in w if WARN_TEXT in str(x.message))
        after = rec.tokens(self)
        rec.lines.append((f'sort e={e} ' + ' '.join(before), ' '.join(after) + f' warn={nwarn}'))
        rec.last_warn = nwarn
        if nwarn: rec.tags.add('sort:warned')
        if before != after: rec.tags.add('sort:changed')
        if [t for t in before if t[0] == 'r'] != [t for t in after if t[0] == 'r']: rec.tags.add('sort:added-recycle')
        if before.count('(') > 1: rec.tags.add('sort:nested')

    def find(feed, ends, units):
        rec = REC
        if rec is None:
            return orig_find(feed, ends, units)
        e = rec.ids(ends)
        us = ','.join(str(k) for k in sorted(rec.idx[u] for u in units))
        W, L = orig_find(feed, ends, units)
        def p(path): return '.'.join(str(rec.idx[u]) for u in path) if path else '_'
        ans = ('W=[' + ';'.join(f'{p(path)}>{rec.sid(r)}' for path, r in W) + '] L=[' + ';'.join(p(path) for path in L)
               + '] E=[' + rec.ids(ends) + ']')
        rec.lines.append((f'dfs {rec.sid(feed)} e={e} u={us}', ans))
        if W: rec.tags.add('dfs:recycle')
        if W and rec.in_from_units: rec.fu_recycle = True
        return W, L

    def feeds(fs):
        rec = REC
        if rec is None or not fs:
            return orig_feeds(fs)
        before = list(fs)
        orig_feeds(fs)
        order = []
        for f in fs:
            order.append(next(k for k, b in enumerate(before) if b is f and k not in order))
        rec.lines.append(('feeds ' + ','.join(str(int(f.F_mass)) for f in before), 'order=' + ','.join(map(str, order))))
        if order != sorted(order): rec.tags.add('feeds:reordered')

    net.Network.sort = sort
    net.find_paths_with_and_without_recycle = find
    net.sort_feeds_big_to_small = feeds


def budget(tier):
    return {'quick': dict(seconds=55, cases=10000, shrink_s=15, search_s=5),
            'thorough': dict(seconds=420, cases=250000, shrink_s=40, search_s=20)}[tier]


# --------------------------------------------------------------------------
# case ↔ flowsheet
# --------------------------------------------------------------------------

def ucls(ni, no):
    if (ni, no) not in CLASSES:
        CLASSES[(ni, no)] = type(f'VU{ni}{no}', (net.AbstractUnit,), dict(
            _N_ins=ni, _N_outs=no, _ins_size_is_fixed=True, _outs_size_is_fixed=True, _init=lambda self: None))
    return CLASSES[(ni, no)]


def clean_edges(shape, edges):
    """keep only well-formed, non-conflicting edges (a shrunk case may have lost lines)"""
    n = len(shape)
    used_o, used_i, good = set(), set(), []
    for (a, b) in edges:
        if a[0] < n and b[0] < n and a[1] < shape[a[0]][1] and b[1] < shape[b[0]][0] and a not in used_o and b not in used_i:
            used_o.add(a); used_i.add(b); good.append((a, b))
    return good


def parse_case(ops):
    """→ shape, fmass, rounds = [(edges, order, probe lines)]"""
    shape, fmass = [], {}
    raw = [[[], None, []]]
    for line in ops:
        t = line.split()
        if t[0] == 'units':
            shape = [tuple(int(x) for x in w.split(':')) for w in t[1:]]
        elif t[0] == 'rewire':
            raw.append([[], None, []])
        elif t[0] == 'edge':
            a, b = (tuple(int(x) for x in w.split('.')) for w in t[1:3])
            raw[-1][0].append((a, b))
        elif t[0] == 'fmass':
            fmass[tuple(int(x) for x in t[1].split('.'))] = int(t[2])
        elif t[0] == 'order':
            raw[-1][1] = [int(x) for x in t[1].split(',')]
        elif t[0] in ('psort', 'pdfs'):
            raw[-1][2].append(line)
    n = len(shape)
    rounds = []
    for edges, order, probes in raw:
        if order is None or sorted(order) != list(range(n)): order = list(range(n))
        rounds.append((clean_edges(shape, edges), order, probes))
    return shape, fmass, rounds


def round_ops(edges, order, probes=()):
    return [f'edge {a[0]}.{a[1]} {b[0]}.{b[1]}' for a, b in edges] + list(probes) + ['order ' + ','.join(map(str, order))]


def make_case(shape, edges, fmass, order, more_rounds=(), probes=()):
    ops = ['units ' + ' '.join(f'{a}:{b}' for a, b in shape)]
    ops += [f'fmass {k[0]}.{k[1]} {v}' for k, v in sorted(fmass.items()) if v]
    ops += round_ops(edges, order, probes)
    for e, o in more_rounds:
        ops.append('rewire')
        ops += round_ops(e, o)
    return Case(ops, {})


def build(shape, edges, fmass):
    outmap = {e[0]: e for e in edges}
    inmap = {e[1]: e for e in edges}
    streams = []

    def new():
        s = VStream(None); s.F_mass = 0; s.n = len(streams); streams.append(s); return s
    estream = {e: new() for e in edges}
    units = []
    for u, (ni, no) in enumerate(shape):
        ins = [estream[inmap[(u, p)]] if (u, p) in inmap else new() for p in range(ni)]
        outs = [estream[outmap[(u, p)]] if (u, p) in outmap else new() for p in range(no)]
        units.append(ucls(ni, no)(f'.U{u}', ins=ins, outs=outs))
    for (u, p), v in fmass.items():
        if u < len(units) and p < shape[u][0] and (u, p) not in inmap:
            units[u].ins[p].F_mass = v
    return units, streams


def rewire(units, streams, shape, prev_edges, edges):
    """Re-pipe the SAME unit objects to the connectivity `edges`, re-using the existing stream objects:
    a stream keeps its role (internal stream leaving the same outlet port, product, feed) wherever possible."""
    prev_src = {a for a, _ in prev_edges}; prev_snk = {b for _, b in prev_edges}
    out_at = {(u, p): units[u]._outs[p] for u, (ni, no) in enumerate(shape) for p in range(no)}
    in_at = {(u, p): units[u]._ins[p] for u, (ni, no) in enumerate(shape) for p in range(ni)}
    real = lambda x: isinstance(x, net.AbstractStream)
    internal = [out_at[a] for a, _ in prev_edges if real(out_at[a])]
    products = [x for port, x in out_at.items() if port not in prev_src and real(x)]
    feeds = [x for port, x in in_at.items() if port not in prev_snk and real(x)]
    used = set()

    def take(cands):
        for x in cands:
            if x is not None and real(x) and id(x) not in used:
                used.add(id(x)); return x
        return None
    src = {a for a, _ in edges}; snk = {b for _, b in edges}
    prod_ports = [port for port in out_at if port not in src]
    feed_ports = [port for port in in_at if port not in snk]
    estream, pstream, fstream = {}, {}, {}
    for e in edges:                                   # same outlet port, still internal
        if e[0] in prev_src: estream[e] = take([out_at[e[0]]])
    for port in prod_ports:                           # same port, still a product
        if port not in prev_src: pstream[port] = take([out_at[port]])
    for port in feed_ports:
        if port not in prev_snk: fstream[port] = take([in_at[port]])
    for e in edges:
        if estream.get(e) is None: estream[e] = take(internal)
    for port in prod_ports:
        if pstream.get(port) is None: pstream[port] = take(products)
    for port in feed_ports:
        if fstream.get(port) is None: fstream[port] = take(feeds)

    def new():
        x = VStream(None); x.F_mass = 0; x.n = len(streams); streams.append(x); return x
    pool = internal + products + feeds
    for d, keys in ((estream, edges), (pstream, prod_ports), (fstream, feed_ports)):
        for k in keys:
            if d.get(k) is None: d[k] = take(pool) or new()
    for u in units:
        u.ins.empty(); u.outs.empty()
    for (a, b), x in estream.items():
        units[a[0]].outs[a[1]] = x
        units[b[0]].ins[b[1]] = x
    for (u, p), x in pstream.items(): units[u].outs[p] = x
    for (u, p), x in fstream.items(): units[u].ins[p] = x


def graph_line(units, streams):
    idx = {u: k for k, u in enumerate(units)}
    def per_unit(attr):
        return ';'.join('.'.join(str(s.n) for s in getattr(u, attr)) for u in units)
    def opt(x):
        return str(idx[x]) if x in idx else '-'
    return (f'graph {len(units)} o={per_unit("_outs")} i={per_unit("_ins")} '
            f'k={",".join(opt(s._sink) for s in streams)} c={",".join(opt(s._source) for s in streams)}')


# --------------------------------------------------------------------------
# the property, on the real objects (Python twin of ThermoVerif.NetSort.checkNetwork)
# --------------------------------------------------------------------------

def real_edges(units):
    given = set(units)
    return [(u, s._sink) for u in units for s in u._outs if s._sink in given]


def reach_map(units, edges):
    succ = collections.defaultdict(set)
    for a, b in edges: succ[a].add(b)
    out = {}
    for u in units:
        seen, todo = set(), [u]
        while todo:
            x = todo.pop()
            for y in succ[x]:
                if y not in seen: seen.add(y); todo.append(y)
        out[u] = seen
    return out


def loops(nw, acc):
    if nw.recycle: acc.append(set(flatten(nw.path)))
    for i in nw.path:
        if isinstance(i, net.Network): loops(i, acc)
    return acc


def check_network(units, nw):
    """→ (verdict, cyclic).  Observes the real Network and the real units only."""
    flat = flatten(nw.path)
    R = nw.get_all_recycles()
    edges = real_edges(units)
    rm = reach_map(units, edges)
    cyclic = any(u in rm[u] for u in units)
    if set(flat) != set(units): return 'units', cyclic
    pos = {}
    for k, u in enumerate(flat): pos.setdefault(u, k)
    if cyclic:
        if not R: return 'no-recycle', cyclic
        lp = loops(nw, [])
        for a, b in edges:
            if not pos[a] < pos[b] and not any(a in l and b in l for l in lp): return 'backward', cyclic
        return 'valid', cyclic
    if len(flat) != len(set(flat)): return 'dup', cyclic
    for a, b in edges:
        if not pos[a] < pos[b]: return 'order', cyclic
    if R: return 'recycle-on-dag', cyclic
    return 'valid', cyclic


def in_quantifier(shape, edges):
    """connected, 2-10 units with 1-3 ports, every unit reaches a product"""
    n = len(shape)
    if not 2 <= n <= 10: return False
    if any(not (1 <= a <= 3 and 1 <= b <= 3) for a, b in shape): return False
    adj = collections.defaultdict(set)
    for (a, _), (b, _) in edges: adj[a].add(b); adj[b].add(a)
    seen, todo = {0}, [0]
    while todo:
        x = todo.pop()
        for y in adj[x]:
            if y not in seen: seen.add(y); todo.append(y)
    if len(seen) != n: return False
    used = {e[0] for e in edges}
    ok = {u for u in range(n) if any((u, p) not in used for p in range(shape[u][1]))}
    ch = True
    while ch:
        ch = False
        for (a, _), (b, _) in edges:
            if b in ok and a not in ok: ok.add(a); ch = True
    return len(ok) == n


def fed_units(shape, edges):
    n = len(shape); used = {e[1] for e in edges}
    fed = {u for u in range(n) if any((u, p) not in used for p in range(shape[u][0]))}
    ch = True
    while ch:
        ch = False
        for (a, _), (b, _) in edges:
            if a in fed and b not in fed: fed.add(b); ch = True
    return fed


def build_network(tokens, units, streams, single):
    """tokens after the opening `(` → (Network, rest)"""
    path, rs = [], []
    while tokens:
        t = tokens.pop(0)
        if t == ')': break
        if t == '(':
            path.append(build_network(tokens, units, streams, single))
        elif t[0] == 'u':
            if int(t[1:]) < len(units): path.append(units[int(t[1:])])
        elif t[0] == 'r':
            if int(t[1:]) < len(streams): rs.append(streams[int(t[1:])])
    recycle = None if not rs else (rs[0] if len(rs) == 1 and single else set(rs))
    return net.Network(path, recycle)


def run_probe(line, units, streams, rec):
    t = line.split()
    def ids(w):
        return [int(x) for x in w[2:].split(',') if x]
    if t[0] == 'psort' and t[2] == '(':
        ends = {streams[k] for k in ids(t[1]) if k < len(streams)}
        nw = build_network(t[3:], units, streams, single=(len(line) % 2 == 0))
        nw.sort(ends)
        rec.tags.add('probe:sort')
    elif t[0] == 'pdfs' and int(t[1]) < len(streams):
        ends = {streams[k] for k in ids(t[2]) if k < len(streams)}
        us = frozenset(units[k] for k in ids(t[3]) if k < len(units))
        net.find_paths_with_and_without_recycle(streams[int(t[1])], ends, us)
        rec.tags.add('probe:dfs')


def slug(s):
    return re.sub(r'[^A-Za-z0-9]+', '-', s).strip('-')[:60]


def run_round(rnd, rec, units, streams, shape, edges, order, probes, failures, tags):
    """one Network.from_units on the current connectivity of the real objects"""
    global REC
    n = len(shape)
    where = '' if rnd == 0 else f' (round {rnd}: the same units after re-piping)'
    rec.lines.append((graph_line(units, streams), 'ok'))
    inq = in_quantifier(shape, edges)
    nw, exc = None, None
    REC = rec
    rec.last_warn = 0
    try:
        with warnings.catch_warnings():
            warnings.simplefilter('ignore')
            for line in probes: run_probe(line, units, streams, rec)
            rec.last_warn = 0; rec.fu_recycle = False; rec.in_from_units = True
            nw = net.Network.from_units([units[i] for i in order])
    except Exception as e:      # the property promises a path: an exception is a failure of it
        exc = e
    finally:
        REC = None
        rec.in_from_units = False
    # the whole pipeline is modelled as long as no walk finds a recycle: the final network must be reproduced;
    # as soon as a walk of the real code reports a recycle the model must answer err=recycle
    fm = ','.join(str(int(x.F_mass)) for x in streams)
    if rec.fu_recycle: want = 'err=recycle'; tags.append('pipeline:recycle')
    elif nw is None: want = 'raised'
    else: want = ' '.join(rec.tokens(nw)) + f' warn={rec.last_warn}'; tags.append('pipeline:modelled')
    rec.lines.append((f'fromunits o={",".join(map(str, order))} f={fm}', want))
    last = len(rec.lines)
    fails = []
    if nw is not None:
        verdict, cyclic = check_network(units, nw)
        R = nw.get_all_recycles()
        rec.lines.append((f'valid R={rec.ids(R)} ' + ' '.join(rec.tokens(nw)), verdict))
        kind = 'cyclic' if cyclic else 'acyclic'
        tags.append(kind); tags.append(f'{kind}:{verdict}')
        if any(isinstance(i, net.Network) for i in nw.path): tags.append('result:nested')
        if verdict != 'valid':
            sig = f'{kind}:{verdict}'
            what = f'Network.from_units on a {kind} flowsheet of {n} units{where}: checker verdict `{verdict}`'
            if verdict == 'units':
                flat = set(flatten(nw.path))
                missing = {k for k, u in enumerate(units) if u not in flat}
                extra = [u for u in flat if u not in set(units)]
                if not extra and missing == set(range(n)) - fed_units(shape, edges):
                    sig += ':not-reachable-from-a-feed'
                    what += f'; units {sorted(missing)} are missing from the path (no feed reaches them)'
                else:
                    what += f'; missing units {sorted(missing)}, foreign items {len(extra)}'
            fails.append({'signature': sig, 'op_index': last, 'what': what + f'; path={" ".join(rec.tokens(nw))}'})
    else:
        edges_r = real_edges(units)
        rm = reach_map(units, edges_r)
        kind = 'cyclic' if any(u in rm[u] for u in units) else 'acyclic'
        tags.append(kind); tags.append(f'{kind}:raises')
        fails.append({'signature': f'{kind}:raises:{type(exc).__name__}:{slug(str(exc))}', 'op_index': last,
                      'what': f'Network.from_units raised {type(exc).__name__}({str(exc)[:80]!r}) on a {kind} '
                              f'flowsheet of {n} units{where}'})
    if inq: failures.extend(fails)
    else: tags.append('outside-quantifier')


def run_impl(case: Case) -> ImplResult:
    shape, fmass, rounds = parse_case(case.ops)
    n = len(shape)
    if n == 0:
        return ImplResult(model_in=[], outs=[], failures=[], tags=['empty'], nontrivial=None)
    units, streams = build(shape, rounds[0][0], fmass)
    rec = Recorder(units)
    failures, tags = [], []
    prev = None
    for rnd, (edges, order, probes) in enumerate(rounds):
        if rnd:
            rewire(units, streams, shape, prev, edges)
            tags.append('rewired')
        run_round(rnd, rec, units, streams, shape, edges, order, probes, failures, tags)
        prev = edges
    tags.append(f'n={n}'); tags.append(f'rounds={len(rounds)}')
    tags.extend(sorted(rec.tags))
    key = (tuple(shape), tuple(sorted(fmass.items())), tuple((tuple(e), tuple(o)) for e, o, _ in rounds))
    return ImplResult(model_in=[l for l, _ in rec.lines], outs=[o for _, o in rec.lines], failures=failures,
                      tags=tags, nontrivial=(key if any(e for e, _, _ in rounds) else None))


def disagree_signature(case, res, first):
    return 'disagree:' + (res.model_in[first].split(' ')[0] if first < len(res.model_in) else 'length')


# --------------------------------------------------------------------------
# generation
# --------------------------------------------------------------------------

def gen_random(rng, n, nback, extra=None):
    """connected DAG on units 0..n-1 (edges low → high) + up to `nback` back-edges; None if it does not fit"""
    shape = [(rng.randint(1, 3), rng.randint(1, 3)) for _ in range(n)]
    free_out = {u: list(range(shape[u][1])) for u in range(n)}
    free_in = {u: list(range(shape[u][0])) for u in range(n)}
    edges = []

    def connect(u, v):
        if free_out[u] and free_in[v]:
            edges.append(((u, free_out[u].pop(rng.randrange(len(free_out[u])))),
                          (v, free_in[v].pop(rng.randrange(len(free_in[v]))))))
            return True
        return False
    for v in range(1, n):
        cands = [u for u in range(v) if free_out[u]]
        if not cands: return None
        connect(rng.choice(cands), v)
    for _ in range(rng.randint(0, n) if extra is None else extra):
        u = rng.randrange(n - 1); v = rng.randrange(u + 1, n)
        connect(u, v)
    for _ in range(nback):
        u, v = rng.randrange(n), rng.randrange(n)
        if u == v: continue
        if u > v: u, v = v, u
        connect(v, u)
    if not in_quantifier(shape, edges): return None
    used = {e[1] for e in edges}
    fmass = {}
    for u in range(n):
        for p in range(shape[u][0]):
            if (u, p) not in used and rng.random() < 0.7:
                fmass[(u, p)] = rng.choice([1, 1, 2, 3, 4, 5, 8])
    # relabel the units so that the topological order is not the index order
    relabel = list(range(n)); rng.shuffle(relabel)
    shape2 = [None] * n
    for u in range(n): shape2[relabel[u]] = shape[u]
    edges2 = [((relabel[a[0]], a[1]), (relabel[b[0]], b[1])) for a, b in edges]
    rng.shuffle(edges2)
    fmass2 = {(relabel[u], p): v for (u, p), v in fmass.items()}
    return shape2, edges2, fmass2


def gen_probes(rng, shape, edges):
    """random direct probes of Network.sort and of the depth-first walk on the same flowsheet"""
    n = len(shape)
    nstreams = sum(a + b for a, b in shape) - len(edges)
    internal = list(range(len(edges)))
    out = []
    for _ in range(rng.randint(1, 3)):
        ends = sorted(set(rng.sample(range(nstreams), rng.randint(0, min(4, nstreams)))))
        if rng.random() < 0.5:     # cut so few streams that mutual reachability survives
            ends = [e for e in ends if e >= len(edges)]
        us = list(range(n)); rng.shuffle(us)
        if rng.random() < 0.2: us = us[:rng.randint(1, n)]
        def nest(items, depth):
            toks = ['(']
            k = 0
            while k < len(items):
                if depth < 2 and len(items) - k >= 1 and rng.random() < 0.25:
                    m = rng.randint(1, min(4, len(items) - k))
                    toks += nest(items[k:k + m], depth + 1); k += m
                else:
                    toks.append(f'u{items[k]}'); k += 1
            if internal and rng.random() < 0.35:
                toks += [f'r{r}' for r in sorted(set(rng.sample(internal, rng.randint(1, min(2, len(internal))))))]
            toks.append(')')
            return toks
        out.append(f'psort e={",".join(map(str, ends))} ' + ' '.join(nest(us, 0)))
    for _ in range(rng.randint(0, 2)):
        ends = sorted(set(rng.sample(range(nstreams), rng.randint(0, min(3, nstreams)))))
        us = sorted(rng.sample(range(n), rng.randint(max(1, n - 2), n)))
        out.append(f'pdfs {rng.randrange(nstreams)} e={",".join(map(str, ends))} u={",".join(map(str, us))}')
    return out


def swap_units(edges, a, b):
    m = {a: b, b: a}
    return [((m.get(x[0], x[0]), x[1]), (m.get(y[0], y[0]), y[1])) for x, y in edges]


def mutate_edges(rng, shape, edges):
    """another connectivity of the same units: swap two units of equal shape, move one end of a stream to a free
    port, add a stream (possibly a back-edge), remove one; None if nothing inside the quantifier was found"""
    n = len(shape)
    for _ in range(12):
        es = list(edges)
        for _ in range(rng.choice([1, 1, 2])):
            kind = rng.choice(['swap', 'swap', 'swap', 'move', 'move', 'add', 'remove'])
            free_out = [(u, p) for u in range(n) for p in range(shape[u][1]) if (u, p) not in {a for a, _ in es}]
            free_in = [(u, p) for u in range(n) for p in range(shape[u][0]) if (u, p) not in {b for _, b in es}]
            if kind == 'swap':
                pairs = [(a, b) for a in range(n) for b in range(a + 1, n) if shape[a] == shape[b]]
                if pairs: es = swap_units(es, *rng.choice(pairs))
            elif kind == 'move' and es:
                k = rng.randrange(len(es)); a, b = es[k]
                if rng.random() < 0.5 and free_in: es[k] = (a, rng.choice(free_in))
                elif free_out: es[k] = (rng.choice(free_out), b)
            elif kind == 'add' and free_out and free_in:
                a, b = rng.choice(free_out), rng.choice(free_in)
                if a[0] != b[0]: es.append((a, b))
            elif kind == 'remove' and len(es) > 1:
                es.pop(rng.randrange(len(es)))
        es = [e for e in es if e[0][0] != e[1][0]]
        if sorted(es) != sorted(edges) and clean_edges(shape, es) == es and in_quantifier(shape, es):
            # at most 3 streams against a topological order of the rest is not checked here: the generator
            # only ever adds one stream per step, so the count stays small
            return es
    return None


def orders(rng, n, k):
    """k distinct orders of n units (all of them if k >= n!)"""
    if math.factorial(n) <= k:
        return [list(p) for p in itertools.permutations(range(n))]
    seen = set()
    while len(seen) < k:
        p = list(range(n)); rng.shuffle(p); seen.add(tuple(p))
    return [list(p) for p in sorted(seen)]


def small_dags(n):
    """every connected simple DAG on 0..n-1 with edges i<j and in/out degree <= 3; ports = degrees (>= 1)"""
    pairs = [(i, j) for i in range(n) for j in range(i + 1, n)]
    for mask in range(1, 1 << len(pairs)):
        es = [pairs[k] for k in range(len(pairs)) if mask >> k & 1]
        indeg = collections.Counter(b for _, b in es); outdeg = collections.Counter(a for a, _ in es)
        if any(indeg[u] > 3 or outdeg[u] > 3 for u in range(n)): continue
        shape = [(max(indeg[u], 1), max(outdeg[u], 1)) for u in range(n)]
        oi, ii, edges = collections.Counter(), collections.Counter(), []
        for a, b in es:
            edges.append(((a, oi[a]), (b, ii[b]))); oi[a] += 1; ii[b] += 1
        if in_quantifier(shape, edges):
            yield shape, edges


def generate(rng, tier, index, nworkers):
    b = budget(tier)
    # ---- exhaustive part, dealt round-robin to the workers
    nmax = 4 if tier == 'quick' else 5
    k = 0
    for n in range(2, nmax + 1):
        for shape, edges in small_dags(n):
            pairs = [(a, b) for a in range(n) for b in range(a + 1, n) if shape[a] == shape[b]]
            for order in itertools.permutations(range(n)):
                k += 1
                if k % nworkers == index:
                    more = []
                    if pairs:       # second round: the same units with two of them (equal ports) swapped
                        es = swap_units(edges, *pairs[k % len(pairs)])
                        if in_quantifier(shape, es): more = [(es, list(order))]
                    yield make_case(shape, edges, {}, list(order), more)
    # ---- random part
    share = max(1, b['cases'] // nworkers)
    produced = 0
    perm_cap = 6 if tier == 'quick' else 720
    while produced < share:
        r = rng.random()
        n = rng.randint(2, 6) if r < 0.6 else rng.randint(7, 10)
        nback = rng.choice([0, 0, 1, 1, 2, 3])
        g = gen_random(rng, n, nback)
        if g is None: continue
        shape, edges, fmass = g
        if n <= 6:
            os_ = orders(rng, n, perm_cap if rng.random() < 0.25 else 3)
        else:
            os_ = orders(rng, n, 3)
        for o in os_:
            more, cur = [], edges
            if rng.random() < 0.6:
                for _ in range(rng.choice([1, 1, 2])):
                    nxt = mutate_edges(rng, shape, cur)
                    if nxt is None: break
                    o2 = list(o)
                    if rng.random() < 0.5: rng.shuffle(o2)
                    more.append((nxt, o2)); cur = nxt
            yield make_case(shape, edges, fmass, o, more, gen_probes(rng, shape, edges))
            produced += 1


def corpus():
    C = lambda *ops: Case(list(ops), {})
    return [
        # two units in series, both orders
        C('units 1:1 1:1', 'edge 0.0 1.0', 'order 0,1'),
        C('units 1:1 1:1', 'edge 0.0 1.0', 'order 1,0'),
        # diamond with the larger feed on the second branch
        C('units 1:2 1:1 2:1 2:1', 'edge 0.0 1.0', 'edge 0.1 2.0', 'edge 1.0 3.0', 'edge 2.0 3.1', 'fmass 2.1 8',
          'order 3,2,1,0'),
        # the two nested recycle loops of the Network docstring (P1 P2 P3 M1 M2 S2 S1)
        C('units 1:1 1:1 1:1 3:1 3:1 1:2 1:2', 'edge 0.0 3.0', 'edge 1.0 3.1', 'edge 2.0 4.1', 'edge 3.0 4.0',
          'edge 4.0 5.0', 'edge 5.0 6.0', 'edge 5.1 4.2', 'edge 6.1 3.2', 'fmass 0.0 8', 'fmass 1.0 1', 'fmass 2.0 1',
          'order 0,1,2,3,4,5,6'),
        # one loop, feed enters inside the loop
        C('units 2:1 1:2', 'edge 0.0 1.0', 'edge 1.1 0.1', 'order 1,0'),
        # findings (see fixes_proposed/C19-*.md): join order of recycle networks / a loop that no feed reaches
        C('units 2:1 2:2 3:3', 'edge 0.0 1.1', 'edge 1.0 2.0', 'edge 2.0 1.0', 'edge 1.1 0.1', 'order 2,0,1'),
        C('units 1:1 1:2', 'edge 0.0 1.0', 'edge 1.1 0.0', 'order 0,1'),
        # histories on the same objects: a train A → B → C, then B and C swapped, then swapped back
        C('units 1:1 1:1 1:1', 'edge 0.0 1.0', 'edge 1.0 2.0', 'order 0,1,2',
          'rewire', 'edge 0.0 2.0', 'edge 2.0 1.0', 'order 0,1,2',
          'rewire', 'edge 0.0 1.0', 'edge 1.0 2.0', 'order 2,1,0'),
        # a loop is closed and opened again on the same units
        C('units 2:1 1:2', 'edge 0.0 1.0', 'order 0,1',
          'rewire', 'edge 0.0 1.0', 'edge 1.1 0.1', 'order 1,0',
          'rewire', 'edge 0.0 1.0', 'order 1,0'),
    ]


def search(case, rng, budget_s):
    """near a disagreement: other unit orders of the same history, looking for an oracle failure"""
    import time
    t0 = time.time()
    shape, fmass, rounds = parse_case(case.ops)
    n = len(shape)
    while n and time.time() - t0 < budget_s:
        def o():
            x = list(range(n)); rng.shuffle(x); return x
        c = make_case(shape, rounds[0][0], fmass, o(), [(e, o()) for e, _, _ in rounds[1:]], rounds[0][2])
        if run_impl(c).failures: return c
    return None
