"""
C19 — the simulation order derived from a flowsheet is complete and follows material flow.

Adapter for `Network.from_units` (thermosteam/network.py) on real `AbstractUnit` /
`AbstractStream` objects, generator of flowsheets, and the property oracle (the Python
twin of the Lean checker `validNetwork`, evaluated on the real `Network` only).
The Lean model is lean/ThermoVerif/Model/NetSort.lean, the driver lean/Driver/C19.lean.

A case is a flowsheet:
    units 1:2 2:1 …        number of inlet:outlet ports of unit 0, 1, …   (all fixed-size)
    edge 0.1 2.0           outlet 1 of unit 0 feeds inlet 0 of unit 2
    fmass 2.1 5            F_mass of the feed stream at inlet 1 of unit 2 (default 0)
    order 2,0,1            the order in which the units are handed to Network.from_units
    psort e=3,4 ( u1 ( u0 u2 r5 ) )   probe: build this Network from the real units and call .sort(ends)
    pdfs 4 e=3 u=0,1,2     probe: find_paths_with_and_without_recycle(stream 4, ends, units) on the real objects
(stream ids: the streams of the `edge` lines in order, then the remaining ports unit by unit, inlets first)
    outside 2              the last 2 units of the `units` line belong to the flowsheet but are NOT handed to
                           from_units (it gets a section of the flowsheet: streams from / to them are feeds / products)
    mark 3 / unmark 3      thermosteam.network.mark_disjunction / unmark_disjunction on stream 3 (an outlet of a unit), executed in
                           line order before the round's from_units; marking is idempotent and unmarking removes the mark, so a
                           round is judged as the plain flowsheet exactly when every marked stream has been unmarked again;
    mbuild                 from_units while a stream is marked: only the captured walks / sorts are compared, nothing is judged
    rewire                 starts another round on the SAME unit and stream objects: the `edge` / `order` lines that
                           follow describe the new connectivity; the adapter empties every port and re-pipes the
                           existing stream objects (a stream keeps its role — product, feed, internal, same source
                           port — wherever possible, so the end streams handed to Network.sort stay the same objects),
                           then calls Network.from_units again.  Every round is compared and judged like the first.

What is compared with the model (one driver line each, captured by wrapping the real
functions at run time): `sort_feeds_big_to_small`, every call of
`find_paths_with_and_without_recycle`, every top-level call of `Network.sort`
(nested path and recycles before → after, number of "could not be determined" warnings),
and the verdict of `validNetwork` on the final network.
"""
from __future__ import annotations
import itertools, math, random, re, warnings, collections
from harness.core import Case, ImplResult

PID = 'C19'
LEAN_MODULES = ['ThermoVerif.Props.C19', 'ThermoVerif.Props.C19Pipeline']
RULE = ('histories of 1-3 rounds on the same unit and stream objects (build, re-pipe, build again: two units of equal '
        'ports swapped, a stream end moved, a stream added or removed); each round: connected flowsheets of 2-10 units with 1-3 inlet and outlet ports each, several feeds (with different '
        'F_mass) and products, 0-3 back-edges such that every unit still reaches a product, handed to '
        'Network.from_units in every / sampled orders (quick: every order for a quarter of the flowsheets with <= 4 units, '
        '24 orders for 5-6 units; thorough: every order up to 6 units); 15 % of the cases hand from_units a section of the '
        'flowsheet (1-2 units left out); exhaustive part: every connected simple DAG on <= 4 (quick) / '
        '5 (thorough) units with in/out degree <= 3 in every unit order; a case is non-trivial when it has at least one '
        'stream between two units; distinct = distinct (ports, edges, F_mass, order)')
ASSUMPTIONS = [
    'the assembly of Network.from_units is modelled end to end as long as no walk reports a recycle (every acyclic '
    'flowsheet): feeds, sort_feeds_big_to_small, the walk of every feed, simplified_linear_paths, join_linear_network, '
    '_remove_overlap, _insert_linear_network, _append_network, join_network_at_unit, first_unit, final sort; '
    'the model answers err=recycle exactly when a walk of the real code reports a recycle',
    'hypotheses of the theorems, monitored by the driver on every flowsheet (answer of the graph line): every stream '
    'ends in a given unit or nowhere (Graph.SinksOK), one outlet list per unit, every unit has an outlet',
    'the exact order of the final path is not compared (any order that respects material flow is as good): the '
    'fromunits line compares units with multiplicity, recycles, warning count and checker verdict; the exact-path '
    'agreement rate is reported in the evidence (pipeline_exact_path_agreement)',
    'the recycle part of the assembly (join_recycle_network, _insert_recycle_network, _add_linear_network, '
    'reduce_recycles) is not modelled; on cyclic flowsheets its output is validated per run by validNetwork',
    'Network.units of every (sub-)network equals the units of its flattened path when Network.sort runs (monitored)',
    'Python sets are modelled as duplicate-free lists, compared after sorting',
    'no interaction / universal / auxiliary units, no missing streams, no explicit feed priorities; disjunctions only as '
    'histories of mark_disjunction / unmark_disjunction: a build is judged only when every marked stream has been unmarked '
    'again (the plain flowsheet of the property); builds while a stream is marked are compared walk by walk, not judged',
]
TRUSTED = ['Lean 4.33 kernel', 'correspondence harness harness/props/c19.py + Driver/C19.lean',
           'generator reach (see histogram)', 'Python twin of validNetwork agrees with the Lean checker (compared every case)']
EXHAUSTIVE = {'quick': False, 'thorough': False}

net = None
VStream = None
CLASSES = {}
REC = None          # active recorder
NCASE = 0
WARN_TEXT = 'network path could not be determined'


class Recorder:
    def __init__(self, units):
        self.idx = {u: k for k, u in enumerate(units)}
        self.lines = []       # (driver line, expected answer)
        self.depth = 0
        self.tags = set()
        self.last_warn = 0
        self.in_from_units = False
        self.fu_recycle = False
        self.foreign = False
        self.asm = set()
        self.trace = False           # line tracing of the recycle assembly: every 4th case (it is slow)
        self.marked = set()          # stream ids that are disjunctions by the documented semantics of mark / unmark

    def sid(self, s):
        return s.n

    def ids(self, streams):
        return ','.join(str(x) for x in sorted(self.sid(s) for s in streams))

    def tokens(self, nw, monitor=False):
        out = ['(']
        for i in nw.path:
            if isinstance(i, net.Network): out.extend(self.tokens(i, monitor))
            elif i in self.idx: out.append(f'u{self.idx[i]}')
            else: out.append('x'); self.foreign = True      # not one of the given units
        r = nw.recycle
        if r:
            rs = [r] if hasattr(r, 'sink') else list(r)
            out.extend(f'r{k}' for k in sorted(self.sid(s) for s in rs))
        out.append(')')
        if monitor and set(flatten(nw.path)) != set(nw.units):
            out.append('units-attr-differs-from-path')       # hypothesis monitor: makes the line disagree
        return out


def flatten(path):
    out = []
    for i in path:
        if isinstance(i, net.Network): out.extend(flatten(i.path))
        else: out.append(i)
    return out


def setup():
    global net, VStream
    import thermosteam as tmo
    from thermosteam import network as net_
    net = net_
    tmo.settings.set_thermo(['Water'], cache=True)
    warnings.simplefilter('ignore')

    class VStream_(net.AbstractStream):
        __slots__ = ('F_mass', 'n')
    VStream = VStream_

    orig_sort = net.Network.sort
    orig_find = net.find_paths_with_and_without_recycle
    orig_feeds = net.sort_feeds_big_to_small

    def sort(self, ends):
        rec = REC
        if rec is None or rec.depth > 0:
            return orig_sort(self, ends)
        before = rec.tokens(self, monitor=True)
        e = rec.ids(ends)
        rec.depth += 1
        try:
            with warnings.catch_warnings(record=True) as w:
                warnings.simplefilter('always')
                orig_sort(self, ends)
        finally:
            rec.depth -= 1
        nwarn = sum(1 for x in w if WARN_TEXT in str(x.message))
        after = rec.tokens(self)
        if 'x' not in before and 'x' not in after:
            rec.lines.append((f'sort e={e} ' + ' '.join(before), ' '.join(after) + f' warn={nwarn}'))
        rec.last_warn = nwarn
        if nwarn: rec.tags.add('sort:warned')
        if before != after: rec.tags.add('sort:changed')
        if [t for t in before if t[0] == 'r'] != [t for t in after if t[0] == 'r']: rec.tags.add('sort:added-recycle')
        if before.count('(') > 1: rec.tags.add('sort:nested')

    def find(feed, ends, units):
        rec = REC
        if rec is None:
            return orig_find(feed, ends, units)
        e = rec.ids(ends)
        us = ','.join(str(k) for k in sorted(rec.idx[u] for u in units))
        W, L = orig_find(feed, ends, units)
        def p(path): return '.'.join(str(rec.idx[u]) for u in path) if path else '_'
        ans = ('W=[' + ';'.join(f'{p(path)}>{rec.sid(r)}' for path, r in W) + '] L=[' + ';'.join(p(path) for path in L)
               + '] E=[' + rec.ids(ends) + ']')
        rec.lines.append((f'dfs {rec.sid(feed)} e={e} u={us}', ans))
        if W: rec.tags.add('dfs:recycle')
        if W and rec.in_from_units: rec.fu_recycle = True
        return W, L

    def feeds(fs):
        rec = REC
        if rec is None or not fs:
            return orig_feeds(fs)
        before = list(fs)
        orig_feeds(fs)
        order = []
        for f in fs:
            order.append(next(k for k, b in enumerate(before) if b is f and k not in order))
        rec.lines.append(('feeds ' + ','.join(str(int(f.F_mass)) for f in before), 'order=' + ','.join(map(str, order))))
        if order != sorted(order): rec.tags.add('feeds:reordered')

    # which lines of the (unmodelled) recycle assembly really ran during from_units: evidence tags `asm:<function>+<line>`
    import sys as _sys
    traced = {'join_recycle_network', '_insert_recycle_network', 'join_network_at_unit', '_append_network',
              '_add_linear_network', 'reduce_recycles'}
    netfile = net.__file__

    def local_trace(frame, event, arg):
        if event == 'line' and REC is not None:
            code = frame.f_code
            REC.asm.add(f'asm:{code.co_name}+{frame.f_lineno - code.co_firstlineno}')
        return local_trace

    def global_trace(frame, event, arg):
        code = frame.f_code
        if event == 'call' and code.co_name in traced and code.co_filename == netfile: return local_trace
        return None

    orig_from_units = net.Network.from_units.__func__

    def from_units(cls, units, *a, **k):
        rec = REC
        if rec is None or not rec.in_from_units or not rec.trace or _sys.gettrace() is not None:
            return orig_from_units(cls, units, *a, **k)
        _sys.settrace(global_trace)
        try: return orig_from_units(cls, units, *a, **k)
        finally: _sys.settrace(None)
    net.Network.from_units = classmethod(from_units)

    net.Network.sort = sort
    net.find_paths_with_and_without_recycle = find
    net.sort_feeds_big_to_small = feeds


def budget(tier):
    return {'quick': dict(seconds=55, cases=10000, shrink_s=15, search_s=5),
            'thorough': dict(seconds=420, cases=250000, shrink_s=40, search_s=20)}[tier]


# --------------------------------------------------------------------------
# case ↔ flowsheet
# --------------------------------------------------------------------------

def ucls(ni, no):
    if (ni, no) not in CLASSES:
        CLASSES[(ni, no)] = type(f'VU{ni}{no}', (net.AbstractUnit,), dict(
            _N_ins=ni, _N_outs=no, _ins_size_is_fixed=True, _outs_size_is_fixed=True, _init=lambda self: None))
    return CLASSES[(ni, no)]


def clean_edges(shape, edges):
    """keep only well-formed, non-conflicting edges (a shrunk case may have lost lines)"""
    n = len(shape)
    used_o, used_i, good = set(), set(), []
    for (a, b) in edges:
        if a[0] < n and b[0] < n and a[1] < shape[a[0]][1] and b[1] < shape[b[0]][0] and a not in used_o and b not in used_i:
            used_o.add(a); used_i.add(b); good.append((a, b))
    return good


def parse_case(ops):
    """→ shape, fmass, rounds = [(edges, order, probe lines)]"""
    shape, fmass, outside = [], {}, 0
    raw = [[[], None, []]]
    for line in ops:
        t = line.split()
        if t[0] == 'units':
            shape = [tuple(int(x) for x in w.split(':')) for w in t[1:]]
        elif t[0] == 'outside':
            outside = int(t[1])
        elif t[0] == 'rewire':
            raw.append([[], None, []])
        elif t[0] == 'edge':
            a, b = (tuple(int(x) for x in w.split('.')) for w in t[1:3])
            raw[-1][0].append((a, b))
        elif t[0] == 'fmass':
            fmass[tuple(int(x) for x in t[1].split('.'))] = int(t[2])
        elif t[0] == 'order':
            raw[-1][1] = [int(x) for x in t[1].split(',')]
        elif t[0] in ('psort', 'pdfs', 'mark', 'unmark', 'mbuild'):
            raw[-1][2].append(line)
    n = len(shape)
    m = n - outside if 0 <= outside < n else n          # units 0..m-1 are handed to from_units
    rounds = []
    for edges, order, probes in raw:
        if order is None or sorted(order) != list(range(m)): order = list(range(m))
        rounds.append((clean_edges(shape, edges), order, probes))
    return shape, fmass, rounds, m


def induced(shape, edges, m):
    """the section made of units 0..m-1"""
    return shape[:m], [e for e in edges if e[0][0] < m and e[1][0] < m]


def round_ops(edges, order, probes=()):
    return [f'edge {a[0]}.{a[1]} {b[0]}.{b[1]}' for a, b in edges] + list(probes) + ['order ' + ','.join(map(str, order))]


def make_case(shape, edges, fmass, order, more_rounds=(), probes=(), outside=0):
    ops = ['units ' + ' '.join(f'{a}:{b}' for a, b in shape)]
    if outside: ops.append(f'outside {outside}')
    ops += [f'fmass {k[0]}.{k[1]} {v}' for k, v in sorted(fmass.items()) if v]
    ops += round_ops(edges, order, probes)
    for e, o in more_rounds:
        ops.append('rewire')
        ops += round_ops(e, o)
    return Case(ops, {})


def build(shape, edges, fmass):
    outmap = {e[0]: e for e in edges}
    inmap = {e[1]: e for e in edges}
    streams = []

    def new():
        s = VStream(None); s.F_mass = 0; s.n = len(streams); streams.append(s); return s
    estream = {e: new() for e in edges}
    units = []
    for u, (ni, no) in enumerate(shape):
        ins = [estream[inmap[(u, p)]] if (u, p) in inmap else new() for p in range(ni)]
        outs = [estream[outmap[(u, p)]] if (u, p) in outmap else new() for p in range(no)]
        units.append(ucls(ni, no)(f'.U{u}', ins=ins, outs=outs))
    for (u, p), v in fmass.items():
        if u < len(units) and p < shape[u][0] and (u, p) not in inmap:
            units[u].ins[p].F_mass = v
    return units, streams


def rewire(units, streams, shape, prev_edges, edges):
    """Re-pipe the SAME unit objects to the connectivity `edges`, re-using the existing stream objects:
    a stream keeps its role (internal stream leaving the same outlet port, product, feed) wherever possible."""
    prev_src = {a for a, _ in prev_edges}; prev_snk = {b for _, b in prev_edges}
    out_at = {(u, p): units[u]._outs[p] for u, (ni, no) in enumerate(shape) for p in range(no)}
    in_at = {(u, p): units[u]._ins[p] for u, (ni, no) in enumerate(shape) for p in range(ni)}
    real = lambda x: isinstance(x, net.AbstractStream)
    internal = [out_at[a] for a, _ in prev_edges if real(out_at[a])]
    products = [x for port, x in out_at.items() if port not in prev_src and real(x)]
    feeds = [x for port, x in in_at.items() if port not in prev_snk and real(x)]
    used = set()

    def take(cands):
        for x in cands:
            if x is not None and real(x) and id(x) not in used:
                used.add(id(x)); return x
        return None
    src = {a for a, _ in edges}; snk = {b for _, b in edges}
    prod_ports = [port for port in out_at if port not in src]
    feed_ports = [port for port in in_at if port not in snk]
    estream, pstream, fstream = {}, {}, {}
    for e in edges:                                   # same outlet port, still internal
        if e[0] in prev_src: estream[e] = take([out_at[e[0]]])
    for port in prod_ports:                           # same port, still a product
        if port not in prev_src: pstream[port] = take([out_at[port]])
    for port in feed_ports:
        if port not in prev_snk: fstream[port] = take([in_at[port]])
    for e in edges:
        if estream.get(e) is None: estream[e] = take(internal)
    for port in prod_ports:
        if pstream.get(port) is None: pstream[port] = take(products)
    for port in feed_ports:
        if fstream.get(port) is None: fstream[port] = take(feeds)

    def new():
        x = VStream(None); x.F_mass = 0; x.n = len(streams); streams.append(x); return x
    pool = internal + products + feeds
    for d, keys in ((estream, edges), (pstream, prod_ports), (fstream, feed_ports)):
        for k in keys:
            if d.get(k) is None: d[k] = take(pool) or new()
    for u in units:
        u.ins.empty(); u.outs.empty()
    for (a, b), x in estream.items():
        units[a[0]].outs[a[1]] = x
        units[b[0]].ins[b[1]] = x
    for (u, p), x in pstream.items(): units[u].outs[p] = x
    for (u, p), x in fstream.items(): units[u].ins[p] = x


def graph_line(units, streams):
    idx = {u: k for k, u in enumerate(units)}
    def per_unit(attr):
        return ';'.join('.'.join(str(s.n) for s in getattr(u, attr)) for u in units)
    def opt(x):
        return str(idx[x]) if x in idx else '-'
    return (f'graph {len(units)} o={per_unit("_outs")} i={per_unit("_ins")} '
            f'k={",".join(opt(s._sink) for s in streams)} c={",".join(opt(s._source) for s in streams)}')


# --------------------------------------------------------------------------
# the property, on the real objects (Python twin of ThermoVerif.NetSort.checkNetwork)
# --------------------------------------------------------------------------

def real_edges(units):
    given = set(units)
    return [(u, s._sink) for u in units for s in u._outs if s._sink in given]


def reach_map(units, edges):
    succ = collections.defaultdict(set)
    for a, b in edges: succ[a].add(b)
    out = {}
    for u in units:
        seen, todo = set(), [u]
        while todo:
            x = todo.pop()
            for y in succ[x]:
                if y not in seen: seen.add(y); todo.append(y)
        out[u] = seen
    return out


def loops(nw, acc):
    if nw.recycle: acc.append(set(flatten(nw.path)))
    for i in nw.path:
        if isinstance(i, net.Network): loops(i, acc)
    return acc


def nested_recycles(nw, acc):
    """the recycles carried by the network and its sub-networks (twin of allRecycles)"""
    r = nw.recycle
    if r: acc.extend([r] if hasattr(r, 'sink') else list(r))
    for i in nw.path:
        if isinstance(i, net.Network): nested_recycles(i, acc)
    return acc


def check_network(units, nw):
    """→ (every failing clause in the checker's order, cyclic).  Observes the real Network and the real units only.
    Each clause is judged on its own, so that one failure cannot hide another."""
    flat = flatten(nw.path)
    R = nw.get_all_recycles()
    given = set(units)
    edges = real_edges(units)
    rm = reach_map(units, edges)
    cyclic = any(u in rm[u] for u in units)
    if set(flat) != given: return ['units'], cyclic
    bad = []
    if len(flat) != len(set(flat)): bad.append('dup')
    if set(R) != set(nested_recycles(nw, [])): bad.append('recycle-set')
    pos = {}
    for k, u in enumerate(flat): pos.setdefault(u, k)        # first occurrence
    if cyclic:
        if not R: bad.append('no-recycle')
        else:
            cut = [(u, s._sink) for u in units for s in u._outs if s._sink in given and s not in R]
            rm2 = reach_map(units, cut)
            if any(u in rm2[u] for u in units): bad.append('recycles-do-not-cut')
        def on_cycle(r):
            a, b = r._source, r._sink
            return a in given and b in given and any(x is r for x in a._outs) and (a is b or a in rm[b])
        if not all(on_cycle(r) for r in R): bad.append('recycle-off-cycle')
        lp = loops(nw, [])
        if any(not pos[a] < pos[b] and not (a in rm[b] and any(a in l and b in l for l in lp)) for a, b in edges):
            bad.append('backward')
    else:
        if any(not pos[a] < pos[b] for a, b in edges): bad.append('order')
        if R: bad.append('recycle-on-dag')
    return bad, cyclic


def dup_in_parent_and_subnetwork(nw):
    """every repeated unit stands once as an item of a network and again inside ONE of that network's
    sub-networks (the shape left by join_recycle_network's nested branch), and nowhere else"""
    flat = flatten(nw.path)
    cnt = collections.Counter(flat)
    dups = {u for u, c in cnt.items() if c > 1}
    if not dups or any(cnt[u] != 2 for u in dups): return False
    explained = set()
    def walk(n_):
        direct = [i for i in n_.path if not isinstance(i, net.Network)]
        for c in n_.path:
            if isinstance(c, net.Network):
                inside = flatten(c.path)
                for u in direct:
                    if u in dups and inside.count(u) == 1: explained.add(u)
                walk(c)
    walk(nw)
    return explained == dups


def dup_in_recycle_less_sibling(nw):
    """every repeated unit occurs exactly twice, in two sub-networks that are items of the same network, one of
    which carries no recycle (the shape left by _insert_recycle_network when it absorbs a sub-network)"""
    flat = flatten(nw.path)
    cnt = collections.Counter(flat)
    dups = {u for u, c in cnt.items() if c > 1}
    if not dups or any(cnt[u] != 2 for u in dups): return False
    explained = set()
    def walk(n_):
        subs = [c for c in n_.path if isinstance(c, net.Network)]
        for a in subs:
            for b in subs:
                if a is not b and not b.recycle:
                    fa, fb = flatten(a.path), flatten(b.path)
                    for u in dups:
                        if fa.count(u) == 1 and fb.count(u) == 1: explained.add(u)
        for c in subs: walk(c)
    walk(nw)
    return explained == dups


def cyclomatic(units, edges, rm):
    """sum over the non-trivial strongly connected components of (streams - units + 1)"""
    comp, k = {}, 0
    for u in units:
        if u in comp: continue
        if u in rm[u]:
            for v in units:
                if v is u or (v in rm[u] and u in rm[v]): comp[v] = k
            k += 1
    total = 0
    for c in range(k):
        vs = [u for u in units if comp.get(u) == c]
        es = [1 for a, b in edges if comp.get(a) == c and comp.get(b) == c]
        total += len(es) - len(vs) + 1
    return total


def in_quantifier(shape, edges):
    """connected, 2-10 units with 1-3 ports, every unit reaches a product"""
    n = len(shape)
    if not 2 <= n <= 10: return False
    if any(not (1 <= a <= 3 and 1 <= b <= 3) for a, b in shape): return False
    adj = collections.defaultdict(set)
    for (a, _), (b, _) in edges: adj[a].add(b); adj[b].add(a)
    seen, todo = {0}, [0]
    while todo:
        x = todo.pop()
        for y in adj[x]:
            if y not in seen: seen.add(y); todo.append(y)
    if len(seen) != n: return False
    used = {e[0] for e in edges}
    ok = {u for u in range(n) if any((u, p) not in used for p in range(shape[u][1]))}
    ch = True
    while ch:
        ch = False
        for (a, _), (b, _) in edges:
            if b in ok and a not in ok: ok.add(a); ch = True
    return len(ok) == n


def fed_units(shape, edges):
    n = len(shape); used = {e[1] for e in edges}
    fed = {u for u in range(n) if any((u, p) not in used for p in range(shape[u][0]))}
    ch = True
    while ch:
        ch = False
        for (a, _), (b, _) in edges:
            if a in fed and b not in fed: fed.add(b); ch = True
    return fed


def build_network(tokens, units, streams, single):
    """tokens after the opening `(` → (Network, rest)"""
    path, rs = [], []
    while tokens:
        t = tokens.pop(0)
        if t == ')': break
        if t == '(':
            path.append(build_network(tokens, units, streams, single))
        elif t[0] == 'u':
            if int(t[1:]) < len(units): path.append(units[int(t[1:])])
        elif t[0] == 'r':
            if int(t[1:]) < len(streams): rs.append(streams[int(t[1:])])
    recycle = None if not rs else (rs[0] if len(rs) == 1 and single else set(rs))
    return net.Network(path, recycle)


def run_probe(line, units, streams, rec):
    t = line.split()
    def ids(w):
        return [int(x) for x in w[2:].split(',') if x]
    if t[0] == 'psort' and t[2] == '(':
        ends = {streams[k] for k in ids(t[1]) if k < len(streams)}
        nw = build_network(t[3:], units, streams, single=(len(line) % 2 == 0))
        nw.sort(ends)
        rec.tags.add('probe:sort')
    elif t[0] == 'pdfs' and int(t[1]) < len(streams):
        ends = {streams[k] for k in ids(t[2]) if k < len(streams)}
        us = frozenset(units[k] for k in ids(t[3]) if k < len(units))
        net.find_paths_with_and_without_recycle(streams[int(t[1])], ends, us)
        rec.tags.add('probe:dfs')


def slug(s):
    return re.sub(r'[^A-Za-z0-9]+', '-', s).strip('-')[:60]


def canon(tokens, warn, verdict):
    """what the property can see of a network (compared), then the exact nested path (reported only)"""
    us = sorted(int(t[1:]) for t in tokens if t[0] == 'u')
    rs = sorted(int(t[1:]) for t in tokens if t[0] == 'r')
    return (f'units={",".join(map(str, us))} R={",".join(map(str, rs))} warn={warn} verdict={verdict} | '
            + ' '.join(tokens))


def run_round(rnd, rec, units, streams, shape, edges, order, probes, failures, tags, m):
    """one Network.from_units on the current connectivity of the real objects"""
    global REC
    given = units[:m]
    gshape, gedges = induced(shape, edges, m)
    n = m
    where = '' if rnd == 0 else f' (round {rnd}: the same units after re-piping)'
    if m < len(units): where += f' (a section: {len(units) - m} more unit(s) of the flowsheet are not given)'; tags.append('section')
    rec.lines.append((graph_line(given, streams), 'ok'))
    inq = in_quantifier(gshape, gedges)
    nw, exc = None, None
    REC = rec
    rec.last_warn = 0
    rec.foreign = False
    try:
        with warnings.catch_warnings():
            warnings.simplefilter('ignore')
            for line in probes:
                t = line.split()
                if t[0] in ('mark', 'unmark'):
                    k = int(t[1])
                    if k < len(streams) and streams[k]._source is not None:
                        if t[0] == 'mark': net.mark_disjunction(streams[k]); rec.marked.add(k)
                        else: net.unmark_disjunction(streams[k]); rec.marked.discard(k)
                        tags.append('disjunction:' + t[0])
                elif t[0] == 'mbuild':
                    if rec.marked:
                        try: net.Network.from_units([given[i] for i in order])
                        except Exception: pass
                        tags.append('disjunction:build-while-marked')
                else:
                    run_probe(line, given, streams, rec)
            rec.last_warn = 0; rec.fu_recycle = False; rec.in_from_units = True
            nw = net.Network.from_units([given[i] for i in order])
    except Exception as e:      # the property promises a path: an exception is a failure of it
        exc = e
    finally:
        REC = None
        rec.in_from_units = False
    if rec.marked:
        # a stream is (still) a disjunction: the flowsheet is not the plain one the property speaks of; the walks and
        # sorts of this build were compared line by line, the result is not judged
        tags.append('disjunction:round-not-judged')
        return
    if any(l.startswith(('mark', 'unmark')) for l in probes): tags.append('disjunction:judged-after-unmark')
    edges_r = real_edges(given)
    rm = reach_map(given, edges_r)
    cyclic = any(u in rm[u] for u in given)
    kind = 'cyclic' if cyclic else 'acyclic'
    tags.append(kind)
    if cyclic: tags.append(f'cyclomatic={min(cyclomatic(given, edges_r, rm), 4)}')
    verdict, toks = None, None
    if nw is not None:
        rec.foreign = False
        toks = rec.tokens(nw)
        clauses = ['units'] if rec.foreign else check_network(given, nw)[0]
        verdict = clauses[0] if clauses else 'valid'
    # the whole pipeline is modelled as long as no walk finds a recycle: then the model's network must agree with
    # the real one in everything the property talks about (units with multiplicity, recycles, warning, verdict);
    # the exact order is reported, not compared.  As soon as a walk of the real code reports a recycle the model
    # must answer err=recycle.
    fm = ','.join(str(int(x.F_mass)) for x in streams)
    if rec.fu_recycle: want = 'err=recycle'; tags.append('pipeline:recycle')
    elif nw is None: want = 'raised'
    elif rec.foreign: want = 'foreign-item-in-path'
    else: want = canon(toks, rec.last_warn, verdict); tags.append('pipeline:modelled')
    rec.lines.append((f'fromunits o={",".join(map(str, order))} f={fm}', want))
    last = len(rec.lines)
    fails = []
    if nw is not None:
        if not rec.foreign:
            rec.lines.append((f'valid R={rec.ids(nw.get_all_recycles())} ' + ' '.join(toks), f'{verdict} all={",".join(clauses)}'))
        tags.append(f'{kind}:{verdict}')
        if any(isinstance(i, net.Network) for i in nw.path): tags.append('result:nested')
        if nw.recycle: tags.append('result:top-recycle')
        if cyclic and not clauses:
            # not claimed by the property text, counted so that a drift is visible: warning of the final sort,
            # loops that hold units on no cycle
            if rec.last_warn: tags.append('unclaimed:final-sort-warned')
            if any(any(u not in rm[u] for u in l) for l in loops(nw, [])): tags.append('unclaimed:loop-holds-unit-off-cycle')
        for clause in clauses:            # one failure per failing clause: a listed finding cannot hide another clause
            sig = f'{kind}:{clause}'
            what = f'Network.from_units on a {kind} flowsheet of {n} units{where}: checker clause `{clause}` fails'
            if clause == 'units':
                flat = set(flatten(nw.path))
                missing = {k for k, u in enumerate(given) if u not in flat}
                extra = [u for u in flat if u not in set(given)]
                if not extra and missing == set(range(n)) - fed_units(gshape, gedges):
                    sig += ':not-reachable-from-a-feed'
                    what += f'; units {sorted(missing)} are missing from the path (no feed reaches them)'
                else:
                    what += f'; missing units {sorted(missing)}, foreign items {len(extra)}'
            elif clause == 'dup' and cyclic and dup_in_parent_and_subnetwork(nw):
                sig += ':unit-in-network-and-in-its-subnetwork'
                what += '; a unit is an item of a network and is listed again inside one of its sub-networks'
            elif clause == 'dup' and cyclic and dup_in_recycle_less_sibling(nw):
                sig += ':units-repeated-in-a-recycle-less-sibling-subnetwork'
                what += '; units of a loop are listed again in a sibling sub-network that carries no recycle'
            if m < len(units) and sig.count(':') == 1: sig += ':section'
            fails.append({'signature': sig, 'op_index': last, 'what': what + f'; path={" ".join(toks)}'})
    else:
        tags.append(f'{kind}:raises')
        fails.append({'signature': f'{kind}:raises:{type(exc).__name__}:{slug(str(exc))}' + (':section' if m < len(units) else ''),
                      'op_index': last,
                      'what': f'Network.from_units raised {type(exc).__name__}({str(exc)[:80]!r}) on a {kind} '
                              f'flowsheet of {n} units{where}'})
    if inq: failures.extend(fails)
    else: tags.append('outside-quantifier')


def run_impl(case: Case) -> ImplResult:
    shape, fmass, rounds, m = parse_case(case.ops)
    n = len(shape)
    if n == 0:
        return ImplResult(model_in=[], outs=[], failures=[], tags=['empty'], nontrivial=None)
    del net.disjunctions[:]               # the registry is module-level state: every case starts from an empty one
    units, streams = build(shape, rounds[0][0], fmass)
    rec = Recorder(units[:m])
    global NCASE
    NCASE += 1
    rec.trace = NCASE % 4 == 0 or bool(case.meta.get('family'))
    failures, tags = [], []
    if rec.trace: tags.append('asm:traced-case')
    prev = None
    for rnd, (edges, order, probes) in enumerate(rounds):
        if rnd:
            for k in sorted(rec.marked): net.unmark_disjunction(streams[k])     # marks are tied to ports: lift them first
            rec.marked.clear()
            rewire(units, streams, shape, prev, edges)
            tags.append('rewired')
        run_round(rnd, rec, units, streams, shape, edges, order, probes, failures, tags, m)
        prev = edges
    del net.disjunctions[:]
    if case.meta.get('family'): tags.append('family:' + case.meta['family'])
    tags.append(f'n={m}'); tags.append(f'rounds={len(rounds)}'); tags.append(f'orders-of-flowsheet={case.meta.get("orders", 1)}')
    tags.extend(sorted(rec.tags)); tags.extend(sorted(rec.asm))
    key = (tuple(shape), m, tuple(sorted(fmass.items())), tuple((tuple(e), tuple(o)) for e, o, _ in rounds))
    return ImplResult(model_in=[l for l, _ in rec.lines], outs=[o for _, o in rec.lines], failures=failures,
                      tags=tags, nontrivial=(key if any(e for e, _, _ in rounds) else None))


def compare(impl_line, model_line):
    """everything before ` | ` is compared exactly; after it comes the exact nested path, which the property does
    not fix (any order that respects material flow is as good) — it is only counted (extra_evidence)"""
    return impl_line.split(' | ')[0] == model_line.split(' | ')[0]


def extra_evidence(executed, model_outs):
    same = diff = 0
    for (case, res), mo in zip(executed, model_outs):
        for a, b in zip(res.outs, mo):
            if ' | ' in a and ' | ' in b:
                if a == b: same += 1
                else: diff += 1
    return {'pipeline_exact_path_agreement': {'same': same, 'different_but_equivalent_or_flagged': diff}}


def disagree_signature(case, res, first):
    return 'disagree:' + (res.model_in[first].split(' ')[0] if first < len(res.model_in) else 'length')


# --------------------------------------------------------------------------
# generation
# --------------------------------------------------------------------------

def gen_random(rng, n, nback, extra=None):
    """connected DAG on units 0..n-1 (edges low → high) + up to `nback` back-edges; None if it does not fit"""
    shape = [(rng.randint(1, 3), rng.randint(1, 3)) for _ in range(n)]
    free_out = {u: list(range(shape[u][1])) for u in range(n)}
    free_in = {u: list(range(shape[u][0])) for u in range(n)}
    edges = []

    def connect(u, v):
        if free_out[u] and free_in[v]:
            edges.append(((u, free_out[u].pop(rng.randrange(len(free_out[u])))),
                          (v, free_in[v].pop(rng.randrange(len(free_in[v]))))))
            return True
        return False
    for v in range(1, n):
        cands = [u for u in range(v) if free_out[u]]
        if not cands: return None
        connect(rng.choice(cands), v)
    for _ in range(rng.randint(0, n) if extra is None else extra):
        u = rng.randrange(n - 1); v = rng.randrange(u + 1, n)
        connect(u, v)
    for _ in range(nback):
        u, v = rng.randrange(n), rng.randrange(n)
        if u > v: u, v = v, u
        connect(v, u)                     # u == v: a stream from a unit back to itself
    if not in_quantifier(shape, edges): return None
    used = {e[1] for e in edges}
    fmass = {}
    for u in range(n):
        for p in range(shape[u][0]):
            if (u, p) not in used and rng.random() < 0.7:
                fmass[(u, p)] = rng.choice([1, 1, 2, 3, 4, 5, 8])
    # relabel the units so that the topological order is not the index order
    relabel = list(range(n)); rng.shuffle(relabel)
    shape2 = [None] * n
    for u in range(n): shape2[relabel[u]] = shape[u]
    edges2 = [((relabel[a[0]], a[1]), (relabel[b[0]], b[1])) for a, b in edges]
    rng.shuffle(edges2)
    fmass2 = {(relabel[u], p): v for (u, p), v in fmass.items()}
    return shape2, edges2, fmass2


def gen_probes(rng, shape, edges):
    """random direct probes of Network.sort and of the depth-first walk on the same flowsheet"""
    n = len(shape)
    nstreams = sum(a + b for a, b in shape) - len(edges)
    internal = list(range(len(edges)))
    out = []
    for _ in range(rng.randint(1, 3)):
        ends = sorted(set(rng.sample(range(nstreams), rng.randint(0, min(4, nstreams)))))
        if rng.random() < 0.5:     # cut so few streams that mutual reachability survives
            ends = [e for e in ends if e >= len(edges)]
        us = list(range(n)); rng.shuffle(us)
        if rng.random() < 0.2: us = us[:rng.randint(1, n)]
        def nest(items, depth):
            toks = ['(']
            k = 0
            while k < len(items):
                if depth < 2 and len(items) - k >= 1 and rng.random() < 0.25:
                    m = rng.randint(1, min(4, len(items) - k))
                    toks += nest(items[k:k + m], depth + 1); k += m
                else:
                    toks.append(f'u{items[k]}'); k += 1
            if internal and rng.random() < 0.35:
                toks += [f'r{r}' for r in sorted(set(rng.sample(internal, rng.randint(1, min(2, len(internal))))))]
            toks.append(')')
            return toks
        out.append(f'psort e={",".join(map(str, ends))} ' + ' '.join(nest(us, 0)))
    for _ in range(rng.randint(0, 2)):
        ends = sorted(set(rng.sample(range(nstreams), rng.randint(0, min(3, nstreams)))))
        us = sorted(rng.sample(range(n), rng.randint(max(1, n - 2), n)))
        out.append(f'pdfs {rng.randrange(nstreams)} e={",".join(map(str, ends))} u={",".join(map(str, us))}')
    return out


def swap_units(edges, a, b):
    m = {a: b, b: a}
    return [((m.get(x[0], x[0]), x[1]), (m.get(y[0], y[0]), y[1])) for x, y in edges]


def mutate_edges(rng, shape, edges, m=None):
    """another connectivity of the same units: swap two units of equal shape, move one end of a stream to a free
    port, add a stream (possibly a back-edge), remove one; None if nothing inside the quantifier was found"""
    n = len(shape)
    for _ in range(12):
        es = list(edges)
        for _ in range(rng.choice([1, 1, 2])):
            kind = rng.choice(['swap', 'swap', 'swap', 'move', 'move', 'add', 'remove'])
            free_out = [(u, p) for u in range(n) for p in range(shape[u][1]) if (u, p) not in {a for a, _ in es}]
            free_in = [(u, p) for u in range(n) for p in range(shape[u][0]) if (u, p) not in {b for _, b in es}]
            if kind == 'swap':
                pairs = [(a, b) for a in range(n) for b in range(a + 1, n) if shape[a] == shape[b]]
                if pairs: es = swap_units(es, *rng.choice(pairs))
            elif kind == 'move' and es:
                k = rng.randrange(len(es)); a, b = es[k]
                if rng.random() < 0.5 and free_in: es[k] = (a, rng.choice(free_in))
                elif free_out: es[k] = (rng.choice(free_out), b)
            elif kind == 'add' and free_out and free_in:
                a, b = rng.choice(free_out), rng.choice(free_in)
                es.append((a, b))
            elif kind == 'remove' and len(es) > 1:
                es.pop(rng.randrange(len(es)))
        if sorted(es) != sorted(edges) and clean_edges(shape, es) == es and \
                in_quantifier(*induced(shape, es, len(shape) if m is None else m)):
            # at most 3 streams against a topological order of the rest is not checked here: the generator
            # only ever adds one stream per step, so the count stays small
            return es
    return None


DISJ_PATTERNS = [
    ['mark a', 'unmark a'], ['mark a', 'mark a', 'unmark a'], ['mark a', 'mbuild', 'unmark a'],
    ['mark a', 'mark b', 'unmark b', 'unmark a'], ['mark a', 'mark a', 'unmark a', 'unmark a'], ['unmark a'],
    ['mark a', 'mbuild', 'mark a', 'unmark a'], ['mark a', 'unmark a', 'mark b', 'mark b', 'unmark b'], ['mark a'],
    ['mark a', 'mark b', 'unmark a'],
]


def gen_disjunctions(rng, edges):
    """a history of mark_disjunction / unmark_disjunction calls on streams between units (ids = position in `edges`)"""
    if not edges: return []
    a = rng.randrange(len(edges)); b = rng.randrange(len(edges))
    ids = {'a': str(a), 'b': str(b)}
    return [' '.join(ids.get(w, w) for w in l.split()) for l in rng.choice(DISJ_PATTERNS)]


def orders(rng, n, k):
    """k distinct orders of n units (all of them if k >= n!)"""
    if math.factorial(n) <= k:
        return [list(p) for p in itertools.permutations(range(n))]
    seen = set()
    while len(seen) < k:
        p = list(range(n)); rng.shuffle(p); seen.add(tuple(p))
    return [list(p) for p in sorted(seen)]


def small_dags(n):
    """every connected simple DAG on 0..n-1 with edges i<j and in/out degree <= 3; ports = degrees (>= 1)"""
    pairs = [(i, j) for i in range(n) for j in range(i + 1, n)]
    for mask in range(1, 1 << len(pairs)):
        es = [pairs[k] for k in range(len(pairs)) if mask >> k & 1]
        indeg = collections.Counter(b for _, b in es); outdeg = collections.Counter(a for a, _ in es)
        if any(indeg[u] > 3 or outdeg[u] > 3 for u in range(n)): continue
        shape = [(max(indeg[u], 1), max(outdeg[u], 1)) for u in range(n)]
        oi, ii, edges = collections.Counter(), collections.Counter(), []
        for a, b in es:
            edges.append(((a, oi[a]), (b, ii[b]))); oi[a] += 1; ii[b] += 1
        if in_quantifier(shape, edges):
            yield shape, edges


def small_cyclic(n):
    """every small DAG of `small_dags(n)` with one extra stream against the order (a back-edge j → i, j > i)"""
    for shape, edges in small_dags(n):
        for i_ in range(n):
            for j_ in range(i_ + 1, n):
                if shape[j_][1] >= 3 or shape[i_][0] >= 3: continue
                sh = list(shape)
                used_o = {a for a, _ in edges}; used_i = {b for _, b in edges}
                # a sink unit keeps its product port, a source unit its feed port
                po = max((p for (u, p) in used_o if u == j_), default=-1) + 1
                pi = max((p for (u, p) in used_i if u == i_), default=-1) + 1
                sh[j_] = (sh[j_][0], max(sh[j_][1], po + 1 + (1 if po == 0 else 0)))
                sh[i_] = (max(sh[i_][0], pi + 1 + (1 if pi == 0 else 0)), sh[i_][1])
                if sh[j_][1] > 3 or sh[i_][0] > 3: continue
                es = edges + [((j_, po), (i_, pi))]
                if in_quantifier(sh, es): yield sh, es


def loop_cluster(L, intervals, big, second):
    """a train of L units with a back-edge j → i for every interval (i, j): loops that share units, nest or follow each
    other; the largest feed enters at unit `big`, the second largest at `second` (so loops are discovered from different
    feeds, after sub-networks already exist); None if the ports do not suffice"""
    ins = {u: 0 for u in range(L)}; outs = {u: 0 for u in range(L)}
    edges = []
    def connect(a, b):
        edges.append(((a, outs[a]), (b, ins[b]))); outs[a] += 1; ins[b] += 1
    for u in range(L - 1): connect(u, u + 1)
    for (i_, j_) in intervals: connect(j_, i_)
    if any(ins[u] > 3 or outs[u] > 3 for u in range(L)): return None
    shape, fmass = [], {}
    for u in range(L):
        ni = ins[u] + (1 if ins[u] < 3 else 0)          # a feed port where there is room
        no = outs[u] + (1 if outs[u] < 3 and (u == L - 1 or u % 2 == 0) else 0)
        shape.append((max(ni, 1), max(no, 1)))
        if ni > ins[u]: fmass[(u, ins[u])] = 8 if u == big else (4 if u == second else 1)
    if not in_quantifier(shape, edges): return None
    return shape, edges, fmass


def loop_clusters(tier):
    """deterministic family: 2-3 loops on a train of 3-5 units, every choice of the two largest feeds"""
    for L in (3, 4, 5):
        ivs = [(i_, j_) for i_ in range(L) for j_ in range(i_, L) if (i_, j_) != (0, L - 1) or L == 3]
        combos = list(itertools.combinations(ivs, 2)) + (list(itertools.combinations(ivs, 3)) if L <= 4 else [])
        if L == 5 and tier == 'quick': combos = combos[::7]
        for iv in combos:
            for big in range(L):
                for second in range(L):
                    if second == big: continue
                    if L >= 4 and tier == 'quick' and (big + second) % 2: continue
                    g = loop_cluster(L, iv, big, second)
                    if g is not None: yield g


def loop_chains():
    """three loops in a row on a train of 4-6 units, (0..a), (a..b), (b..L-1): the long last loop is joined first, the
    first loop then absorbs it through the connecting one (the absorbing branch of _insert_recycle_network)"""
    for L in (4, 5, 6):
        for a in range(1, L - 1):
            for b_ in range(a + 1, L - 1):
                for big in range(L):
                    for second in range(L):
                        if second == big: continue
                        g = loop_cluster(L, [(0, a), (a, b_), (b_, L - 1)], big, second)
                        if g is not None: yield g


def with_meta(case, norders):
    case.meta['orders'] = norders if norders <= 6 else ('7-24' if norders <= 24 else '>24')
    return case


def generate(rng, tier, index, nworkers):
    b = budget(tier)
    # ---- exhaustive part, dealt round-robin to the workers: small DAGs and small one-loop flowsheets, every order
    nmax = 4 if tier == 'quick' else 5
    k = 0
    for n in range(2, nmax + 1):
        for shape, edges in small_dags(n):
            pairs = [(a, b) for a in range(n) for b in range(a + 1, n) if shape[a] == shape[b]]
            for order in itertools.permutations(range(n)):
                k += 1
                if k % nworkers == index:
                    more = []
                    if pairs:       # second round: the same units with two of them (equal ports) swapped
                        es = swap_units(edges, *pairs[k % len(pairs)])
                        if in_quantifier(shape, es): more = [(es, list(order))]
                    yield with_meta(make_case(shape, edges, {}, list(order), more), math.factorial(n))
    for n in range(2, (3 if tier == 'quick' else 4) + 1):
        for shape, edges in small_cyclic(n):
            for order in itertools.permutations(range(n)):
                k += 1
                if k % nworkers == index:
                    yield with_meta(make_case(shape, edges, {}, list(order)), math.factorial(n))
    # ---- loop clusters (nested loops sharing units, sibling loops, loops found from secondary feeds)
    for shape, edges, fmass in itertools.chain(loop_clusters(tier), loop_chains()):
        n = len(shape)
        os_ = [list(p_) for p_ in itertools.permutations(range(n))] if n <= 3 else orders(random.Random(k), n, 4 if tier == 'quick' else 12)
        for o in os_:
            k += 1
            if k % nworkers == index:
                c = with_meta(make_case(shape, edges, fmass, o), len(os_)); c.meta['family'] = 'loop-cluster'
                yield c
    # ---- random part
    share = max(1, b['cases'] // nworkers)
    produced = 0
    perm_cap = 24 if tier == 'quick' else 720
    while produced < share:
        r = rng.random()
        n = rng.randint(2, 6) if r < 0.6 else rng.randint(7, 10)
        nback = rng.choice([0, 0, 1, 1, 2, 3])
        g = gen_random(rng, n, nback)
        if g is None: continue
        shape, edges, fmass = g
        # a section of the flowsheet: the last 1-2 units are not handed to from_units
        m = n
        if n >= 3 and rng.random() < 0.15:
            for kk in (rng.choice([1, 2]), 1):
                if n - kk >= 2 and in_quantifier(*induced(shape, edges, n - kk)): m = n - kk; break
        if m <= 6:
            # every order (quick: up to 24, i.e. all for <= 4 units) for a quarter of the small flowsheets
            os_ = orders(rng, m, perm_cap if rng.random() < 0.25 else 3)
        else:
            os_ = orders(rng, m, 3)
        gshape, gedges = induced(shape, edges, m)
        for o in os_:
            more, cur = [], edges
            if rng.random() < 0.6:
                for _ in range(rng.choice([1, 1, 2])):
                    nxt = mutate_edges(rng, shape, cur, m)
                    if nxt is None: break
                    o2 = list(o)
                    if rng.random() < 0.5: rng.shuffle(o2)
                    more.append((nxt, o2)); cur = nxt
            probes = gen_probes(rng, shape, edges) if m == n else []
            if rng.random() < 0.12: probes = probes + gen_disjunctions(rng, edges)
            yield with_meta(make_case(shape, edges, fmass, o, more, probes, n - m), len(os_))
            produced += 1


def corpus():
    C = lambda *ops: Case(list(ops), {})
    return [
        # two units in series, both orders
        C('units 1:1 1:1', 'edge 0.0 1.0', 'order 0,1'),
        C('units 1:1 1:1', 'edge 0.0 1.0', 'order 1,0'),
        # diamond with the larger feed on the second branch
        C('units 1:2 1:1 2:1 2:1', 'edge 0.0 1.0', 'edge 0.1 2.0', 'edge 1.0 3.0', 'edge 2.0 3.1', 'fmass 2.1 8',
          'order 3,2,1,0'),
        # the two nested recycle loops of the Network docstring (P1 P2 P3 M1 M2 S2 S1)
        C('units 1:1 1:1 1:1 3:1 3:1 1:2 1:2', 'edge 0.0 3.0', 'edge 1.0 3.1', 'edge 2.0 4.1', 'edge 3.0 4.0',
          'edge 4.0 5.0', 'edge 5.0 6.0', 'edge 5.1 4.2', 'edge 6.1 3.2', 'fmass 0.0 8', 'fmass 1.0 1', 'fmass 2.0 1',
          'order 0,1,2,3,4,5,6'),
        # one loop, feed enters inside the loop
        C('units 2:1 1:2', 'edge 0.0 1.0', 'edge 1.1 0.1', 'order 1,0'),
        # findings (see fixes_proposed/C19-*.md): join order of recycle networks / a loop that no feed reaches
        C('units 2:1 2:2 3:3', 'edge 0.0 1.1', 'edge 1.0 2.0', 'edge 2.0 1.0', 'edge 1.1 0.1', 'order 2,0,1'),
        C('units 1:1 1:2', 'edge 0.0 1.0', 'edge 1.1 0.0', 'order 0,1'),
        # a unit listed both in the outer path and inside the loop (fixes_proposed/C19-3.md)
        C('units 3:3 3:3 2:2', 'fmass 1.2 2', 'fmass 2.1 2', 'edge 1.2 0.0', 'edge 2.1 0.2', 'edge 0.2 2.0', 'edge 0.1 1.1',
          'order 2,1,0'),
        # a section of a flowsheet: the third unit feeds the second but is not handed to from_units
        C('units 1:1 2:1 1:1', 'outside 1', 'edge 0.0 1.0', 'edge 2.0 1.1', 'order 1,0'),
        # units of a loop repeated in a recycle-less sibling sub-network (fixes_proposed/C19-4.md): complete flowsheet, section
        C('units 2:3 1:3 2:1 1:3 1:2 3:1 3:1 1:3 2:2', 'edge 1.2 6.1', 'edge 3.1 6.0', 'edge 8.1 0.0', 'edge 6.0 8.1', 'edge 0.2 8.0',
          'edge 8.0 3.0', 'edge 3.0 4.0', 'edge 0.1 2.1', 'edge 5.0 1.0', 'edge 2.0 0.1', 'edge 0.0 7.0'),
        C('units 3:2 3:3 2:1 3:3 3:3', 'outside 1', 'edge 3.0 0.2', 'edge 4.1 2.0', 'edge 1.2 0.0', 'edge 1.0 2.1', 'edge 0.1 3.0',
          'edge 2.0 1.2', 'edge 3.2 4.0', 'order 2,3,1,0'),
        # a stream marked as a disjunction twice and unmarked once: the flowsheet is the plain one again
        C('units 2:1 1:2', 'edge 0.0 1.0', 'edge 1.1 0.1', 'mark 1', 'mark 1', 'unmark 1', 'order 0,1'),
        C('units 1:1 1:1 1:1', 'edge 0.0 1.0', 'edge 1.0 2.0', 'mark 0', 'mbuild', 'unmark 0', 'order 2,1,0'),
        # histories on the same objects: a train A → B → C, then B and C swapped, then swapped back
        C('units 1:1 1:1 1:1', 'edge 0.0 1.0', 'edge 1.0 2.0', 'order 0,1,2',
          'rewire', 'edge 0.0 2.0', 'edge 2.0 1.0', 'order 0,1,2',
          'rewire', 'edge 0.0 1.0', 'edge 1.0 2.0', 'order 2,1,0'),
        # a loop is closed and opened again on the same units
        C('units 2:1 1:2', 'edge 0.0 1.0', 'order 0,1',
          'rewire', 'edge 0.0 1.0', 'edge 1.1 0.1', 'order 1,0',
          'rewire', 'edge 0.0 1.0', 'order 1,0'),
    ]


def search(case, rng, budget_s):
    """near a disagreement: other unit orders of the same history, looking for an oracle failure"""
    import time
    t0 = time.time()
    shape, fmass, rounds, m = parse_case(case.ops)
    n = len(shape)
    while n and time.time() - t0 < budget_s:
        def o():
            x = list(range(m)); rng.shuffle(x); return x
        c = make_case(shape, rounds[0][0], fmass, o(), [(e, o()) for e, _, _ in rounds[1:]], rounds[0][2], n - m)
        if run_impl(c).failures: return c
    return None
