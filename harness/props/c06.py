"""
C06 — heat of reaction and adiabatic reaction close the energy balance.

Adapter: real `Reaction` / `ParallelReaction` / `SeriesReaction` / `ReactionSystem` objects (mol and wt basis,
untagged and phase-tagged) built through the public constructors, applied to real `Stream` / `MultiStream`
objects isothermally (`rxn(stream)`) and adiabatically (`rxn.adiabatic_reaction(stream, Q)`).
What is recorded from the real code and sent to the Lean model (Model/ReactionEnergy.lean, Driver/C06.lean):
the stoichiometry / reactant / conversion read back from the real objects, the flows before the reaction, the
real mixture enthalpy `stream.H` before and after (a *parameter* of the model), and for the adiabatic path the
value handed to the `H` setter (the setter is wrapped at run time; no source edits) and the enthalpy read back.
The model recomputes `Reaction.dH`, the reacted flows, `Hf`, `Hnet`, the heat released `Σ dH_k·feed_k`, the
setter target and the balance residual, and evaluates the hypothesis |H(T_out) − H_target| ≤ ε.

Oracle (real objects only, independent formula from the Chemical objects):
  * `Reaction.dH` = X · Σ ν (Hf + latent(phase_ref → phase)) (÷ MW on wt basis),
  * isothermal: ΔHnet = Σ dH_k·feed_k + ΔH − (latent part); exactly Σ dH_k·feed_k at 298.15 K when every reacting
    chemical is in its reference phase,
  * adiabatic: Hnet_after = Hnet_before + Q within the solver tolerance,
  * every H / Hnet read (before and after each reaction, also after another memoised property was read in between)
    equals H + Hf of a freshly built stream in the same state, and the adiabatic balance also holds on those values,
  * `dH_wt · MW_reactant = dH_mol` across `rxn.basis = 'wt'`; `dH` raises iff a reacting chemical is tagged with a
    phase outside s/l/g other than its reference phase; the dH of a set item is a scalar.
The per-reaction feeds of a series / system are observed by applying the real constituent reactions one after the
other to a copy of the real stream.
"""
from __future__ import annotations
import collections, math, warnings
from fractions import Fraction
from harness.core import Case, ImplResult, frac

PID = 'C06'
LEAN_MODULES = ['ThermoVerif.Props.C06']
RULE = ('a case = 1–4 real balanced reactions from a 17-reaction library over 12 chemicals with known Hf (random reactant, '
        'X ∈ [0,1] incl. 0 and 1, mol/wt basis (wt by conversion or defined by weight at construction), P ∈ {0.5,1,2,10,15} bar, streams in either chemical order and under the default ideal mixture (40 %+), the one with include_excess_energies=True (30 %) or a Peng–Robinson EOS mixture (30 %), untagged or phase-tagged with reference / random / invalid phases), optionally '
        'combined as ParallelReaction / SeriesReaction / ReactionSystem; dH of every reaction and set item; in 15 % of the cases a '
        'revision history on fresh Chemical copies (chemical.Hf / .Hfus = … of participating chemicals, chemicals.refresh_constants(), '
        'before or between the stream operations; reference = the chemicals\' current values); then isothermal and '
        'adiabatic reaction of gas / liquid / multi-phase feeds at 280–450 K (30 % at 298.15 K) with random non-negative '
        'compositions (some deficient → InfeasibleRegion), link histories (mass view read, link_with(copy, TP=False|True), then reactions), read-only Reaction.conversion(stream) queries before reacting, read histories (H/Hnet/C read, reaction at unchanged T and P, another '
        'memoised property peek=C|S|F_vol|rho|mu|kappa|Cn|V|Cp read, then Hnet or adiabatic_reaction on the same stream) and heat inputs Q = C·ΔT, ΔT ∈ [−40, 120] K, or the calorimetric duty Q = Hf(products) − Hnet(feed) / `Hnet := Hf` (H-setter target exactly 0.0); '
        'non-trivial = a reaction with X ≠ 0 applied to a feed containing its reactant; distinct = distinct op lists')
ASSUMPTIONS = [
    'H(n, T) (mixture enthalpy) is a parameter: the recorded stream.H values are passed to the model',
    'H-setter post-condition |H(T_out) − H_target| ≤ ε with ε = 1e-5·C + 1e-9·scale (monitored on every adiabatic op)',
    'stoichiometry, reactant index and X are read back from the real reaction objects (parsing / rescaling is C05)',
    'adiabatic / Hnet-setter ops whose T-solver raises or whose outlet state cannot be judged still compare the reacted flows and the '
    'setter target (adiat / sethnett lines) and are counted against ceilings (RATE_CEILINGS ≈ 3× the validated share; signature '
    'unjudged-rate-exceeded:*)',
    'adiabatic ops whose outlet temperature leaves [150, 3000] K are outside the quantifier and not judged; nor are those whose '
    'balance is off while H(T) of a fresh stream is not finite, strictly increasing and jump-free between inlet and outlet '
    'temperature (EOS root switching of gas-phase departure functions below saturation): outside the property models\' range',
    'the exact clause at 298.15 K is judged for the default ideal mixture only: with include_excess_energies=True H ≠ 0 at the '
    'reference state (departure functions), so only the general identity applies there',
    'states the property models reject (no gas model for glucose, negative solid Cp of H2, …) are skipped and counted (skip:*)',
    'that rxn(stream) leaves T, P and phase(s) untouched, and the Hnet setter, are decided by the oracle (plus the target / '
    'resid fields of the sethnet line), not by a theorem',
    'the exact clause "ΔHnet = Σ dH·feed" is judged only at 298.15 K with every reacting chemical in its reference phase; for '
    'chemicals tagged outside their reference phase the deviation (H models vs Hvap(298.15)/Hfus) is measured and tagged only',
    'Hvap(298.15 K), Hfus, Hf, MW, phase_ref are numbers for every chemical used (none is None)',
    'float results are compared with the exact-rational model at rtol 1e-9 of the magnitude of the summed terms',
    'the −1e-12 InfeasibleRegion test: either outcome is accepted only on lines the driver marks fragile=1, i.e. when the '
    'exact negatives\' sum is within the float-error bound 8·(K+1)·2⁻⁵³·Σ|summands| of the threshold (counted: model:fragile=1)',
]
TRUSTED = ['Lean 4.33 kernel', 'harness/props/c06.py + Driver/C06.lean', 'generator reach (see histogram)',
           'field-vs-float gap (tolerance 1e-9 relative to the summed magnitudes)']

tmo = None
IDS = ['Water', 'Ethanol', 'Methanol', 'Glucose', 'CO2', 'O2', 'H2', 'CH4', 'AceticAcid', 'N2', 'CO', 'EthylAcetate']
IDS_B = ['N2', 'CO2', 'EthylAcetate', 'Water', 'CH4', 'Glucose', 'O2', 'Methanol', 'H2', 'CO', 'Ethanol', 'AceticAcid']
THERMO = []           # [A, B, A+excess energies, B+excess energies, A+Peng–Robinson mixture, B+Peng–Robinson mixture]
CHEM = {}             # independent per-chemical data read from the CURRENT Chemical objects of the running case
BASE_CHEM = {}        # the same for the shared (never revised) package


def chem_data(chems):
    """per-chemical data read from the Chemical objects themselves (never from the compiled arrays)"""
    return {c.ID: dict(Hf=float(c.Hf), MW=float(c.MW), Hvap=float(c.Hvap(TREF)), Hfus=float(c.Hfus), ref=str(c.phase_ref))
            for c in chems}


def fresh_thermos():
    """two packages (orders A and B) over fresh copies of the chemicals: a case that revises chemical data works on
    these, so nothing leaks into other cases (or other plugins)"""
    cs = {c.ID: c.copy(c.ID, CAS=c.CAS) for c in THERMO[0].chemicals}
    base = [tmo.Thermo(tmo.Chemicals([cs[i] for i in IDS]), cache=False),
            tmo.Thermo(tmo.Chemicals([cs[i] for i in IDS_B]), cache=False)]
    return base + [with_excess(th) for th in base] + [with_PR(th) for th in base]


def with_PR(th):
    """the same compiled chemicals under a cubic equation-of-state mixture (Peng–Robinson): H and S carry EOS departure
    terms computed from total-flow arguments that the mixture object loads and clears around every solver call"""
    return tmo.Thermo(th.chemicals, mixture=tmo.PRMixture.from_chemicals(th.chemicals), cache=False)


def with_excess(th):
    """the same compiled chemicals under the mixture model that includes the excess (departure) energies in H and S
    (`IdealMixture.from_chemicals(chemicals, include_excess_energies=True)`, a public non-default option)"""
    return tmo.Thermo(th.chemicals, tmo.IdealMixture.from_chemicals(th.chemicals, include_excess_energies=True), cache=False)
_SETREC = []          # values handed to the H setters
TREF = 298.15
# the property models (thermo/chemicals correlations) may reject a state: such a read is outside the quantifier
PROP_ERRORS = (TypeError, AttributeError, ValueError, ZeroDivisionError, RuntimeError, OverflowError)
T_RANGE = (150.0, 3000.0)

# balanced reactions (atoms checked in setup through the real formula array)
LIB = [
    {'CH4': -1, 'O2': -2, 'CO2': 1, 'Water': 2},
    {'H2': -2, 'O2': -1, 'Water': 2},
    {'Ethanol': -1, 'O2': -3, 'CO2': 2, 'Water': 3},
    {'Methanol': -1, 'O2': -1.5, 'CO2': 1, 'Water': 2},
    {'Glucose': -1, 'Ethanol': 2, 'CO2': 2},
    {'Glucose': -1, 'O2': -6, 'CO2': 6, 'Water': 6},
    {'AceticAcid': -1, 'O2': -2, 'CO2': 2, 'Water': 2},
    {'Ethanol': -1, 'O2': -1, 'AceticAcid': 1, 'Water': 1},
    {'CO': -1, 'O2': -0.5, 'CO2': 1},
    {'CO': -1, 'Water': -1, 'CO2': 1, 'H2': 1},
    {'CH4': -1, 'Water': -1, 'CO': 1, 'H2': 3},
    {'CO': -1, 'H2': -2, 'Methanol': 1},
    {'Ethanol': -1, 'AceticAcid': -1, 'EthylAcetate': 1, 'Water': 1},
    {'Glucose': -1, 'AceticAcid': 3},
    {'CO2': -1, 'H2': -4, 'CH4': 1, 'Water': 2},
    {'Methanol': -1, 'CO': -1, 'AceticAcid': 1},
    {'Methanol': -2, 'Ethanol': 1, 'Water': 1},
]


def setup():
    global tmo
    import thermosteam as tmo_
    import numpy as np
    tmo = tmo_
    warnings.simplefilter('ignore')
    ca = tmo.Chemicals(IDS, cache=True)
    cb = tmo.Chemicals(IDS_B, cache=True)
    ta, tb = tmo.Thermo(ca, cache=False), tmo.Thermo(cb, cache=False)
    THERMO[:] = [ta, tb, with_excess(ta), with_excess(tb), with_PR(ta), with_PR(tb)]
    tmo.settings.set_thermo(ta)
    BASE_CHEM.clear(); BASE_CHEM.update(chem_data(ca))
    CHEM.clear(); CHEM.update({k: dict(v) for k, v in BASE_CHEM.items()})
    fa = ca.formula_array
    for d in LIB:
        v = np.zeros(len(IDS))
        for k, x in d.items(): v[IDS.index(k)] = x
        assert abs(fa @ v).max() < 1e-9, ('unbalanced library reaction', d)
    # record what adiabatic_reaction hands to the H setter
    for cls in (tmo.Stream, tmo.MultiStream):
        prop = cls.__dict__['H']
        if getattr(prop.fset, '_verif_wrapped', False): continue
        def mk(prop):
            def fset(self, H):
                _SETREC.append(float(H))
                prop.fset(self, H)
            fset._verif_wrapped = True
            return fset
        setattr(cls, 'H', property(prop.fget, mk(prop), doc=prop.__doc__))


def budget(tier):
    return {'quick': dict(seconds=85, cases=3200, shrink_s=20, search_s=5),
            'thorough': dict(seconds=540, cases=36000, shrink_s=40, search_s=10)}[tier]


# --------------------------------------------------------------------------
# independent formulas (oracle side): only Chemical-object data, never the model
# --------------------------------------------------------------------------

def indep_latent(ID, phase):
    """enthalpy of `phase` relative to the chemical's reference phase at 298.15 K"""
    c = CHEM[ID]
    level = {'s': 0.0, 'l': c['Hfus'], 'g': c['Hfus'] + c['Hvap']}
    if phase == c['ref']: return 0.0
    if phase not in level or c['ref'] not in level: raise KeyError(phase)
    return level[phase] - level[c['ref']]


def indep_dH(rec, latent=True, formation=True):
    """X · Σ ν (Hf + latent) (/MW on wt basis) from per-chemical data; Fractions so no rounding of our own.
    Returns (value, magnitude), or None when a touched chemical sits in a phase the latent table does not know."""
    tot = Fraction(0); scale = Fraction(0)
    for (p, i, nu) in rec['nz']:
        ID = IDS[i]; c = CHEM[ID]
        h = Fraction(0)
        if formation: h += Fraction(c['Hf'])
        if latent and rec['phases']:
            try: h += Fraction(indep_latent(ID, rec['phases'][p]))
            except KeyError: return None
        t = Fraction(nu) * h
        if rec['basis'] == 'wt': t /= Fraction(c['MW'])
        tot += t; scale += abs(t)
    X = Fraction(rec['X'])
    return float(X * tot), float(abs(X) * scale)


# --------------------------------------------------------------------------
# adapter
# --------------------------------------------------------------------------

def fr(x):
    x = float(x)
    if x != x or x in (math.inf, -math.inf): return 'nan'
    return frac(x)


def frs(xs): return ','.join(fr(x) for x in xs)


def flat_n(s, phases):
    """molar flows in the reaction's species order (phase rows of the reaction × chemicals of package A)"""
    if phases:
        return [float(s.imol[ph, ID]) for ph in phases for ID in IDS]
    return [float(s.imol[ID]) for ID in IDS]


def read_back(r):
    """stoichiometry / reactant / X / basis / phases of a real Reaction, through its public attributes"""
    import numpy as np
    phases = tuple(r.phases)
    arr = np.asarray(r.stoichiometry.to_array(), float)
    N = len(IDS)
    if phases:
        ph, ID = r.reactant
        ridx = phases.index(ph) * N + IDS.index(ID)
        flat = [float(x) for x in arr.reshape(-1)]
    else:
        ridx = IDS.index(r.reactant)
        flat = [float(x) for x in arr]
    nz = [(k // N, k % N, x) for k, x in enumerate(flat) if x != 0.0]
    return dict(nu=flat, r=ridx, X=float(r.X), basis=r.basis, phases=phases, nz=nz, reactant=r.reactant)


def amount(s, rec):
    """reactant amount in the reaction's basis units, read from the real stream"""
    key = rec['reactant']
    idx = s.imol if rec['basis'] == 'mol' else s.imass
    return float(idx[key])


PEEKS = ['C', 'S', 'F_vol', 'rho', 'mu', 'kappa', 'Cn', 'V', 'Cp']


def peek(s, t, tags):
    """read another memoised property of the stream (tokens `peek=<attr>`), as a user sizing a reactor would"""
    for tok in t:
        if tok.startswith('peek='):
            try: getattr(s, tok[5:])
            except Exception: tags.add('peek:raised'); continue
            tags.add('peek:' + tok[5:])


def fresh_energy(s):
    """(H, Hf) of a freshly built stream with the same flows, phase(s), T, P and property package: what
    `H(T, P, current flows)` and `Σ Hf_i n_i` are for the stream's *current* state, whatever was read before"""
    if isinstance(s, tmo.MultiStream):
        f = tmo.MultiStream(None, T=s.T, P=s.P, phases=tuple(s.phases), thermo=s.thermo)
        for ph in s.phases: f.imol[ph] = s.imol[ph]
    else:
        f = tmo.Stream(None, T=s.T, P=s.P, phase=s.phase, thermo=s.thermo)
        f.imol.data[:] = s.imol.data.to_array()
    return float(f.H), float(f.Hf)


def H_regular(s, Ta, Tb, points=41):
    """Is the stream's enthalpy model usable for an energy balance between Ta and Tb?  H(T) of a freshly built stream with
    the same flows / phase(s) / P is sampled over the interval (widened by 10 K): it must be finite, strictly increasing
    and free of jumps (consecutive increments within a factor 1.6 of each other; also on a 1/8 K grid around Tb).  Gas-phase departure functions of condensables below their
    saturation temperature (the package with excess energies at 10–15 bar) switch EOS roots and fail this: such an outlet
    temperature is outside the property models' range, the clause the quantifier excludes."""
    lo, hi = min(Ta, Tb) - 10.0, max(Ta, Tb) + 10.0
    if isinstance(s, tmo.MultiStream):
        f = tmo.MultiStream(None, T=lo, P=s.P, phases=tuple(s.phases), thermo=s.thermo)
        for ph in s.phases: f.imol[ph] = s.imol[ph]
    else:
        f = tmo.Stream(None, T=lo, P=s.P, phase=s.phase, thermo=s.thermo)
        f.imol.data[:] = s.imol.data.to_array()
    def smooth(lo, hi):
        Hs = []
        try:
            for k in range(points):
                f.T = lo + (hi - lo) * k / (points - 1)
                Hs.append(float(f.H))
        except PROP_ERRORS:
            return False
        if not all(map(math.isfinite, Hs)): return False
        inc = [b - a for a, b in zip(Hs, Hs[1:])]
        if min(inc) <= 0: return False
        return all(1 / 1.6 <= b / a <= 1.6 for a, b in zip(inc, inc[1:]))
    # the whole interval, then a fine look (1/8 K steps) around the outlet temperature: an unreachable target sits in a jump
    return smooth(lo, hi) and smooth(Tb - 2.5, Tb + 2.5)


def mass_view_ok(s, phases):
    """the array behind the stream's mass view (`stream.imass.data`, what a weight-basis reaction reads and writes) is its
    molar array times MW, position by position in the stream's own chemical order.  Relative tolerance 1e-9 of the largest
    entry; no absolute floor is needed: the view computes the same product n·MW."""
    import numpy as np
    m = np.asarray(s.imass.data.to_array(), float)
    ref = np.asarray(s.imol.data.to_array(), float) * np.asarray(s.chemicals.MW, float)
    top = max(float(np.abs(ref).max(initial=0.0)), float(np.abs(m).max(initial=0.0)))
    return bool((np.abs(m - ref) <= 1e-9 * top).all()), m.tolist(), ref.tolist()


def real_heat(entry, s):
    """Σ_k (real dH_k)·(reactant amount reaction k sees), and the same with the independent formation-only and
    latent-only coefficients, stepping the real constituent reactions (normal call path) on a copy of the stream.
    (`force_reaction` is not used for the stepping: `functional.remove_negligible_negative_values` zeroes the wrong
    entries — a material defect outside this property, reported to C05.)"""
    c = s.copy()
    heat = form = lat = 0.0
    for b in entry['blocks']:
        kind, singles = b['kind'], b['singles']
        if kind == 'par':
            feeds = [amount(c, x['rec']) for x in singles]
        for k, x in enumerate(singles):
            f = feeds[k] if kind == 'par' else amount(c, x['rec'])
            heat += x['dH'] * f
            form += indep_dH(x['rec'], latent=False)[0] * f
            lat += indep_dH(x['rec'], formation=False)[0] * f
            if kind != 'par': x['obj'](c)
        if kind == 'par': b['obj'](c)
    return heat, form, lat


def run_impl(case: Case) -> ImplResult:
    import numpy as np
    revising = any(o.startswith('rev ') for o in case.ops)
    thermos = fresh_thermos() if revising else list(THERMO)
    ta, tb = thermos[:2]
    tmo.settings.set_thermo(ta)
    CHEM.clear(); CHEM.update(chem_data(ta.chemicals) if revising else {k: dict(v) for k, v in BASE_CHEM.items()})
    model_in, outs, failures, tags = [], [], [], set()
    counts = collections.Counter()
    nontrivial = False
    rx, streams = {}, {}
    keepalive, linked = [], {}
    def emit(line, ans): model_in.append(line); outs.append(ans)
    def fail(sig, what): failures.append({'signature': sig, 'op_index': len(model_in) - 1, 'what': what})
    def emit_pkg():
        emit('pkg %d hf=%s mw=%s hvap=%s hfus=%s ref=%s' % (
            len(IDS), frs(CHEM[i]['Hf'] for i in IDS), frs(CHEM[i]['MW'] for i in IDS), frs(CHEM[i]['Hvap'] for i in IDS),
            frs(CHEM[i]['Hfus'] for i in IDS), ''.join(CHEM[i]['ref'] for i in IDS)), 'ok')
    emit_pkg()

    def check_dH(v, rec, what):
        ind = indep_dH(rec)
        if ind is None:
            fail('dH-invalid-phase-accepted', f'{what}.dH = {v!r} although a reacting chemical is tagged with a phase outside '
                 f's/l/g that is not its reference phase (phases={rec["phases"]}); the latent heat is undefined there')
            return
        ref, sc = ind
        if not abs(v - ref) <= 1e-9 * sc + 1e-300:
            fail('dH-formula:%s:%s' % (rec['basis'], 'tagged' if rec['phases'] else 'untagged'),
                 f'{what}.dH = {v!r} but X·Σν(Hf+latent){"/MW" if rec["basis"] == "wt" else ""} = {ref!r} '
                 f'(X={rec["X"]}, reactant={rec["reactant"]}, phases={rec["phases"]})')

    def check_current(s, H, Hnet, where, scale):
        """Hnet = H(T, P, current flows) + Hf: the values read from the stream against a freshly built stream"""
        try: Hfr, Hffr = fresh_energy(s)
        except PROP_ERRORS: return None
        if not (math.isfinite(Hfr) and math.isfinite(Hffr)): return None
        tolv = 1e-9 * (scale + abs(Hfr) + abs(Hffr)) + 1e-15
        if not abs(H - Hfr) <= tolv or not abs(Hnet - (Hfr + Hffr)) <= tolv:
            fail('Hnet-not-current:' + where,
                 f'{where}: stream.H = {H!r}, stream.Hnet = {Hnet!r} but a freshly built stream with the same flows, phase, '
                 f'T={float(s.T)}, P has H = {Hfr!r}, H + Hf = {Hfr + Hffr!r} (the value served is not that of the current state of the stream: a stale memo, or state cached inside the mixture object)')
        return Hfr + Hffr

    for line in case.ops:
        t = line.split(' ')
        op = t[0]
        if op == 'R':
            rid, basis, X, reactant = t[1], t[2], float(t[3]), t[4]
            eq = line.split(' :: ', 1)[1]
            kw = {}
            if len(t) > 5 and t[5].startswith('ph=') and t[5] != 'ph=-': kw['phases'] = t[5][3:]
            if basis == 'wtc':
                # defined by weight at construction; the molar twin for the basis-agreement check is its copy on 'mol'
                r = tmo.Reaction(eq, reactant=reactant, X=X, chemicals=ta.chemicals, basis='wt', **kw)
                try: d_mol = float(np.ravel(r.copy('mol').dH)[0])
                except RuntimeError: d_mol = None
                basis = 'wt'; tags.add('rxn:wt-constructed')
            else:
                r = tmo.Reaction(eq, reactant=reactant, X=X, chemicals=ta.chemicals, **kw)
                if basis == 'wt':
                    try: d_mol = float(np.ravel(r.dH)[0])
                    except RuntimeError: d_mol = None
                    r.basis = 'wt'
            rec = read_back(r)
            x = dict(kind='single', obj=r, rec=rec, dH=None)
            x['singles'] = [x]
            x['blocks'] = [dict(kind='single', singles=x['singles'], obj=r)]
            rx[rid] = x
            emit('rxn %s %s %s X=%s r=%d nu=%s' % (rid, rec['basis'], ''.join(rec['phases']) or '-', fr(rec['X']), rec['r'],
                                                  frs(rec['nu'])), 'ok')
            tags.add('rxn:' + basis + (':tagged' if rec['phases'] else ':untagged'))
            if basis == 'wt' and d_mol is not None:
                # the heat released per reactant fed must not depend on the basis: dH_wt · MW_reactant = dH_mol
                try: d_wt = float(np.ravel(r.dH)[0])
                except RuntimeError: d_wt = None
                rID = rec['reactant'][1] if rec['phases'] else rec['reactant']
                ind = indep_dH(rec)
                if d_wt is not None and ind is not None and not abs(d_wt * CHEM[rID]['MW'] - d_mol) <= 1e-9 * ind[1] * CHEM[rID]['MW'] + 1e-300:
                    fail('dH-basis-agree', f'dH on the molar basis is {d_mol!r} J/mol but after `basis = "wt"` it is {d_wt!r} J/g '
                                           f'= {d_wt * CHEM[rID]["MW"]!r} J/mol of {rID}')
        elif op in ('P', 'Q'):
            rid, ids = t[1], t[2].split(',')
            members = [rx[i] for i in ids]
            cls = tmo.ParallelReaction if op == 'P' else tmo.SeriesReaction
            obj = cls([m['obj'] for m in members])
            kind = 'par' if op == 'P' else 'ser'
            x = dict(kind=kind, obj=obj, singles=members, rec=None)
            x['blocks'] = [dict(kind=kind, singles=x['singles'], obj=obj)]
            rx[rid] = x
            emit('set %s %s %s' % (rid, kind, ','.join(ids)), 'ok')
            tags.add('set:' + kind)
        elif op == 'reorder':
            # the set is moved onto the other compiled Chemicals object (same species, another order) with the public
            # `reset_chemicals`; it must keep taking each conversion from its own reactant
            x = rx[t[1]]
            if x['kind'] in ('par', 'ser') and x['singles'][0]['rec']['phases']:
                x['obj'].reset_chemicals(tb.chemicals)
                tags.add('set-moved-to-other-chemicals-order')
                got = tuple(x['obj'].reactants)
                want = tuple(m['rec']['reactant'] for m in x['singles'])
                if got != want:
                    fail('reset_chemicals-changed-reactants',
                         f'after {type(x["obj"]).__name__}.reset_chemicals(<same chemicals, other order>) the reactants are {got}, '
                         f'before they were {want}')
        elif op == 'Y':
            rid, ids = t[1], t[2].split(',')
            members = [rx[i] for i in ids]
            obj = tmo.ReactionSystem(*[m['obj'] for m in members])
            x = dict(kind='sys', obj=obj, rec=None, singles=[z for m in members for z in m['singles']],
                     blocks=[b for m in members for b in m['blocks']])
            rx[rid] = x
            emit('sys %s %s' % (rid, ','.join(ids)), 'ok')
            tags.add('sys')
        elif op == 'dh':
            x = rx[t[1]]
            if x['kind'] == 'single':
                try:
                    v = x['obj'].dH
                except RuntimeError:
                    emit('dh ' + t[1], 'err=runtime'); x['dH'] = None; tags.add('dh:err')
                    if indep_dH(x['rec']) is not None:
                        fail('dH-raised', f'Reaction.dH raised RuntimeError for a reaction whose chemicals are all in s/l/g '
                                          f'phases (phases={x["rec"]["phases"]}, reactant={x["rec"]["reactant"]})')
                    continue
                if np.ndim(v) != 0:
                    fail('dH-not-scalar', f'Reaction.dH returned {v!r}'); v = np.ravel(v)[0]
                v = float(v); x['dH'] = v
                emit('dh ' + t[1], 'dH=' + fr(v))
                check_dH(v, x['rec'], 'Reaction')
                tags.add('dh:single')
            elif x['kind'] in ('par', 'ser'):
                for k, m in enumerate(x['singles']):
                    item = x['obj'][k]
                    try:
                        v = item.dH
                    except RuntimeError:
                        emit('dhitem %s %d' % (t[1], k), 'err=runtime')
                        if indep_dH(m['rec']) is not None:
                            fail('dH-raised', f'{type(x["obj"]).__name__}[{k}].dH raised RuntimeError although every chemical is in an s/l/g phase')
                        continue
                    if np.ndim(v) != 0:
                        # the item's own entry is what is compared; the shape itself is an oracle failure
                        fail('dH-item-not-scalar',
                             f'{type(x["obj"]).__name__}[{k}].dH returned the array {np.asarray(v).tolist()!r} (one entry per '
                             f'reaction of the set) instead of the heat of reaction of item {k}')
                        v = np.ravel(v)[k]
                    v = float(v)
                    emit('dhitem %s %d' % (t[1], k), 'dH=' + fr(v))
                    check_dH(v, m['rec'], f'{type(x["obj"]).__name__}[{k}]')
                    tags.add('dh:item')
        elif op == 'rev':
            # revise a chemical's data through the public setters (fresh copies: `revising` is set for this case)
            ID, attr, val = t[1], t[2], float(t[3])
            assert revising and attr in ('Hf', 'Hfus')
            setattr(getattr(ta.chemicals, ID), attr, val)
            tags.add('rev:' + attr)
            if attr == 'Hfus' and streams:
                # a revised heat of fusion changes the chemical's H(T) functions; a stream that memoised H before keeps the old
                # value (the memo is keyed on the stream's state, not on chemical data), so enthalpy differences across the
                # revision mix two property packages: outside this property — such streams are retired
                streams.clear(); tags.add('rev:Hfus-retires-streams')
        elif op == 'refresh':
            # the documented way to propagate revised constants to the compiled arrays
            for th_ in thermos: th_.chemicals.refresh_constants()
            CHEM.clear(); CHEM.update(chem_data(ta.chemicals))     # the reference: the chemicals' CURRENT values
            emit_pkg()
            for x in rx.values():
                for m in x['singles']: m['dH'] = None            # heats of reaction read before the revision are stale
            tags.add('refresh')
            # the compiled array itself (anchored mechanism) must now show the chemicals' heats of formation
            for th_ in thermos:
                for c, v in zip(th_.chemicals, th_.chemicals.Hf):
                    if float(v) != float(c.Hf):
                        fail('Hf-array-stale', f'after chemical.Hf = … and chemicals.refresh_constants(), chemicals.Hf[{c.ID}] = '
                                               f'{float(v)!r} but {c.ID}.Hf = {float(c.Hf)!r}')
                        break
        elif op == 'S':
            sid, pk, T, P, ph = t[1], int(t[2]), float(t[3]), float(t[4]), t[5]
            flows = [f.split(':') for f in t[6].split(',')] if len(t) > 6 and t[6] else []
            th = thermos[pk]
            tot_ = sum(float(f[2]) for f in flows)
            if 0 < tot_ < 1e-2: tags.add('flows:tiny(<1e-2 kmol/hr)')
            elif tot_ > 5e3: tags.add('flows:huge(>5e3 kmol/hr)')
            tags.add('pkg:PR-mixture' if pk >= 4 else 'pkg:excess-energies' if pk >= 2 else 'pkg:default-mixture')
            if P > 1100000: tags.add('P:15bar')
            if len(ph) == 1:
                s = tmo.Stream(None, T=T, P=P, phase=ph, thermo=th)
                for ID, p_, a in flows: s.imol[ID] = float(a)
            else:
                s = tmo.MultiStream(None, T=T, P=P, phases=tuple(ph), thermo=th)
                for ID, p_, a in flows: s.imol[p_, ID] = float(a)
            streams[sid] = s
        elif op == 'link':
            # the stream takes its flows from another stream (`link_with(other, flow=True, phase=True, TP=…)`) after its mass
            # view was read: whatever is reacted afterwards must act on the flows the stream now shows
            if t[1] not in streams: tags.add('skip:stream-dead'); continue
            s = streams[t[1]]
            _ = (s.imass.data, s.F_mass)                       # the mass view exists (as after Stream(..., units='kg/hr'))
            other = s.copy()
            keepalive.append(other)
            before = flat_n(s, tuple(s.phases) if isinstance(s, tmo.MultiStream) else ())
            try:
                s.link_with(other, flow=True, phase=True, TP=(t[2] == '1'))
            except PROP_ERRORS:
                tags.add('skip:link-rejected'); continue
            linked[t[1]] = (s, other)
            tags.add('link:TP' if t[2] == '1' else 'link:flows-only')
            if flat_n(s, tuple(s.phases) if isinstance(s, tmo.MultiStream) else ()) != before:
                fail('link-changed-flows', 'link_with to an identical copy changed the flows the stream shows')
        elif op == 'conv':
            # the read-only query Reaction.conversion(stream) (what would react) must leave the stream as it was
            if t[2] not in streams: tags.add('skip:stream-dead'); continue
            x, s = rx[t[1]], streams[t[2]]
            if x['kind'] != 'single': continue
            rec = x['rec']
            if bool(rec['phases']) != isinstance(s, tmo.MultiStream) or (rec['phases'] and tuple(s.phases) != tuple(rec['phases'])):
                tags.add('skip:phase-mismatch'); continue
            n_before, chems_before = flat_n(s, rec['phases']), s.chemicals
            try: Hf_before = float(s.Hf)
            except PROP_ERRORS: continue
            x['obj'].conversion(s)
            tags.add('conv:other-package' if s.thermo.chemicals is not ta.chemicals else 'conv:same-package')
            Hf_ind = sum(CHEM[IDS[k % len(IDS)]]['Hf'] * v for k, v in enumerate(n_before))
            sc_ = sum(abs(CHEM[IDS[k % len(IDS)]]['Hf'] * v) for k, v in enumerate(n_before))
            if (s.chemicals is not chems_before or s.imol.chemicals is not chems_before or flat_n(s, rec['phases']) != n_before
                    or not abs(float(s.Hf) - Hf_ind) <= 1e-9 * sc_ + 1e-12):
                fail('conversion-query-changed-stream',
                     f'after the read-only query Reaction.conversion(stream) the stream shows Hf = {float(s.Hf)!r} (before: {Hf_before!r}; '
                     f'Σ Hf_i·n_i of its flows: {Hf_ind!r}); its flow indexer is mapped on '
                     f'{"its own" if s.imol.chemicals is chems_before else "the reaction\'s"} chemicals')
        elif op == 'view':
            # a phase view of a MultiStream (`ms['l']`): a single-phase Stream sharing the parent's flows and T, P
            if t[2] in streams:
                streams[t[1]] = streams[t[2]][t[3]]; tags.add('view-of-multistream')
        elif op == 'mixed':
            # a member of a ReactionSystem switched to the other basis after the system was built: the system's own
            # `_reaction` must refuse (RuntimeError) rather than apply weight stoichiometry to molar flows or vice versa
            if t[3] not in streams: tags.add('skip:stream-dead'); continue
            x, m, s0 = rx[t[1]], rx[t[2]], streams[t[3]]
            c = s0.copy()
            old = m['obj'].basis
            m['obj'].basis = 'wt' if old == 'mol' else 'mol'
            try:
                before = flat_n(c, m['rec']['phases'])
                try:
                    x['obj'](c)
                    if flat_n(c, m['rec']['phases']) != before or any(z['rec']['X'] for z in x['singles']):
                        fail('system-mixed-basis-accepted',
                             f'a ReactionSystem (basis {old}) whose member {t[2]} was switched to the other basis afterwards was '
                             f'applied to a stream without complaint: stoichiometry of one basis acts on flows of the other, so '
                             f'ΔHf ≠ Σ dH·feed')
                except (RuntimeError, tmo.exceptions.InfeasibleRegion):
                    pass
            finally:
                m['obj'].basis = old
            tags.add('mixed-basis-system')
        elif op == 'sethnet':
            if t[1] not in streams: tags.add('skip:stream-dead'); continue
            s = streams[t[1]]
            phases = tuple(s.phases) if isinstance(s, tmo.MultiStream) else ()
            peek(s, t, tags)
            try:
                H0, Hf0, Hnet0, C0 = float(s.H), float(s.Hf), float(s.Hnet), float(s.C)
            except PROP_ERRORS:
                tags.add('skip:no-H-model'); continue
            if not all(map(math.isfinite, (H0, Hf0, Hnet0, C0))) or C0 == 0: tags.add('skip:no-H-model'); continue
            n0 = flat_n(s, phases)
            T0s = float(s.T)
            # `zero`: the total enthalpy is set to the formation part alone, so the H setter receives exactly 0.0
            V = Hf0 if t[2] == 'zero' else Hnet0 + float(t[2]) * C0
            if t[2] == 'zero': tags.add('sethnet:H-target-exactly-zero'); counts['sethnet:target-exactly-zero'] += 1
            P0, ph0 = float(s.P), (tuple(s.phases) if phases else s.phase)
            del _SETREC[:]
            counts['sethnet'] += 1
            def sethnet_target_only(why):
                tags.add(why); counts[why] += 1
                if _SETREC:
                    emit('sethnett %s V=%s n=%s' % (''.join(phases) or '-', fr(V), frs(n0)), 'target=%s' % fr(_SETREC[-1]))
                del streams[t[1]]
            try:
                s.Hnet = V
            except PROP_ERRORS:
                if not _SETREC: raise
                sethnet_target_only('sethnet:solver-raised'); continue
            target = _SETREC[-1] if _SETREC else None
            T1 = float(s.T)
            try:
                Hgot, Hf1, Hnet1, C1 = float(s.H), float(s.Hf), float(s.Hnet), float(s.C)
            except PROP_ERRORS:
                sethnet_target_only('sethnet:no-H-model-at-outlet'); continue
            if not (math.isfinite(T1) and T_RANGE[0] <= T1 <= T_RANGE[1] and all(map(math.isfinite, (Hgot, Hnet1, C1)))):
                sethnet_target_only('sethnet:outlet-T-out-of-range'); continue
            scale = sum(abs(CHEM[IDS[k % len(IDS)]]['Hf'] * v) for k, v in enumerate(n0)) + abs(V) + abs(Hgot)
            eps = 1e-5 * max(abs(C0), abs(C1)) + 1e-9 * scale
            if not abs(Hnet1 - V) <= eps and not H_regular(s, T0s, T1):
                sethnet_target_only('sethnet:H-model-irregular-over-interval'); continue
            emit('sethnet %s V=%s n=%s Hgot=%s eps=%s' % (''.join(phases) or '-', fr(V), frs(n0), fr(Hgot), fr(eps)),
                 'target=%s Hnet1=%s resid=%s hyp=ok' % (fr(target) if target is not None else 'none', fr(Hnet1), fr(Hnet1 - V)))
            tags.add('sethnet:multi' if phases else 'sethnet:single')
            if flat_n(s, phases) != n0 or float(s.P) != P0:
                fail('Hnet-setter-changed-flows-or-P', f'`stream.Hnet = {V!r}` changed the flows or the pressure of the stream')
            if not abs(Hnet1 - V) <= eps:
                fail('Hnet-setter', f'after `stream.Hnet = {V!r}` (T {T1} K) stream.Hnet reads {Hnet1!r}: off by {Hnet1 - V!r} '
                                    f'(tolerance {eps:.3g})')
            check_current(s, Hgot, Hnet1, 'after-sethnet', abs(Hgot) + abs(Hf1))
        elif op == 'peek':
            if t[1] in streams: peek(streams[t[1]], ['peek=' + t[2]], tags)
        elif op in ('iso', 'adia'):
            if t[2] not in streams: tags.add('skip:stream-dead'); continue
            x, s = rx[t[1]], streams[t[2]]
            singles = x['singles']
            rec0 = singles[0]['rec']
            phases, basis = rec0['phases'], rec0['basis']
            if any(m['dH'] is None for m in singles):
                # dH was not asked for / raised: ask now (needed by the oracle)
                ok = True
                for m in singles:
                    try: m['dH'] = float(np.ravel(m['obj'].dH)[0]) if m['dH'] is None else m['dH']
                    except RuntimeError: ok = False
                if not ok: tags.add('skip:dH-raises'); continue
            if any(indep_dH(m['rec']) is None for m in singles): tags.add('skip:invalid-phase-tag'); continue
            if bool(phases) != isinstance(s, tmo.MultiStream) or (phases and tuple(s.phases) != tuple(phases)):
                tags.add('skip:phase-mismatch'); continue
            if op == 'adia': peek(s, t, tags)
            try:
                H0, Hf0, Hnet0, C0 = float(s.H), float(s.Hf), float(s.Hnet), float(s.C)
            except PROP_ERRORS:
                tags.add('skip:no-H-model'); continue
            if not all(map(math.isfinite, (H0, Hf0, Hnet0, C0))): tags.add('skip:no-H-model'); continue
            n0 = flat_n(s, phases)
            Hnet0_true = check_current(s, H0, Hnet0, 'before-' + op, abs(H0) + abs(Hf0))
            T0 = float(s.T)
            P0, ph0 = float(s.P), (tuple(s.phases) if phases else s.phase)
            try:
                heat, form, lat = real_heat(x, s)
            except tmo.exceptions.InfeasibleRegion:
                heat = form = lat = None
            if any(m['rec']['X'] != 0 and amount(s, m['rec']) > 0 for m in singles): nontrivial = True
            scale0 = sum(abs(CHEM[IDS[k % len(IDS)]]['Hf'] * v) for k, v in enumerate(n0))
            kindtag = '%s:%s:%s' % (x['kind'], basis, 'tagged' if phases else 'untagged')
            Hf_ind = sum(CHEM[IDS[k % len(IDS)]]['Hf'] * v for k, v in enumerate(n0))
            if not abs(Hf0 - Hf_ind) <= 1e-9 * scale0 + 1e-12 or not abs(Hnet0 - (H0 + Hf_ind)) <= 1e-9 * (scale0 + abs(H0)) + 1e-12:
                fail('stream-Hf', f'Stream.Hf = {Hf0!r}, Stream.Hnet − Stream.H = {Hnet0 - H0!r} but Σ Hf_i·n_i over the chemicals\' current '
                                  f'heats of formation = {Hf_ind!r}')
            if op == 'iso':
                try:
                    x['obj'](s)
                except tmo.exceptions.InfeasibleRegion:
                    emit('iso %s n=%s H0=%s H1=%s' % (t[1], frs(n0), fr(H0), fr(H0)), 'err=infeasible')
                    tags.add('iso:infeasible'); del streams[t[2]]; continue
                # "isothermally": the call must leave T, P and the phase(s) of the stream exactly as they were
                T1, P1, ph1 = float(s.T), float(s.P), (tuple(s.phases) if phases else s.phase)
                if T1 != T0 or P1 != P0 or ph1 != ph0:
                    fail('not-isothermal',
                         f'rxn(stream) changed the thermal state of the stream: T {T0} → {T1}, P {P0} → {P1}, phase {ph0} → {ph1}')
                ok_, m_, ref_ = mass_view_ok(s, phases)
                if not ok_:
                    fail('mass-view-stale-after-reaction',
                         f'after rxn(stream) stream.imass shows {m_} but its molar flows times MW are {ref_}: a later weight-basis '
                         f'reaction (or any mass-based reading) acts on flows the stream does not have')
                peek(s, t, tags)        # another memoised property read between the reaction and the enthalpy reads
                try:
                    H1, Hf1, Hnet1 = float(s.H), float(s.Hf), float(s.Hnet)
                except PROP_ERRORS:
                    tags.add('skip:no-H-model'); del streams[t[2]]; continue
                n1 = flat_n(s, phases)
                dHnet = Hnet1 - Hnet0
                if t[2] in linked and linked[t[2]][0] is s and flat_n(linked[t[2]][1], phases) != n1:
                    fail('linked-streams-diverged', 'after rxn(stream) the stream and the stream it is linked with (flow=True) show different flows')
                check_current(s, H1, Hnet1, 'after-iso', abs(H1) + abs(Hf1))
                emit('iso %s n=%s H0=%s H1=%s' % (t[1], frs(n0), fr(H0), fr(H1)),
                     'n=%s Hf0=%s Hf1=%s %sdHnet=%s chk=ok' % (frs(n1), fr(Hf0), fr(Hf1),
                                                              'heat=%s ' % fr(heat) if heat is not None else '', fr(dHnet)))
                tags.add('iso:' + kindtag); counts['iso'] += 1
                if heat is None:
                    # a constituent reaction alone would be infeasible on the intermediate material although the whole
                    # system is not: the per-reaction feeds cannot be observed on the real code; flows/Hf/Hnet still compared
                    tags.add('iso:stepping-infeasible'); continue
                scale = scale0 + sum(abs(CHEM[IDS[k % len(IDS)]]['Hf'] * v) for k, v in enumerate(n1)) + abs(H0) + abs(H1)
                tolv = 1e-9 * scale + CLAMP_ALLOWANCE
                # general identity: ΔHnet = Σ dH_k feed_k + (ΔH − latent part)
                resid = dHnet - (heat - lat + (H1 - H0))
                if not abs(resid) <= tolv:
                    fail('isothermal-identity:' + kindtag,
                         f'isothermal reaction at T={T0}: ΔHnet={dHnet!r} but Σ dH·feed={heat!r}, latent part={lat!r}, '
                         f'ΔH={H1 - H0!r} (residual {resid!r}, tolerance {tolv:.3g})')
                excess = bool(getattr(s.thermo.mixture, 'include_excess_energies', False)) or type(s.thermo.mixture) is not tmo.IdealMixture
                if excess and T0 == TREF: tags.add('info:at-298K-with-excess-energies(H≠0, exact clause not judged)')
                at_ref = T0 == TREF and not excess and all(
                    (CHEM[IDS[i]]['ref'] == (phases[p] if phases else s.phase)) for m in singles for (p, i, _) in m['rec']['nz'])
                if at_ref:
                    tags.add('iso:at-reference'); counts['iso:at-reference'] += 1
                    if not abs(dHnet - heat) <= tolv:
                        fail('isothermal-at-reference:' + kindtag,
                             f'at 298.15 K with every reacting chemical in its reference phase ΔHnet={dHnet!r} but '
                             f'Σ dH·feed={heat!r} (tolerance {tolv:.3g})')
                elif T0 == TREF and phases and scale > 0:
                    dev = abs(dHnet - heat) / max(abs(heat), 1e-300)
                    tags.add('info:latent-vs-H-model-dev' + ('<1e-3' if dev < 1e-3 else '<1e-2' if dev < 1e-2 else '<1e-1' if dev < 1e-1 else '>=1e-1'))
            else:
                if t[3] == 'cal':
                    # calorimetric duty: Q = Hf(products) − Hnet(feed), which removes all sensible enthalpy of the products; the
                    # value handed to the H setter is then exactly 0.0 whenever the subtraction is exact (Sterbenz)
                    try:
                        c_ = s.copy(); x['obj'](c_)
                        Q = float(c_.Hf) - Hnet0
                    except (tmo.exceptions.InfeasibleRegion,) + PROP_ERRORS:
                        Q = 0.0
                    tags.add('adia:calorimetric-Q')
                else:
                    Q = float(t[3]) * C0
                del _SETREC[:]
                counts['adia'] += 1
                def target_only(why):
                    # the outlet state cannot be judged (T-solver raised / outlet outside the models' range): the reacted flows
                    # and the value handed to the H setter are still compared with the model, and the outcome is counted
                    # against a ceiling (RATE_CEILINGS) so that a regression cannot hide as a "skip"
                    tags.add(why); counts[why] += 1
                    if _SETREC:
                        emit('adiat %s Q=%s n=%s H0=%s' % (t[1], fr(Q), frs(n0), fr(H0)),
                             'n=%s target=%s Hnet0=%s' % (frs(flat_n(s, phases)), fr(_SETREC[-1]), fr(Hnet0)))
                    del streams[t[2]]
                try:
                    x['obj'].adiabatic_reaction(s, Q)
                except tmo.exceptions.InfeasibleRegion:
                    emit('adia %s Q=%s n=%s H0=%s Hgot=%s eps=1' % (t[1], fr(Q), frs(n0), fr(H0), fr(H0)), 'err=infeasible')
                    tags.add('adia:infeasible'); del streams[t[2]]; continue
                except PROP_ERRORS:
                    if not _SETREC: raise          # not the T-solver / property models: a real failure of the call
                    target_only('adia:solver-raised'); continue
                target = _SETREC[-1] if _SETREC else None
                if target == 0.0: tags.add('adia:target-exactly-zero'); counts['adia:target-exactly-zero'] += 1
                T1 = float(s.T)
                try:
                    Hgot, Hf1, Hnet1, C1 = float(s.H), float(s.Hf), float(s.Hnet), float(s.C)
                except PROP_ERRORS:
                    target_only('adia:no-H-model-at-outlet'); continue
                n1 = flat_n(s, phases)
                scale = scale0 + sum(abs(CHEM[IDS[k % len(IDS)]]['Hf'] * v) for k, v in enumerate(n1)) + abs(H0) + abs(Hgot) + abs(Q)
                inrange = math.isfinite(T1) and T_RANGE[0] <= T1 <= T_RANGE[1] and all(map(math.isfinite, (Hgot, Hnet1, C1)))
                if not inrange:
                    target_only('adia:outlet-T-out-of-range'); continue
                eps = 1e-5 * max(abs(C0), abs(C1)) + 1e-9 * scale
                resid = Hnet1 - (Hnet0 + Q)
                if not abs(resid) <= eps and not H_regular(s, T0, T1):
                    target_only('adia:H-model-irregular-over-interval'); continue
                emit('adia %s Q=%s n=%s H0=%s Hgot=%s eps=%s' % (t[1], fr(Q), frs(n0), fr(H0), fr(Hgot), fr(eps)),
                     'n=%s target=%s Hnet0=%s Hnet1=%s resid=%s hyp=ok' % (
                         frs(n1), fr(target) if target is not None else 'none', fr(Hnet0), fr(Hnet1), fr(resid)))
                tags.add('adia:' + kindtag)
                tags.add('adia:phase-flipped' if (not phases and s.phase != t[4]) else 'adia:same-phase')
                if target is not None and not abs(Hgot - target) <= eps:
                    # hypothesis monitor of `adiabatic_balance` (the model line answers hyp=unmet as well)
                    fail('hypothesis:H-setter-residual',
                         f'the H setter was handed {target!r} but stream.H reads {Hgot!r} afterwards (T_out={T1}, ε={eps:.3g}): '
                         f'the post-condition assumed by adiabatic_balance is not met')
                if float(s.P) != P0:
                    fail('adiabatic-changed-P', f'adiabatic_reaction changed the pressure of the stream: {P0} → {float(s.P)}')
                Hnet1_true = check_current(s, Hgot, Hnet1, 'after-adia', abs(Hgot) + abs(Hf1))
                if Hnet0_true is not None and Hnet1_true is not None and not abs(Hnet1_true - (Hnet0_true + Q)) <= eps + 1e-9 * scale:
                    fail('adiabatic-balance-current-state:' + kindtag,
                         f'adiabatic reaction from T={T0} with Q={Q!r}: with H and Hf evaluated on freshly built streams in the '
                         f'states before and after, Hnet_after − (Hnet_before + Q) = {Hnet1_true - (Hnet0_true + Q)!r} '
                         f'(tolerance {eps:.3g}; T_out={T1})')
                if not abs(resid) <= eps:
                    fail('adiabatic-balance:' + kindtag,
                         f'adiabatic reaction from T={T0} with Q={Q!r}: Hnet_after − (Hnet_before + Q) = {resid!r} '
                         f'(tolerance {eps:.3g}; T_out={T1})')
        else:
            raise ValueError('unknown op ' + line)
    res = ImplResult(model_in=model_in, outs=outs, failures=failures, tags=sorted(tags),
                     nontrivial=(tuple(case.ops) if nontrivial else None))
    res.counts = dict(counts)
    return res


# --------------------------------------------------------------------------
# comparison of answer lines (tolerance mode)
# --------------------------------------------------------------------------

# what the code's own feasibility step may add to any enthalpy sum: it zeroes negative flows that sum to ≥ −1e-12 (basis
# units), so a linear functional with |coefficients| ≤ Cmax moves by ≤ Cmax·1e-12 (theorem clamp_bound); Cmax = max |Hf| in
# J/mol (1.3e6 for glucose), or max |Hf/MW| on the weight basis (smaller)
CLAMP_ALLOWANCE = 1.3e6 * 1e-12 * 2


def _fields(line):
    d = {}
    for tok in line.split(' '):
        if '=' in tok:
            k, v = tok.split('=', 1); d[k] = v
        else:
            d.setdefault('_rest', []).append(tok)
    return d


def _num(tok):
    return float(Fraction(tok))


def compare(impl_line, model_line):
    if impl_line == model_line: return True
    if 'BROKEN' in model_line: return False
    a, b = _fields(impl_line), _fields(model_line)
    if '_rest' in a or '_rest' in b: return False
    # The −1e-12 feasibility test is decided in floats by the real code and exactly by the model.  The driver marks a
    # line `fragile=1` only when entries perturbed by the float-error bound of the routed computation
    # (8·(K+1)·2⁻⁵³·Σ|summands| per species) can decide the test either way; then — and only then — the real call may
    # raise InfeasibleRegion where the exact model returns flows (or return flows, compared below, where it raises).
    if a.get('err') == 'infeasible' and len(a) == 1 and b.get('fragile') == '1': return True
    try:
        sc = _num(b['sc']) if 'sc' in b else 0.0
        for k, v in a.items():
            if k not in b: return False
            w = b[k]
            if k in ('err', 'hyp'):
                if v != w: return False
            elif k == 'chk':
                if w not in ('ok', 'clamped'): return False
            elif k == 'n':
                xs, ys = v.split(','), w.split(',')
                if len(xs) != len(ys): return False
                xs, ys = [_num(x) for x in xs], [_num(y) for y in ys]
                m = max([abs(y) for y in ys] + [1e-30])
                # flows: relative to the largest entry; 2e-12 absolute covers the code's own −1e-12 clamp at tiny flow rates
                if any(not abs(x - y) <= 1e-9 * m + 2e-12 for x, y in zip(xs, ys)): return False
            else:
                if v in ('nan', 'none'): return False
                x, y = _num(v), _num(w)
                if not abs(x - y) <= 1e-9 * max(sc, abs(y)) + CLAMP_ALLOWANCE: return False
        return True
    except (KeyError, ValueError, ZeroDivisionError):
        return False


# Outcomes that leave an adiabatic / Hnet-setter operation only partly judged (flows and setter target compared, outlet state
# not), as a share of the operations attempted.  Ceilings ≈ 3× the largest share seen over 12 seeds of the unchanged tree; a
# regression that makes the T-solver raise or throws the outlet far off must not look like a skip.
RATE_CEILINGS = {
    # observed over 8 seeds (three mixture kinds, incl. the H-target-exactly-0 operations, whose outlet is often far from the
    # inlet): ≤ 2.14 %, ≤ 3.44 %, ≤ 1.3 %, 0
    ('adia', 'adia:solver-raised'): 0.07, ('adia', 'adia:outlet-T-out-of-range'): 0.10,
    ('adia', 'adia:H-model-irregular-over-interval'): 0.04, ('adia', 'adia:no-H-model-at-outlet'): 0.01,
    # observed: ≤ 0.69 %, ≤ 1.05 %, ≤ 0.99 %, 0
    ('sethnet', 'sethnet:solver-raised'): 0.025, ('sethnet', 'sethnet:outlet-T-out-of-range'): 0.035,
    ('sethnet', 'sethnet:H-model-irregular-over-interval'): 0.03, ('sethnet', 'sethnet:no-H-model-at-outlet'): 0.01,
}
RATE_MIN_OPS = 500
_RUN = collections.Counter()
_FIRED = set()


def filter_failures(res, model_out):
    """accumulates the operation counts of the whole run and reports a ceiling once it is exceeded"""
    fails = list(res.failures)
    c = getattr(res, 'counts', None)
    if c and not getattr(res, '_counted', False):
        res._counted = True
        _RUN.update(c)
        for (den, num), ceiling in RATE_CEILINGS.items():
            if _RUN[den] >= RATE_MIN_OPS and _RUN[num] > ceiling * _RUN[den] and (den, num) not in _FIRED:
                _FIRED.add((den, num))
                fails.append({'signature': 'unjudged-rate-exceeded:' + num, 'op_index': None,
                              'what': f'{_RUN[num]} of {_RUN[den]} `{den}` operations so far ended as `{num}` (ceiling {ceiling:.0%} of the '
                                      f'operations attempted): the T-solver / outlet state is failing far more often than on the '
                                      f'validated tree, so these operations are no longer judged'})
    return fails


def extra_evidence(executed, model_outs):
    tot = collections.Counter()
    for _, r in executed: tot.update(getattr(r, 'counts', {}) or {})
    return {'operation_counts': dict(tot),
            'unjudged_shares': {num: (tot[num] / tot[den] if tot[den] else 0.0) for (den, num) in RATE_CEILINGS}}


def disagree_signature(case, res, first):
    op = res.model_in[first].split(' ')[0] if first < len(res.model_in) else 'length'
    return 'disagree:' + op


def model_tags(line):
    out = []
    for key in ('chk=clamped', 'hyp=unmet', 'err=infeasible', 'err=runtime', 'fragile=1'):
        if key in line: out.append(key)
    return out


# --------------------------------------------------------------------------
# generation
# --------------------------------------------------------------------------
XS = [0.0, 1.0, 0.5, 0.25, 0.75, 0.9, 0.1, 0.7, 0.3, 0.99]
COEF_SCALE = [1, 1, 1, 2, 0.5, 3]


def num(x):
    return repr(float(x)) if float(x) != int(x) else str(int(x))


def equation(d, tagging, rng, by_weight=False):
    """stoichiometric string for the real parser; tagging: None | 'ref' | 'gl' | 'gls' | 'bad';
    by_weight: coefficients in mass units (ν·MW), for `Reaction(..., basis='wt')`"""
    k = rng.choice(COEF_SCALE)
    glucose_gas = rng.random() < 0.25       # (solid reference → gas) entry of the latent table; no H model there: dH only
    def term(ID, c):
        c = abs(c) * k
        if by_weight: c = round(c * BASE_MW[ID], 5)
        s = ('' if c == 1 else num(c) + ' ') + ID
        if tagging == 'ref': s += ',' + CHEM_REF[ID]
        elif tagging in ('gl', 'gls'):
            choices = tagging if (ID != 'Glucose' or glucose_gas) else tagging.replace('g', '')
            s += ',' + (CHEM_REF[ID] if rng.random() < 0.5 and CHEM_REF[ID] in choices else rng.choice(choices))
        elif tagging == 'bad': s += ',' + rng.choice('Llg')
        return s
    lhs = ' + '.join(term(i, c) for i, c in d.items() if c < 0)
    rhs = ' + '.join(term(i, c) for i, c in d.items() if c > 0)
    return lhs + ' -> ' + rhs


BASE_HF = {'Water': -285825.0, 'Ethanol': -277030.0, 'Methanol': -238400.0, 'Glucose': -1271100.0, 'CO2': -393474.0, 'O2': 0.0,
           'H2': 0.0, 'CH4': -74534.0, 'AceticAcid': -483580.0, 'N2': 0.0, 'CO': -110525.0, 'EthylAcetate': -479300.0}
BASE_MW = {'Water': 18.01528, 'Ethanol': 46.06844, 'Methanol': 32.04186, 'Glucose': 180.15588, 'CO2': 44.0095, 'O2': 31.9988,
           'H2': 2.01588, 'CH4': 16.04246, 'AceticAcid': 60.05196, 'N2': 28.0134, 'CO': 28.0101, 'EthylAcetate': 88.10512}
# untagged reactions whose chemicals all have the same reference phase (usable at the reference state on a one-phase stream)
REF_HOMOGENEOUS = {'g': [LIB[8]], 'l': [LIB[12], LIB[16]]}
CHEM_REF = {'Water': 'l', 'Ethanol': 'l', 'Methanol': 'l', 'Glucose': 's', 'CO2': 'g', 'O2': 'g', 'H2': 'g', 'CH4': 'g',
            'AceticAcid': 'l', 'N2': 'g', 'CO': 'g', 'EthylAcetate': 'l'}


def phases_of(eq):
    return ''.join(sorted({eq[i + 1] for i, ch in enumerate(eq) if ch == ','}))


def gen_case(rng):
    ops = []
    basis = 'wt' if rng.random() < 0.4 else 'mol'
    if basis == 'wt' and rng.random() < 0.4: basis = 'wtc'      # defined by weight at construction: Reaction(eq, basis='wt')
    r = rng.random()
    tagging = None if r < 0.5 else 'ref' if r < 0.7 else 'gl' if r < 0.83 else 'gls' if r < 0.95 else 'bad'
    # reference-state cases: 298.15 K, default mixture, every reacting chemical in its reference phase — the only place where
    # the exact clause ΔHnet = Σ dH·feed can be judged on real thermosteam; the first operation is the isothermal reaction
    refmode = rng.random() < 0.24
    ref_phase = None
    if refmode:
        tagging = 'ref' if rng.random() < 0.8 else None
        if tagging is None: ref_phase = rng.choice('gll')
    nrx = rng.choice([1, 1, 2, 2, 3, 4])
    lib = [rng.choice(LIB) for _ in range(nrx)]
    if ref_phase: lib = [rng.choice(REF_HOMOGENEOUS[ref_phase]) for _ in range(nrx)]
    eqs = [equation(d, tagging, rng, by_weight=(basis == 'wtc')) for d in lib]
    # explicit `phases=` makes every reaction of the case expose the same phase rows (needed for sets / systems)
    ph = None
    if tagging and tagging != 'bad':
        ph = ''.join(sorted(set(''.join(phases_of(e) for e in eqs)) | set(rng.choice(['gl', 'gl', 'gls', 'ls']))))
    ids, reactants = [], []
    for k, (d, eq) in enumerate(zip(lib, eqs)):
        reactant = rng.choice([i for i, c in d.items() if c < 0])
        X = rng.choice(XS) if rng.random() < 0.7 else round(rng.random(), 3)
        ops.append('R r%d %s %s %s %s :: %s' % (k, basis, num(X), reactant, 'ph=' + ph if ph else 'ph=-', eq))
        ids.append('r%d' % k); reactants.append(reactant)
    top = ids[0]
    structure = 'single'
    if nrx >= 2 and tagging != 'bad':
        structure = rng.choice(['par', 'ser', 'sys', 'sys2', 'sys2', 'single'])
        if structure == 'par': ops.append('P p0 ' + ','.join(ids)); top = 'p0'
        elif structure == 'ser': ops.append('Q q0 ' + ','.join(ids)); top = 'q0'
        elif structure == 'sys':
            ops.append('Y y0 ' + ','.join(ids)); top = 'y0'
        elif structure == 'sys2':
            cut = rng.randrange(1, nrx) if nrx > 2 else 1
            parts = []
            for j, grp in enumerate((ids[:cut], ids[cut:])):
                if len(grp) == 1 and rng.random() < 0.6: parts.append(grp[0])
                else:
                    ops.append('%s g%d %s' % (rng.choice('PQ'), j, ','.join(grp))); parts.append('g%d' % j)
            ops.append('Y y0 ' + ','.join(parts)); top = 'y0'
    for i in ids: ops.append('dh ' + i)
    for g in ('p0', 'q0', 'g0', 'g1'):
        if any(o.startswith(('P ' + g + ' ', 'Q ' + g + ' ')) for o in ops): ops.append('dh ' + g)
    if tagging and tagging != 'bad' and structure in ('par', 'ser') and rng.random() < 0.3:
        ops.append('reorder ' + top); ops.append('dh ' + top)
    if tagging == 'bad': return Case(ops, {})
    nused = nrx if structure != 'single' else 1
    dh_ops = [o for o in ops if o.startswith('dh ')]
    tail_ops = []
    def revision():
        # history: compile → revise heats of formation (and fusion) of participating chemicals → refresh_constants()
        out = []
        part = sorted({ID for d in lib[:nused] for ID in d})
        for ID in rng.sample(part, min(len(part), rng.choice([1, 1, 2, 3]))):
            base = BASE_HF[ID]
            v = round(base * rng.uniform(0.8, 1.2), 1) if base and rng.random() < 0.8 else float(rng.choice([-1234.5, 2500, -50000]))
            out.append('rev %s Hf %s' % (ID, num(v)))
        if tagging and rng.random() < 0.4:
            out.append('rev %s Hfus %s' % (rng.choice(part), num(rng.choice([1000, 7500.5, 12000]))))
        return out + ['refresh'] + dh_ops
    revise = rng.random() < 0.15
    revise_late = revise and rng.random() < 0.4
    if revise and not revise_late: ops.extend(revision())
    used, ureact, ueqs = lib[:nused], reactants[:nused], eqs[:nused]
    has_glucose = any('Glucose' in d for d in used)
    for sidx in range(rng.choice([1, 2, 2, 3])):
        T = TREF if (refmode or rng.random() < 0.3) else round(rng.uniform(280, 450), 2)
        sph = ph if tagging else (ref_phase or ('l' if has_glucose else rng.choice('gl')))
        # amounts per (chemical, phase): the designated reactants first, then enough of every co-reactant for the
        # largest possible extents (a tagged reaction draws each chemical from the phase of its tag)
        def key(ID, eq):
            if not tagging: return (ID, sph)
            for side in eq.replace('->', '+').split('+'):
                tok = side.strip().split(' ')[-1]
                if tok.split(',')[0] == ID: return (ID, tok.split(',')[1])
            raise KeyError(ID)
        amt = {}
        for ID in rng.sample(IDS, rng.randrange(0, 4)):
            if ID == 'Glucose' and not tagging and sph == 'g': continue
            p_ = sph if not tagging else rng.choice(sph if ID != 'Glucose' else (sph.replace('g', '') or sph))
            amt[(ID, p_)] = amt.get((ID, p_), 0) + rng.choice([0, 1, 5, 50, 200])
        for d, rct, eq in zip(used, ureact, ueqs):
            a = rng.choice([0, 0.5, 1, 2, 3.5, 10]) if rng.random() < 0.8 else round(rng.uniform(0, 20), 3)
            amt[key(rct, eq)] = amt.get(key(rct, eq), 0) + a
        exact = rng.random() < 0.15
        for _ in range(3):
            need = {}
            avail = dict(amt)
            for d, rct, eq in zip(used, ureact, ueqs):
                nr = avail.get(key(rct, eq), 0)
                for ID, c in d.items():
                    k_ = key(ID, eq)
                    if c < 0 and ID != rct: need[k_] = need.get(k_, 0) + abs(c) / abs(d[rct]) * nr
                    if c > 0: avail[k_] = avail.get(k_, 0) + c / abs(d[rct]) * nr
            for k_, v in need.items():
                if amt.get(k_, 0) < v: amt[k_] = v if exact else math.ceil(v * rng.uniform(1.0, 2.5) * 1e4) / 1e4
        if rng.random() < 0.05:
            rk = {key(rct, eq) for rct, eq in zip(ureact, ueqs)}
            for k_ in list(amt):
                if k_ not in rk: amt[k_] *= 0.3          # deficient feed: InfeasibleRegion expected
        # overall scale of the stream: the property sets no lower bound on flow rates (bench scale … plant scale)
        fscale = rng.choice([1, 1, 1, 1, 1, 1, 1e-3, 1e-6, 1e-9, 1e3])
        flows = ['%s:%s:%s' % (ID, p_, num(a * fscale)) for (ID, p_), a in amt.items()]
        P = rng.choice([101325, 101325, 50000, 202650, 1000000, 1500000])
        # property package: chemical order A or B, default ideal mixture or the one that includes excess energies
        # chemical order A / B × mixture model: default ideal, ideal with excess energies, Peng–Robinson equation of state
        pk = (1 if rng.random() < 0.3 else 0) + (0 if refmode else rng.choice([0, 0, 0, 0, 2, 2, 2, 4, 4, 4]))
        sname = 's%d' % sidx
        if not tagging and not refmode and rng.random() < 0.12:
            # the untagged reaction acts on a phase view of a two-phase MultiStream
            ops.append('S s%d %d %s %s gl %s' % (sidx, pk, num(T), num(P), ','.join(flows)))
            sname = 'v%d' % sidx
            ops.append('view %s s%d %s' % (sname, sidx, sph))
        else:
            ops.append('S s%d %d %s %s %s %s' % (sidx, pk, num(T), num(P), sph, ','.join(flows)))
        if sname[0] == 's' and rng.random() < 0.15:
            ops.append('link %s %d' % (sname, 0 if rng.random() < 0.7 else 1))       # flows taken from another stream
        if structure == 'single' and rng.random() < 0.25:
            ops.append('conv %s %s' % (top, sname))                                  # read-only conversion query first
        # read histories: (H, Hnet, C are read before every reaction) → reaction at unchanged T, P → another memoised
        # property (`peek=`) → H / Hnet again, or adiabatic_reaction started from that state
        def pkk(p): return (' peek=' + rng.choice(PEEKS)) if rng.random() < p else ''
        if rng.random() < 0.25 and not refmode:
            # the Hnet setter (`stream.Hnet = value`), before and/or after the reactions
            ops.append('sethnet %s %s%s' % (sname, num(rng.choice([0, 5, -10, 40, 120])), pkk(0.3)))
        if refmode or rng.random() < 0.5:
            ops.append('iso %s %s%s' % (top, sname, pkk(0.6)))
            if rng.random() < 0.2: ops.append('peek %s %s' % (sname, rng.choice(PEEKS)))
            if rng.random() < 0.45: ops.append('adia %s %s %s %s%s' % (top, sname, rng.choice(['0', '0', '10', '-20', '50', 'cal']), sph, pkk(0.3)))
        else:
            dT = rng.choice([0, 0, 0, 5, -10, 30, 100]) if rng.random() < 0.7 else round(rng.uniform(-40, 120), 2)
            if rng.random() < 0.06 and not tagging:
                dT = rng.choice([-250, -180]) if sph == 'g' else rng.choice([300, 600])     # towards the setter's phase-flip fallback
            if rng.random() < 0.12: dT = 'cal'      # calorimetric heat input: H setter target exactly 0.0
            ops.append('adia %s %s %s %s%s' % (top, sname, dT if dT == 'cal' else num(dT), sph, pkk(0.3)))
            if rng.random() < 0.3: ops.append('iso %s %s%s' % (top, sname, pkk(0.6)))
        if rng.random() < 0.15: ops.append('sethnet %s %s%s' % (sname, rng.choice(['0', '15', '-25', '60', 'zero']), pkk(0.5)))
        if sidx == 0 and top == 'y0' and rng.random() < 0.25:
            plain = [o.split(' ')[2].split(',') for o in ops if o.startswith('Y y0 ')][0]
            plain = [i for i in plain if i.startswith('r')]
            if plain: tail_ops.append('mixed y0 %s %s' % (rng.choice(plain), sname))
        if revise_late and sidx == 0:
            ops.extend(revision())
            if rng.random() < 0.5: ops.append('iso %s %s%s' % (top, sname, pkk(0.5)))      # the stream created before the revision
    return Case(ops + tail_ops, {})


def generate(rng, tier, index, nworkers):
    n = max(1, budget(tier)['cases'] // nworkers)
    for _ in range(n):
        yield gen_case(rng)


def corpus():
    return [
        # mass view read → link_with(other, TP=False) → weight-basis reaction; conversion query on a stream of the other package
        Case(['R r0 wt 0.7 H2 ph=- :: 2 H2 + O2 -> 2 Water', 'S s0 0 320 101325 g H2:g:10,O2:g:20,Water:g:100', 'link s0 0', 'iso r0 s0',
              'S s1 1 320 101325 g H2:g:10,O2:g:20,Water:g:100', 'conv r0 s1', 'iso r0 s1',
              'S s2 1 350 101325 g H2:g:10,O2:g:20,Water:g:100', 'conv r0 s2', 'adia r0 s2 0 g']),
        # the Hnet setter before and after a weight-defined reaction at 10 bar, stream held in the other package
        Case(['R r0 wtc 0.5 CO ph=- :: 56.0202 CO + 31.9988 O2 -> 88.019 CO2', 'dh r0',
              'S s0 1 350 1000000 g CO:g:10,O2:g:20,N2:g:50', 'sethnet s0 40', 'iso r0 s0 peek=C', 'sethnet s0 -25 peek=S', 'adia r0 s0 10 g']),
        # read H/Hnet → isothermal reaction at unchanged T, P → read another memoised property → Hnet / adiabatic_reaction
        Case(['R r0 mol 0.7 H2 ph=- :: 2 H2 + O2 -> 2 Water', 'S s0 0 400 101325 g H2:g:10,O2:g:20,Water:g:100,N2:g:50',
              'iso r0 s0 peek=C', 'adia r0 s0 0 g',
              'S s1 0 298.15 101325 g CO:g:10,O2:g:20,Water:g:100', 'R r1 wt 0.5 CO ph=- :: 2 CO + O2 -> 2 CO2', 'iso r1 s1 peek=F_vol',
              'peek s1 S', 'adia r1 s1 20 g peek=mu']),
        # X = 1 on the weight basis at ~1e4 kg/hr: the exact model ends at 0, the float call a few ulps below −1e-12 and raises
        # InfeasibleRegion (seed 106 of a soak run); accepted only because the driver marks the line fragile=1
        Case(['R r0 wt 0 O2 ph=- :: Methanol + 1.5 O2 -> CO2 + 2 Water', 'R r1 wt 0.1 CO ph=- :: 2 CO + 4 H2 -> 2 Methanol',
              'R r2 wt 1 AceticAcid ph=- :: 2 Ethanol + 2 AceticAcid -> 2 EthylAcetate + 2 Water',
              'R r3 wt 0.302 CO ph=- :: CO + 2 H2 -> Methanol', 'Q g0 r0', 'Q g1 r1,r2,r3', 'Y y0 g0,g1',
              'S s0 1 281.77 101325 g AceticAcid:g:200.5,N2:g:0,O2:g:6.95,CO:g:18.296,Methanol:g:4.633333333333333,H2:g:73.184,Ethanol:g:200.5',
              'iso y0 s0']),
        # compile → revise Hf of participating chemicals → refresh_constants() → dH / Hf / Hnet / isothermal / adiabatic
        Case(['R r0 mol 0.7 H2 ph=- :: 2 H2 + O2 -> 2 Water', 'R r1 wt 0.7 CH4 ph=- :: CH4 + 2 O2 -> CO2 + 2 Water', 'dh r0', 'dh r1',
              'S s0 0 298.15 101325 g H2:g:10,CH4:g:4,O2:g:50,Water:g:20,CO2:g:1',
              'rev Water Hf -245000', 'rev CO2 Hf -390000', 'refresh', 'dh r0', 'dh r1', 'iso r0 s0',
              'S s1 1 350 101325 g H2:g:10,CH4:g:4,O2:g:50,Water:g:20,CO2:g:1', 'iso r1 s1',
              'S s2 0 350 101325 g H2:g:10,CH4:g:4,O2:g:50,Water:g:200,CO2:g:1', 'adia r0 s2 0 g']),
        Case(['R r0 mol 0.5 Glucose ph=gls :: Glucose,l -> 2 Ethanol,l + 2 CO2,s', 'dh r0', 'rev Glucose Hfus 25000', 'rev CO2 Hfus 8000',
              'rev Ethanol Hf -270000', 'refresh', 'dh r0']),
        # doctest of adiabatic_reaction: hydrogen combustion in steam, then the parallel and series examples
        Case(['R r0 mol 0.7 H2 :: 2 H2 + O2 -> 2 Water', 'dh r0',
              'S s0 0 373.15 101325 g H2:g:10,O2:g:20,Water:g:1000', 'adia r0 s0 0 g',
              'S s1 0 373.15 101325 g H2:g:10,O2:g:20,Water:g:1000', 'iso r0 s1']),
        Case(['R r0 mol 0.7 H2 :: 2 H2 + O2 -> 2 Water', 'R r1 mol 0.1 CH4 :: CH4 + 2 O2 -> CO2 + 2 Water', 'P p0 r0,r1',
              'dh r0', 'dh r1', 'dh p0', 'S s0 0 373.15 101325 g H2:g:10,CH4:g:5,O2:g:100,Water:g:100', 'adia p0 s0 0 g']),
        Case(['R r0 mol 0.7 CH4 :: 2 CH4 + 3 O2 -> 2 CO + 4 Water', 'R r1 mol 0.1 CO :: 2 CO + O2 -> 2 CO2', 'Q q0 r0,r1',
              'dh q0', 'S s0 0 373.15 101325 g CH4:g:5,O2:g:100,Water:g:100', 'adia q0 s0 0 g']),
        # tests/test_reaction.py: electrolysis of liquid water at the reference state (exact clause)
        Case(['R r0 mol 1 Water :: 2 Water,l -> 2 H2,g + O2,g', 'dh r0', 'S s0 0 298.15 101325 gl Water:l:1', 'iso r0 s0']),
        # every entry of the latent table (reference phase × reaction phase)
        Case(['R r0 wt 0.5 Glucose :: Glucose,l + 6 O2,s -> 6 CO2,l + 6 Water,g', 'dh r0',
              'R r1 mol 0.5 Glucose :: Glucose,g + 6 O2,l -> 6 CO2,s + 6 Water,s', 'dh r1',
              'R r2 mol 0.25 Glucose :: Glucose,s + 6 O2,g -> 6 CO2,g + 6 Water,l', 'dh r2']),
        # system of a parallel and a series block on the weight basis, liquid feed held in the other package
        Case(['R r0 wt 0.9 Glucose :: Glucose -> 2 Ethanol + 2 CO2', 'R r1 wt 0.05 Glucose :: Glucose -> 3 AceticAcid',
              'R r2 wt 0.5 Ethanol :: Ethanol + O2 -> AceticAcid + Water', 'R r3 wt 0.25 Ethanol :: Ethanol + AceticAcid -> EthylAcetate + Water',
              'P g0 r0,r1', 'Q g1 r2,r3', 'Y y0 g0,g1', 'dh g0', 'dh g1',
              'S s0 1 310 101325 l Glucose:l:10,Water:l:200,O2:l:30', 'iso y0 s0',
              'S s1 1 310 101325 l Glucose:l:10,Water:l:200,O2:l:30', 'adia y0 s1 5 l']),
    ]
