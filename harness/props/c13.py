"""
C13 — copies are independent, links share what they advertise, pickles round-trip.

Adapter for thermosteam Stream / MultiStream copy, copy_like, copy_thermal_condition,
link_with, unlink, proxy, flow_proxy, constructors and pickling (plus pickling of
Reaction, Chemical, Thermo), generator of operation histories over the
kind x kind x package matrix, and the property oracle on the real objects.
The Lean model is lean/ThermoVerif/Model/Links.lean.
"""
from __future__ import annotations
import pickle
import zlib, warnings, itertools
from fractions import Fraction
from harness.core import Case, ImplResult, frac, close

PID = 'C13'
LEAN_MODULES = ['ThermoVerif.Props.C13']
RULE = ('grid: every (target kind x source kind x package relation) cell of copy_like, every subset of the '
        'link_with flags for single- and multi-phase pairs, proxy/flow_proxy/unlink/pickle for every kind; then '
        'copy(thermo=) for every kind onto the same / a permuted / a larger / a smaller package, every partial re-link '
        'of a linked stream to a third stream; then '
        'random histories (5-30 ops) of new/copy/copy(thermo=)/copy_like/copy_thermal_condition/link_with/unlink/proxy/'
        'flow_proxy/pickle and mutators (flow, T, P, phase, empty, price, characterization factor) over 2-6 '
        'streams of 4 property packages with dyadic values; oracle-only probes on private copies (views as operands, '
        'Stream.copy_flow and MultiStream.copy_flow over IDs x remove x exclude x phase, constructors with mass units); '
        'a case is non-trivial when at least one '
        'copy/link/proxy/pickle operation was executed; distinct = distinct op sequences')
ASSUMPTIONS = [
    'Python object identity is modelled by ids of store objects (row = SparseVector.dct, Phase container, '
    'ThermalCondition, SparseArray, indexer, characterization-factor dict)',
    'a property package is its list of CAS numbers; `chemicals is other.chemicals` is approximated by equality of '
    'the lists (both code paths give the same result inside the domain)',
    'domain: link_with between streams of different packages, flow-linking multi-phase streams with different phase '
    'sets, and copy_like that would change the phase set of a multi-phase stream whose flow array is shared with '
    'another indexer are outside the property (both sides answer `skip`)',
    'copy_flow is not modelled (its conservation side is C01): `copyflowprobe` (oracle only, on private copies of the two '
    'streams) checks for Stream.copy_flow(IDs, remove, exclude) and for MultiStream.copy_flow(phase, IDs, remove, exclude) '
    '(sources: single-phase and multi-phase streams of the same chemical IDs; calls outside the documented preconditions '
    'are not judged) that the selected cells arrive, the cells to keep stay, remove empties exactly the copied cells of '
    'the source, phases/T/P of the target stay, nothing is shared afterwards and writes to either side stay there; '
    'IDs of unnamed streams are not observed; units= is generated with molar units only in '
    'the correspondence (exact arithmetic; including total_flow=0 and a total_flow over all-zero flows, which is '
    'ZeroDivisionError on both sides), mass units are checked by the oracle with a tolerance '
    '(`ctorprobe`; the mass-unit clause of ctor_units_total is not tied to the code by the correspondence); '
    'from_streams is the last operation of a case and needs streams of one package (else `skip`)',
    'a history ends at the first rejected call (`err=`): model and oracle say nothing about the state a rejected call '
    'leaves behind (e.g. copy_like onto a package lacking a chemical raises after the target row was cleared)',
    'independence is probed by WRITES, not only by identities: T, a raw flow value, imass[...] =, set_flow(kg/hr) and '
    'ivol[...] = on one object after the mass / volume views of all objects concerned were read, then every other object '
    'is compared; besides indexer, phase, array, rows, thermal condition and factor dict the identities include the '
    'cache of mass / volume views (`_imol._data_cache`: may be shared only where flows, T/P and (single-phase) the phase '
    'are all shared; never after copy / unlink / flow_proxy / a partial link) and the `equations` object (shared by a '
    'proxy, ended by unlink); these two are oracle-only (not in the model)',
    'phase views ms[p] (`view i p`) are model objects: the dump shows, for every stream, the row object and thermal '
    'condition each handed-out view is bound to (compared with the model after every operation); the oracle also checks '
    'on the real objects that every such view is attached to its stream, except for a stream whose flows were re-bound '
    'because its proxy partner was flow-linked (hypothesis NoAliasRelink of the theorem views_follow_parent); views '
    'are not operands of the MODELLED operations; `viewops` (oracle only, on private copies) uses a view as source of '
    'pickle / proxy / flow_proxy / copy / copy_like / link_with and as target of copy_like from a stream of its phase; '
    'the copy, the flow proxy and the unpickled copy of a view must be free-standing streams: `phase =`, copy_like from a '
    'stream in another phase (a fresh one and the history\'s), unlink and `phases =` work on them and leave the phase, T, P '
    '(and, except through the flow proxy, the flows) of the view and its stream alone',
    'non-stream pickles (Reaction, ParallelReaction, SeriesReaction, ReactionSystem, Chemical, Thermo incl. non-default '
    'Gamma / Phi / PCF and a mixture with excess energies, Reaction between phases, ReactionItem, CompiledChemicals) are decided by the ORACLE (observable state before/after, also across sessions); the '
    '`pslots` protocol line only echoes the fingerprints of the original object (no independent model), `pchems` '
    'recomputes the name index from chemicals, names and groups',
    '`stream.phase = p` on a multi-phase stream gives THAT object a new single-phase indexer; for a proxy this silently '
    'ends the sharing with its original — mirrored as the code has it (model and advertised-sharing oracle), not '
    'judged against the sentence \'a proxy shares all flow data\'',
    'Reaction / ParallelReaction / Thermo / Chemical pickles: the adapter sends the slots read from the real object '
    'as the pickle arguments, the model rebuilds slot-wise (unset stays unset; for Chemical every slot through '
    'getattr(..., None)), the answer is compared with the slots of the really unpickled object (values by a '
    'fingerprint: primitives by repr, model objects by type and sample evaluations at T, at (phase, T, P) for liquid, gas and solid, and at (T, P)); CompiledChemicals: chemicals with '
    'the names they answer to and the groups go to the model, the index of every name is compared after the round trip (with the model and with the original object); chemical '
    'groups (members of different MW, defined by mole and with wt=True) are compared as stored (by mole and by weight, '
    '1e-12) and as used: a scalar written through the group key by mole and by mass on the original and on the '
    're-loaded object gives the members the same flows — for CompiledChemicals, Thermo and every pickled stream of a '
    'package with groups (packages A and C carry groups)',
    'after every operation the oracle also checks, on the real objects, that (i) ID-keyed access (imol[ID], '
    'imol[phase, ID], imol[phase, IDs]) agrees with the raw flow data of every stream, visiting the streams in both '
    'orders, (iii) the flows of every stream read by mass (imass[phase, ID], F_mass) are its molar flows times MW and, for the '
    'operands, read by volume (ivol) are what a fresh copy reports — the mass / volume views are requested after every '
    'operation, so every operation meets views built before it (a stale or raising view is an oracle failure), '
    'and (ii) pairwise sharing of flow data / phase container / thermal condition / factor dict / equations (view cache: never more) is exactly what the links, '
    'proxies, flow proxies and unlinks of the history advertise',
    'Python pickle protocol itself is trusted; only __reduce__ / from_data / set_data are modelled; pickling of '
    'Reaction / ParallelReaction / Chemical / Thermo is checked by the oracle on the real objects (observable state '
    'before vs after) and modelled only as slot-wise reconstruction (theorem slot_pickle_roundtrip)',
    'pickling across sessions: every stream pickle (and Reaction / Thermo / Chemical pickle) is also done with a '
    'different session default package (settings.set_thermo) at dumps time — the object\'s own package, the current '
    'one, or another — and at loads time, and compared with the original (flows, phases, T, P, price, factors, '
    'package, chemical IDs, Gamma); the default is restored afterwards (oracle on the real code only)',
    'the model has the behaviour WITH the patches fixes_proposed/C13-1 ... C13-14 (C13-14: user aliases travel with a pickled CompiledChemicals; C13-13: unlink takes a private copy '
    'of the characterization-factor dict and of the equations object); on a tree without them the oracle '
    'reports the corresponding failures and the case ends at the failing operation',
    'the session defaults used by the cross-session pickle probes are a function of the protocol line and the state '
    'of the pickled object (crc32), so a failure reproduces under shrinking and --replay',
]
TRUSTED = ['Lean 4.33 kernel', 'correspondence harness harness/props/c13.py + Driver/C13.lean',
           'generator reach (see histogram)', 'pickle module']
EXHAUSTIVE = {'quick': False, 'thorough': False}

tmo = None
TH = {}            # package name -> Thermo
CAS_ID = {}        # CAS string -> small int
ID_OF = {}         # small int -> chemical ID
PKGS = {}          # package name -> list of small ints
EXTRA = {}         # objects for pickleobj
NAMES = ['Water', 'Ethanol', 'Methanol', 'Octane']
PKG_DEF = {'A': ['Water', 'Ethanol', 'Methanol'], 'B': ['Methanol', 'Water'],
           'C': ['Ethanol', 'Water', 'Methanol', 'Octane'], 'D': ['Methanol', 'Ethanol', 'Water']}
PH_ORDER = 'LSgls'
SINGLE_PHASES = ['g', 'l', 's', 'L', 'S']
MULTI_PHASES = ['g,l', 'l,s', 'g,l,s', 'L,l', 'L,s', 'L,g', 'S,l', 'g', 'l', 'L,S,g,l,s']


def setup():
    global tmo
    import thermosteam as tmo_
    tmo = tmo_
    warnings.simplefilter('ignore')
    chems = {n: tmo.Chemical(n, cache=True) for n in NAMES}
    for n, name in enumerate(NAMES, 1):
        CAS_ID[chems[name].CAS] = n
        ID_OF[n] = name
    for k, names in PKG_DEF.items():
        TH[k] = tmo.Thermo(tmo.Chemicals([chems[n] for n in names], cache=True))
        PKGS[k] = [CAS_ID[c] for c in TH[k].chemicals.CASs]
    # chemical groups on two of the packages (members of different molecular weight; by mole and by weight): they
    # travel with every pickled stream of these packages
    TH['A'].chemicals.define_group('Alc', ['Ethanol', 'Methanol'], composition=[0.25, 0.75])
    TH['C'].chemicals.define_group('AlcW', ['Ethanol', 'Methanol', 'Octane'], composition=[0.25, 0.5, 0.25], wt=True)
    TH['C'].chemicals.define_group('Pair', ['Water', 'Octane'])
    tmo.settings.set_thermo(TH['A'])
    # objects for the non-stream pickles
    import thermosteam.reaction as rxn
    tmo.settings.set_thermo(TH['C'])
    EXTRA['rxn'] = [
        rxn.Reaction('2Methanol -> Ethanol + Water', reactant='Methanol', X=0.5),
        rxn.Reaction('Ethanol -> Octane', reactant='Ethanol', X=0.25, basis='wt', correct_atomic_balance=False,
                     check_atomic_balance=False, check_mass_balance=False),
    ]
    EXTRA['prxn'] = [rxn.ParallelReaction([rxn.Reaction('2Methanol -> Ethanol + Water', reactant='Methanol', X=0.5),
                                           rxn.Reaction('Ethanol -> Methanol', reactant='Ethanol', X=0.125,
                                                        check_atomic_balance=False, check_mass_balance=False)])]
    r1 = rxn.Reaction('2Methanol -> Ethanol + Water', reactant='Methanol', X=0.5)
    r2 = rxn.Reaction('Ethanol -> Methanol', reactant='Ethanol', X=0.125, check_atomic_balance=False, check_mass_balance=False)
    EXTRA['srxn'] = [rxn.SeriesReaction([r1, r2])]
    EXTRA['rsys'] = [rxn.ReactionSystem(r1, rxn.ParallelReaction([r1.copy(), r2.copy()]))]
    EXTRA['chem'] = [chems[n] for n in NAMES]
    EXTRA['thermo'] = [TH[k] for k in ('A', 'B', 'C', 'D')]
    # chemicals with user-set data, a locked state, a blank (user-defined) chemical; not cached, so that the
    # aliases set below do not leak into the packages of the streams
    e = tmo.Chemical('Ethanol'); e.Hf = -1234.5; e.at_state('l')
    y = tmo.Chemical.blank('Yeast', phase='s', formula='CH1.61O0.56N0.16', Hf=-130412.73); y.default()
    wtr = tmo.Chemical('Water'); wtr.Tb = 373.0
    EXTRA['chem'] += [e, y, wtr]
    cc = tmo.Chemicals([wtr, e, tmo.Chemical('Methanol'), y]); cc.compile()
    cc.set_alias('Water', 'H2O_x')
    cc.define_group('Alcohols', ['Ethanol', 'Methanol'], composition=[0.25, 0.75])
    cc.define_group('AlcoholsW', ['Ethanol', 'Methanol', 'Water'], composition=[0.25, 0.5, 0.25], wt=True)
    cc.define_group('Both', ['Water', 'Ethanol'])
    cc2 = tmo.Chemicals([tmo.Chemical('Methanol'), tmo.Chemical('Water')]); cc2.compile(); cc2.set_alias('Methanol', 'MeOH_x')
    # a user alias that is also a name two chemicals claim (their formula): compile() alone would drop it
    cc3 = tmo.Chemicals([tmo.Chemical('Propanol'), tmo.Chemical('Isopropanol'), tmo.Chemical('Water')]); cc3.compile()
    cc3.set_alias('Propanol', 'C3H8O')
    cc3.define_group('Propanols', ['Propanol', 'Isopropanol'], composition=[0.125, 0.875], wt=True)
    EXTRA['cchems'] = [cc, cc2, TH['C'].chemicals, cc3, TH['A'].chemicals]
    thcc = tmo.Thermo(cc)
    EXTRA['thermo'] += [thcc, tmo.Thermo(cc2)]
    # non-default activity / fugacity / Poynting models
    from thermosteam import equilibrium as eq_
    # (the defaults are Dortmund / IdealFugacityCoefficients / MockPoyintingCorrectionFactors: none of them is used here)
    EXTRA['thermo'] += [tmo.Thermo(TH['A'].chemicals, Gamma=eq_.IdealActivityCoefficients),
                        tmo.Thermo(TH['B'].chemicals, Gamma=eq_.IdealActivityCoefficients,
                                   PCF=eq_.IdealGasPoyintingCorrectionFactors),
                        tmo.Thermo(TH['A'].chemicals, Phi=eq_.SRKFugacityCoefficients,
                                   PCF=eq_.IdealGasPoyintingCorrectionFactors),
                        tmo.Thermo(TH['D'].chemicals, Gamma=eq_.UNIFACActivityCoefficients,
                                   mixture=tmo.IdealMixture.from_chemicals(TH['D'].chemicals, include_excess_energies=True))]
    # a reaction between phases, an item of a reaction set, a slice of one
    EXTRA['rxn'].append(rxn.Reaction('Ethanol,l -> Water,g', reactant='Ethanol', X=0.375, phases='lg',
                                     check_atomic_balance=False, check_mass_balance=False))
    EXTRA['rxn'].append(EXTRA['prxn'][0][1])
    EXTRA['prxn'].append(EXTRA['prxn'][0][0:2])
    tmo.settings.set_thermo(thcc)
    EXTRA['rxn'].append(rxn.Reaction('Ethanol -> H2O_x', reactant='Ethanol', X=0.5, check_atomic_balance=False,
                                     check_mass_balance=False, correct_atomic_balance=False))
    tmo.settings.set_thermo(TH['A'])


def budget(tier):
    return {'quick': dict(seconds=70, cases=2800, shrink_s=15, search_s=5),
            'thorough': dict(seconds=400, cases=30000, shrink_s=40, search_s=20)}[tier]


# --------------------------------------------------------------------------
# observation of the real objects
# --------------------------------------------------------------------------

def is_multi(s):
    return isinstance(s._imol, tmo.indexer.MaterialIndexer)


def phases_of(s):
    return tuple(s._imol._phases) if is_multi(s) else (s._imol._phase._phase,)


def rows_of(s):
    d = s._imol.data
    return list(d.rows) if is_multi(s) else [d]


def pkg_of(s):
    return [CAS_ID.get(c, 0) for c in s.chemicals.CASs]


def row_dict(s, row):
    cas = s.chemicals.CASs
    out = {}
    for i, v in row.dct.items():
        if v:
            out[CAS_ID.get(cas[i], 0) if i < len(cas) else 1000 + i] = v
    return out


def cond(s):
    """flows, phase(s), T, P — what copy / copy_like promise"""
    return (phases_of(s), tuple(tuple(sorted(row_dict(s, r).items())) for r in rows_of(s)), s.T, s.P)


def idents(s):
    """the objects that can be shared, by part"""
    im = s._imol
    eq = getattr(s, 'equations', None)
    return {'imol': [im], 'phase': [] if is_multi(s) else [im._phase], 'array': [im.data] if is_multi(s) else [],
            'rows': [r.dct for r in rows_of(s)], 'tc': [s._thermal_condition], 'cf': [s.characterization_factors],
            'cache': [im._data_cache], 'eq': [] if eq is None else [eq]}


ALL_PARTS = ('imol', 'phase', 'array', 'rows', 'tc', 'cf', 'cache', 'eq')


def shared_parts(a, b, parts=ALL_PARTS):
    ia, ib = idents(a), idents(b)
    return [p for p in parts if any(x is y for x in ia[p] for y in ib[p])]


def cf_of(s):
    return {int(k[1:]) if isinstance(k, str) and k[1:].isdigit() else k: v
            for k, v in s.characterization_factors.items()}


def sid_of(s):
    i = s._ID
    return int(i[1:]) if i.startswith('q') and i[1:].isdigit() else None


def full(s):
    return (cond(s), s.price, tuple(sorted(cf_of(s).items())), sid_of(s), tuple(pkg_of(s)))


def cond_keyed(s):
    """the same flows read through ID-keyed access (`imol[ID]`, `imol[phase, ID]`, `imol[phase, IDs]`)"""
    IDs = tuple(s.chemicals.IDs)
    cas = [CAS_ID.get(c, 0) for c in s.chemicals.CASs]
    out = []
    if is_multi(s):
        for p in phases_of(s):
            one = {c: float(s.imol[p, i]) for c, i in zip(cas, IDs)}
            rev = s.imol[p, IDs[::-1]]
            many = {c: float(v) for c, v in zip(cas[::-1], rev)}
            out.append((p, tuple(sorted((c, v) for c, v in one.items() if v)),
                        tuple(sorted((c, v) for c, v in many.items() if v))))
        tot = tuple(sorted((c, float(s.imol[i])) for c, i in zip(cas, IDs) if float(s.imol[i])))
        out.append(('*', tot, tot))
    else:
        one = {c: float(s.imol[i]) for c, i in zip(cas, IDs)}
        rev = s.imol[IDs[::-1]]
        many = {c: float(v) for c, v in zip(cas[::-1], rev)}
        out.append((phases_of(s)[0], tuple(sorted((c, v) for c, v in one.items() if v)),
                    tuple(sorted((c, v) for c, v in many.items() if v))))
    return tuple(out)


def cond_raw_as_keyed(s):
    """what `cond_keyed` must return, computed from the raw flow data"""
    out = []
    rows = [tuple(sorted(row_dict(s, r).items())) for r in rows_of(s)]
    for p, r in zip(phases_of(s), rows):
        out.append((p, r, r))
    if is_multi(s):
        tot = {}
        for r in rows:
            for c, v in r: tot[c] = tot.get(c, 0.) + v
        t = tuple(sorted((c, v) for c, v in tot.items() if v))
        out.append(('*', t, t))
    return tuple(out)


class Exp:
    """What the history advertises about sharing: one token per shareable part and stream.
    (Only who shares what with whom; no values.)"""
    def __init__(self):
        self.t = []
        self.n = 0

    def fresh(self):
        self.n += 1
        return self.n

    def new(self):
        self.t.append({k: self.fresh() for k in ('imol', 'data', 'phase', 'tc', 'cache', 'cf', 'eq')})

    def renew(self, i, parts):
        for k in parts: self.t[i][k] = self.fresh()

    def followers(self, i):
        return [u for u in range(len(self.t)) if self.t[u]['imol'] == self.t[i]['imol']]


class World:
    def __init__(self):
        self.streams = []
        self.tags = []
        self.exp = Exp()
        self.views = {}        # (stream index, phase) -> the phase view obtained when first seen (held, not re-fetched)
        self.view_excluded = set()  # streams whose indexer object was re-linked through ANOTHER stream (a proxy partner)
        tmo.Stream.registry.clear()

    def check_sharing(self, op, line):
        """sharing between every two streams is exactly what the links / proxies of the history advertise"""
        S, E = self.streams, self.exp.t
        assert len(S) == len(E), (len(S), len(E))
        for i in range(len(S)):
            for j in range(i + 1, len(S)):
                a, b = S[i], S[j]
                real = {'data': a._imol.data is b._imol.data, 'tc': a._thermal_condition is b._thermal_condition,
                        'cache': a._imol._data_cache is b._imol._data_cache,
                        'cf': a.characterization_factors is b.characterization_factors,
                        'eq': getattr(a, 'equations', a) is getattr(b, 'equations', b)}
                if not is_multi(a) and not is_multi(b):
                    real['phase'] = a._imol._phase is b._imol._phase
                for part, r in real.items():
                    want = E[i][part] == E[j][part]
                    if part == 'cache' and not r: continue    # sharing that cache is allowed, never required
                    if r != want:
                        what = ('share their ' if r else 'do not share their ') + \
                               {'data': 'flow data', 'tc': 'thermal condition', 'phase': 'phase',
                                'cache': 'cache of mass / volume flow views (imass, ivol)',
                                'cf': 'characterization-factor dict', 'eq': 'equations object'}[part]
                        raise OracleFail(f'{op}:sharing-{part}-{"extra" if r else "missing"}',
                                         f'after `{line}` streams {i} and {j} {what}, but the links, proxies and '
                                         f'unlinks of the history say they should{" not" if r else ""}')

    def check_keyed(self, op, line):
        """ID-keyed access agrees with the flow data, on every stream, in both visiting orders"""
        for order in (range(len(self.streams) - 1, -1, -1), range(len(self.streams))):
            for j in order:
                s = self.streams[j]
                try:
                    k = cond_keyed(s)
                except Exception as e:
                    raise OracleFail(f'{op}:keyed-access-raises', f'after `{line}` ID-keyed access to stream {j} raised {e!r}')
                r = cond_raw_as_keyed(s)
                if k != r:
                    raise OracleFail(f'{op}:keyed-access',
                                     f'after `{line}` stream {j} read by chemical ID gives {k} but its flow data is {r}')

    def check_views(self, op, line):
        """phase views ms[p], once obtained, stay live: same row object and thermal condition as the stream, same values.
        (Left out: a stream whose flows were re-bound because its proxy partner — same indexer object — was linked to
        a third stream; what views handed out by such a stream should follow is not determined by the property.)"""
        for j, s in enumerate(self.streams):
            if not is_multi(s) or j in self.view_excluded:
                continue
            for k, p in enumerate(phases_of(s)):
                v = (getattr(s, '_streams', None) or {}).get(p)
                if v is None: continue
                row = s._imol.data.rows[k]
                if v._imol.data.dct is not row.dct:
                    raise OracleFail(f'{op}:view-stale-flows', f'after `{line}` the phase view {j}[{p!r}] (obtained earlier) is '
                                                               f'not attached to the flow data of its stream any more')
                if v._thermal_condition is not s._thermal_condition:
                    raise OracleFail(f'{op}:view-stale-TP', f'after `{line}` the phase view {j}[{p!r}] (obtained earlier) does '
                                                            f'not share the thermal condition of its stream any more')
                if v.phase != p or (v.T, v.P) != (s.T, s.P):
                    raise OracleFail(f'{op}:view-values', f'after `{line}` the phase view {j}[{p!r}] reports phase/T/P '
                                                          f'{v.phase, v.T, v.P}, its stream {p, s.T, s.P}')
                ids = tuple(s.chemicals.IDs)
                if [float(v.imol[i]) for i in ids] != [float(s.imol[p, i]) for i in ids]:
                    raise OracleFail(f'{op}:view-values', f'after `{line}` the phase view {j}[{p!r}] and its stream report '
                                                          f'different flows')


    def check_massvol(self, op, line, mentioned):
        """The flows of every stream read BY MASS (`imass`, per phase and chemical, `F_mass`) are its molar flows times
        the molecular weights, and read BY VOLUME (`ivol`; the operands of the operation) they are what a fresh copy of
        the stream reports.  The mass / volume views are requested after every operation, so every later operation
        (copy_like growing the phases, link, unlink, phase change ...) meets views that were built before it."""
        for j, s in enumerate(self.streams):
            IDs, MW, cas = tuple(s.chemicals.IDs), s.chemicals.MW, pkg_of(s)
            keys = [((p, i) if is_multi(s) else i, p, k) for p in phases_of(s) for k, i in enumerate(IDs)]
            raw = {p: row_dict(s, r) for p, r in zip(phases_of(s), rows_of(s))}
            try:
                im = s.imass
                if is_multi(s) and tuple(im.phases) != phases_of(s):
                    raise OracleFail(f'{op}:mass-view-phases', f'after `{line}` the flows of stream {j} by mass are indexed over '
                                                               f'phases {tuple(im.phases)}, the stream has {phases_of(s)}')
                got = {(p, k): float(im[key]) for key, p, k in keys}
                total = float(s.F_mass)
            except OracleFail:
                raise
            except Exception as e:
                raise OracleFail(f'{op}:mass-view-raises-{type(e).__name__}',
                                 f'after `{line}` reading the flows of stream {j} by mass (imass[phase, ID]) raised {e!r}')
            want_total = 0.
            for (p, k), v in got.items():
                w = raw[p].get(cas[k], 0.) * float(MW[k])
                want_total += w
                if not close(v, w, 1e-12, 1e-300):
                    raise OracleFail(f'{op}:mass-view-values', f'after `{line}` stream {j} reports {v} kg/hr of {IDs[k]} in phase '
                                                               f'{p!r}, its molar flow times MW is {w}')
            if not close(total, want_total, 1e-9, 1e-12):
                raise OracleFail(f'{op}:mass-view-values', f'after `{line}` stream {j} has F_mass {total}, its molar flows give {want_total}')
            if j not in mentioned: continue

            def vols(x):
                out = {}
                iv = x.ivol
                for key, p, k in keys:
                    if not raw[p].get(cas[k], 0.): continue
                    try: out[p, k] = float(iv[key])
                    except Exception as e: out[p, k] = 'raises ' + type(e).__name__
                return out
            try:
                a = vols(s)
            except Exception as e:
                raise OracleFail(f'{op}:vol-view-raises-{type(e).__name__}', f'after `{line}` reading the flows of stream {j} by volume raised {e!r}')
            b = vols(s.copy())
            for kk in b:
                x, y = a[kk], b[kk]
                if (isinstance(x, str) or isinstance(y, str)) and x != y or \
                        not isinstance(x, str) and not isinstance(y, str) and not (close(x, y, 1e-12, 1e-300) or (x != x and y != y)):
                    raise OracleFail(f'{op}:vol-view-values', f'after `{line}` stream {j} reports {x} m3/hr of {IDs[kk[1]]} in phase '
                                                              f'{kk[0]!r}, a fresh copy of it reports {y}')

    def show(self):
        seen = []

        def canon(x):
            for n, y in enumerate(seen):
                if y is x: return n
            seen.append(x); return len(seen) - 1
        parts = []
        for i, s in enumerate(self.streams):
            phases, rows = phases_of(s), rows_of(s)
            body = ''.join(f'{p}[{",".join(f"{c}:{frac(v)}" for c, v in sorted(row_dict(s, r).items()))}]'
                           for p, r in zip(phases, rows))
            extra = '' if len(phases) == len(rows) else f'!{len(phases)}/{len(rows)}'
            im = s._imol
            objs = [im, im.data if is_multi(s) else im._phase] + [r.dct for r in rows] + \
                   [s._thermal_condition, s.characterization_factors, s.chemicals]
            ids = '.'.join(str(canon(o)) for o in objs)
            cf = ','.join(f'{k}:{frac(v)}' for k, v in sorted(cf_of(s).items()))
            sid = sid_of(s)
            vd = getattr(s, '_streams', None) or {}
            vparts = []
            for ph in PH_ORDER:
                if ph in vd:
                    v = vd[ph]
                    vparts.append(f'{ph}:{canon(v._imol.data.dct)}.{canon(v._thermal_condition)}')
            parts.append(f'{i}={"M" if is_multi(s) else "S"};{body}{extra};{frac(s.T)};{frac(s.P)};{frac(s.price)};'
                         f'{{{cf}}};{"-" if sid is None else sid};@{ids};v[{",".join(vparts)}]')
        return ' '.join(parts)


def current_default():
    try:
        return tmo.settings.get_thermo()
    except Exception:
        return getattr(tmo.settings, '_thermo', None)


def across_sessions(own, key):
    """(default package at dumps time, default package at loads time, description) for the cross-session probes.
    Which other packages play the session default is a function of `key` (the protocol line and the state of
    the pickled object), not of how many pickles this process ran before: a failure reproduces under
    shrinking and --replay."""
    others = [th for th in TH.values() if th is not own]
    cur = current_default()
    rot = zlib.crc32(key.encode())
    a, b = others[rot % len(others)], others[(rot + 1) % len(others)]
    odd = (rot >> 8) % 2
    return [(own, a, 'its own package was the session default, and loaded under another default'),
            (cur if odd else b, b if odd else own,
             'the session default was left as it is, and loaded under another default' if odd else
             'another package was the session default, and loaded with its own package as default')]


def with_defaults(at_dump, at_load, obj):
    """pickle.dumps under one session default, pickle.loads under another; the default is restored afterwards"""
    prev = current_default()
    try:
        if at_dump is not None: tmo.settings.set_thermo(at_dump)
        data = pickle.dumps(obj)
        if at_load is not None: tmo.settings.set_thermo(at_load)
        return pickle.loads(data)
    finally:
        if prev is not None: tmo.settings.set_thermo(prev)


def kind_tag(s):
    if not is_multi(s): return 'S'
    return 'M1' if len(phases_of(s)) == 1 else 'M'


def swapcase_ok(p):
    q = p.swapcase()
    return q if q in PH_ORDER else None


class OracleFail(Exception):
    def __init__(self, sig, what):
        self.sig, self.what = sig, what


def parse_pairs(t):
    if t == '-': return []
    return [(int(k), Fraction(v)) for k, v in (kv.split(':') for kv in t.split(','))]


def fl(x):
    return float(Fraction(x))


ERRMAP = {'UndefinedChemicalAlias': 'UndefinedChemical', 'UndefinedChemical': 'UndefinedChemical',
          'UndefinedPhase': 'UndefinedPhase'}


def errname(e):
    n = type(e).__name__
    if n == 'RuntimeError' and 'cannot link' in str(e): return 'LinkClass'
    return ERRMAP.get(n, n)


def probe_independent(a, others, sig):
    """Mutate `a` and check that none of `others` moves; `a` is restored afterwards.  The writes: T; one flow
    through the raw data; one flow through the mass view (`imass[...] =`), through `set_flow(..., 'kg/hr')` and
    through the volume view (`ivol[...] =`) — each after the mass / volume views of ALL the objects were read, so
    that a cache of such views kept by a copy / unlink / flow proxy writes into the wrong object."""
    others = [o for o in others if o is not a]
    before = [cond(o) for o in others]
    snap = [dict(r.dct) for r in rows_of(a)]
    T0 = a.T

    def restore():
        a.T = T0
        for r, d in zip(rows_of(a), snap):
            r.dct.clear(); r.dct.update(d)

    def verdict(how):
        after = [cond(o) for o in others]
        restore()
        if before != after:
            raise OracleFail(sig, f'a change of one object ({how}) is visible in the other')
    a.T = T0 + 1.0
    rows = rows_of(a)
    if rows: rows[0].dct[0] = rows[0].dct.get(0, 0.0) + 1.0
    verdict('T and a raw flow value')
    if not rows: return
    ID = a.chemicals.IDs[0]
    key = (phases_of(a)[0], ID) if is_multi(a) else ID
    try:
        for o in others + [a]: o.imass
        a.imass[key] = float(a.imass[key]) + 1.0
    except Exception as e:
        restore()
        raise OracleFail(sig.split(':')[0] + f':mass-view-raises-{type(e).__name__}', f'reading / writing a flow by mass (imass[{key!r}]) raised {e!r}')
    verdict('a flow written through imass')
    try:
        for o in others + [a]: o.imass
        a.set_flow(float(a.imass[key]) + 2.0, 'kg/hr', key)
    except Exception as e:
        restore()
        raise OracleFail(sig.split(':')[0] + f':mass-view-raises-{type(e).__name__}', f"set_flow(..., 'kg/hr', {key!r}) raised {e!r}")
    verdict("a flow written by set_flow(..., 'kg/hr')")
    try:
        for o in others + [a]: o.ivol
        v = float(a.ivol[key])
        a.ivol[key] = v + 0.5
    except OracleFail:
        raise
    except Exception:
        restore()       # no volume model for this chemical / phase: nothing written
        return
    verdict('a flow written through ivol')


def apply(W: World, line: str):
    """Execute one protocol line on the real objects and evaluate the property oracle for it.
    Returns the answer line; raises OracleFail when the property fails on the real code."""
    t = line.split(' ')
    op = t[0]
    S = W.streams
    mentioned = []
    if op in ('setflow', 'setT', 'setP', 'setphase', 'empty', 'setprice', 'setcf', 'copy', 'copyto', 'unlink', 'proxy',
              'flowproxy', 'pickle'):
        mentioned = [int(t[1])]
    elif op in ('copylike', 'copytc', 'link'):
        mentioned = [int(t[1]), int(t[2])]
    elif op == 'fromstreams':
        mentioned = [int(x) for x in t[1].split(',')]
    if any(i >= len(S) for i in mentioned):
        return 'err=BadStream'
    # frame: streams not mentioned that share nothing with the mentioned ones must not change
    ms = [S[i] for i in mentioned]
    bystanders = [(j, y, full(y), idents(y)) for j, y in enumerate(S)
                  if j not in mentioned and not any(shared_parts(y, m) for m in ms)]

    def check_frame():
        for j, y, before, ids in bystanders:
            if full(y) != before:
                raise OracleFail(f'{op}:frame', f'stream {j}, not involved in `{line}` and sharing nothing with its '
                                                f'operands, changed: {before} -> {full(y)}')
            now = idents(y)
            for part in ids:
                if len(ids[part]) != len(now[part]) or any(a is not b for a, b in zip(ids[part], now[part])):
                    raise OracleFail(f'{op}:frame', f'stream {j}, not involved in `{line}`, had its {part} rebound')

    E = W.exp
    n_before = len(S)
    was_multi = [is_multi(x) for x in ms]

    def finish():
        check_frame()
        W.check_sharing(op, line)
        W.check_keyed(op, line)
        W.check_views(op, line)
        W.check_massvol(op, line, mentioned + list(range(n_before, len(S))))
        return 'ok ' + W.show()

    if op == 'new':
        kind, sid, pkg, phases, flows, T, P, price, cf = t[1:10]
        extras = {x.split(':')[0]: x.split(':')[1:] for x in t[10:]}
        units = total = None
        factor = Fraction(1)
        if 'u' in extras:
            basis, fct = extras['u']
            factor = Fraction(fct)
            units = {('k', 1): 'kmol/hr', ('k', 1000): 'mol/hr', ('m', 1): 'kg/hr', ('m', 1000): 'g/hr'}[(basis, int(factor))]
        if 't' in extras: total = fl(extras['t'][0])
        th = TH[pkg_name(pkg)]
        ID = None if sid == '-' else f'q{sid}'
        cfd = None if cf == '-' else {f'k{k}': fl(v) for k, v in parse_pairs(cf)}
        cf_given = dict(cfd) if cfd is not None else {}
        phs = phases.split(',')
        per = [] if flows == '-' else [parse_pairs(x) for x in flows.split(';')]
        tag = 'S' if kind == 'S' else 'M'
        # the flows given (molar units: exact): value * (total / sum of the given values) / factor of the unit
        given = [dict(x) for x in per] + [{}] * 8
        tot_given = sum((sum(d.values(), Fraction(0)) for d in given), Fraction(0))
        # the constructor rescales to total_flow when it is given and not 0 (a Stream with units also for 0);
        # with nothing to rescale (all given flows 0) that is a division by zero
        rescales = total is not None and (total != 0 or (units is not None and kind == 'S'))
        in_pkg = all(c in PKGS[pkg_name(pkg)] for d in given for c in d)
        try:
            if kind == 'S':
                kw = {ID_OF[c]: fl(v) for c, v in (per[0] if per else [])}
                s = tmo.Stream(ID, phase=phs[0], T=fl(T), P=fl(P), price=fl(price), thermo=th,
                               characterization_factors=cfd, units=units, total_flow=total, **kw)
            else:
                sphs = sorted(set(phs))
                kw = {p: [(ID_OF[c], fl(v)) for c, v in per[k]] for k, p in enumerate(sphs) if k < len(per) and per[k]}
                s = tmo.MultiStream(ID, phases=tuple(phs), T=fl(T), P=fl(P), price=fl(price), thermo=th,
                                    characterization_factors=cfd, units=units, total_flow=total, **kw)
        except ZeroDivisionError as e:
            if rescales and tot_given == 0 and in_pkg:
                W.tags.append(f'new/{tag}:total-of-nothing')
                return 'err=ZeroDivisionError'
            raise OracleFail(f'new/{tag}:raises-ZeroDivisionError', f'constructor given {per} units={units} '
                                                                    f'total_flow={total} raised {e!r}')
        if rescales and tot_given == 0:
            raise OracleFail(f'new/{tag}:total-of-nothing-accepted',
                             f'constructor given total_flow={total} and no non-zero flow returned a stream '
                             f'(total {s.F_mol}) instead of raising')
        S.append(s)
        if s.price != fl(price): raise OracleFail(f'new/{tag}:price', f'price given {fl(price)} stored {s.price}')
        got = {k: v for k, v in s.characterization_factors.items()}
        if got != cf_given:
            raise OracleFail(f'new/{tag}:cf', f'characterization factors given at construction {cf_given} but the '
                                              f'stream holds {got}')
        if (s.T, s.P) != (fl(T), fl(P)): raise OracleFail(f'new/{tag}:TP', 'T/P given at construction not stored')
        if sid_of(s) != (None if sid == '-' else int(sid)): raise OracleFail(f'new/{tag}:ID', 'ID not stored')
        scale = Fraction(1)
        if rescales: scale = Fraction(total) / tot_given
        if 'u' not in extras or extras['u'][0] == 'k':
            want = tuple(tuple(sorted((c, v * scale / factor) for c, v in given[k].items() if v * scale)) for k in range(len(phases_of(s))))
            got = tuple(tuple(sorted((c, Fraction(v)) for c, v in row_dict(s, r).items())) for r in rows_of(s))
            if got != want:
                raise OracleFail(f'new/{tag}:flows' + ('-units' if units else '') + ('-total' if total is not None else ''),
                                 f'constructor given {per} units={units} total_flow={total} stores {got}, expected {want}')
        E.new()
        return finish()

    if op == 'setflow':
        s = S[int(t[1])]
        cid = ID_OF[int(t[3])]
        if is_multi(s): s.imol[t[2], cid] = fl(t[4])
        else: s.imol[cid] = fl(t[4])
    elif op == 'setT':
        S[int(t[1])].T = fl(t[2])
    elif op == 'setP':
        S[int(t[1])].P = fl(t[2])
    elif op == 'setphase':
        S[int(t[1])].phase = t[2]
        if was_multi[0]: E.renew(int(t[1]), ('imol', 'data', 'phase', 'cache'))
    elif op == 'empty':
        S[int(t[1])].empty()
    elif op == 'setprice':
        S[int(t[1])].price = fl(t[2])
    elif op == 'setcf':
        S[int(t[1])].characterization_factors[f'k{t[2]}'] = fl(t[3])

    elif op == 'copy':
        s = S[int(t[1])]
        k = kind_tag(s)
        before = full(s)
        try:
            c = s.copy()
        except Exception as e:
            raise OracleFail(f'copy/{k}:raises-{type(e).__name__}', f'copy raised {e!r}')
        if cond(c) != cond(s) or is_multi(c) != is_multi(s):
            raise OracleFail(f'copy/{k}:not-equal', f'copy has {cond(c)}, original {cond(s)}')
        if full(s) != before: raise OracleFail(f'copy/{k}:source-changed', 'copy changed the original')
        for j, y in enumerate(S):
            sh = shared_parts(c, y)
            if sh: raise OracleFail(f'copy/{k}:shares-{sh[0]}', f'the copy shares its {sh} with stream {j}')
        probe_independent(c, S, f'copy/{k}:not-independent')
        probe_independent(s, [c], f'copy/{k}:not-independent')
        S.append(c); E.new()

    elif op == 'copyto':
        s = S[int(t[1])]
        k = kind_tag(s)
        name = pkg_name(t[2])
        th = TH[name]
        rel = 'same' if th.chemicals is s.chemicals else ('perm' if sorted(PKGS[name]) == sorted(pkg_of(s)) else
                                                         ('super' if set(pkg_of(s)) <= set(PKGS[name]) else 'other'))
        W.tags.append(f'copyto:{k}/{rel}')
        before = full(s)
        keyed_before = cond_keyed(s)
        held = {c for r in rows_of(s) for c in row_dict(s, r)}
        missing = any(c not in PKGS[name] for c in held)
        try:
            c = s.copy(thermo=th)
        except Exception as e:
            if missing and errname(e) == 'UndefinedChemical':
                return 'err=UndefinedChemical'
            raise OracleFail(f'copyto/{k}:raises-{type(e).__name__}', f'copy(thermo=...) ({rel} package) raised {e!r}')
        if missing:
            raise OracleFail(f'copyto/{k}:no-error', 'the stream holds a chemical the package lacks, yet copy(thermo=) succeeded')
        if c.chemicals is not th.chemicals:
            raise OracleFail(f'copyto/{k}:package', 'the copy does not use the requested property package')
        if cond(c) != cond(s) or is_multi(c) != is_multi(s):
            raise OracleFail(f'copyto/{k}:not-equal', f'copy onto a {rel} package has {cond(c)}, original {cond(s)}')
        try:
            kc = cond_keyed(c)
        except Exception as e:
            raise OracleFail(f'copyto/{k}:keyed-access-raises', f'ID-keyed access to the copy raised {e!r}')
        if kc != keyed_before or cond_keyed(s) != keyed_before:
            raise OracleFail(f'copyto/{k}:keyed-not-equal',
                             f'read by chemical ID the copy onto a {rel} package gives {kc}, the original gave '
                             f'{keyed_before} before and gives {cond_keyed(s)} now')
        if full(s) != before: raise OracleFail(f'copyto/{k}:source-changed', 'copy(thermo=) changed the original')
        for j, y in enumerate(S):
            sh = shared_parts(c, y)
            if sh: raise OracleFail(f'copyto/{k}:shares-{sh[0]}', f'the copy shares its {sh} with stream {j}')
        probe_independent(c, S, f'copyto/{k}:not-independent')
        probe_independent(s, [c], f'copyto/{k}:not-independent')
        # a write by ID on the copy hits that chemical and leaves the original alone
        cid = PKGS[name][0]
        ph = phases_of(c)[0]
        key = (ph, ID_OF[cid]) if is_multi(c) else ID_OF[cid]
        old = float(c.imol[key])
        c.imol[key] = old + 1.
        got = row_dict(c, rows_of(c)[0]).get(cid, 0.)
        c.imol[key] = old
        if got != old + 1.:
            raise OracleFail(f'copyto/{k}:keyed-write', f'writing {ID_OF[cid]} by ID on the copy changed another chemical')
        if full(s) != before or cond(c) != cond(s):
            raise OracleFail(f'copyto/{k}:keyed-write', 'a write by ID on the copy (undone afterwards) left a trace')
        S.append(c); E.new()

    elif op == 'copylike':
        tg, sr = S[int(t[1])], S[int(t[2])]
        if is_multi(tg) and phases_of(tg) != phases_of(sr) and any(
                y._imol is not tg._imol and is_multi(y) and y._imol.data is tg._imol.data for y in S):
            return 'skip'
        rel = 'same' if tg.chemicals is sr.chemicals else ('eq' if pkg_of(tg) == pkg_of(sr) else 'other')
        cell = f'{kind_tag(tg)}<-{kind_tag(sr)}'
        W.tags.append(f'cell:{cell}/{rel}')
        src_before = full(sr)
        src_rows = [(p, row_dict(sr, r)) for p, r in zip(phases_of(sr), rows_of(sr))]
        tpkg = set(pkg_of(tg))
        missing = any(c not in tpkg for _, d in src_rows for c in d)
        aliased = bool(shared_parts(tg, sr, ('imol', 'array', 'rows')))
        was_single = not is_multi(tg)
        try:
            tg.copy_like(sr)
        except Exception as e:
            if missing and errname(e) == 'UndefinedChemical':
                return 'err=UndefinedChemical'
            raise OracleFail(f'copylike/{cell}:raises-{type(e).__name__}',
                             f'`{line}` ({cell}, package relation {rel}) raised {e!r}; every chemical of the source '
                             f'is in the target package: {not missing}')
        if missing:
            raise OracleFail(f'copylike/{cell}:no-error', 'source holds a chemical the target package lacks, no error')
        if (tg.T, tg.P) != (sr.T, sr.P):
            raise OracleFail(f'copylike/{cell}:TP', f'after copy_like target T,P={tg.T, tg.P} source {sr.T, sr.P}')
        tph = phases_of(tg)
        trows = {p: row_dict(tg, r) for p, r in zip(tph, rows_of(tg))}
        if len(tph) != len(rows_of(tg)):
            raise OracleFail(f'copylike/{cell}:shape', 'phases and rows of the target differ in number')
        if was_single and len(src_rows) != 1 and tuple(p for p, _ in src_rows) != tph:
            raise OracleFail(f'copylike/{cell}:phases', f'target phases {tph}, source {phases_of(sr)}')
        if not is_multi(tg) and len(src_rows) == 1 and tph != (src_rows[0][0],):
            raise OracleFail(f'copylike/{cell}:phase', f'target phase {tph}, source {src_rows[0][0]}')
        used = set()
        for p, d in src_rows:
            dest = p if p in trows else swapcase_ok(p)
            if dest not in trows:
                if d: raise OracleFail(f'copylike/{cell}:phase-missing', f'source phase {p} has no place in {tph}')
                continue
            used.add(dest)
            if trows[dest] != d:
                raise OracleFail(f'copylike/{cell}:flows', f'phase {p}: source {d}, target[{dest}] {trows[dest]}')
        for p, d in trows.items():
            if p not in used and d:
                raise OracleFail(f'copylike/{cell}:stale', f'target phase {p} keeps {d} that the source does not have')
        if not aliased and full(sr) != src_before:
            raise OracleFail(f'copylike/{cell}:source-changed', 'copy_like changed its source')
        if was_single and is_multi(tg): E.renew(int(t[1]), ('imol', 'data', 'phase', 'cache'))

    elif op == 'copytc':
        tg, sr = S[int(t[1])], S[int(t[2])]
        before = cond(tg)
        tg.copy_thermal_condition(sr)
        if (tg.T, tg.P) != (sr.T, sr.P): raise OracleFail('copytc:TP', 'T,P differ after copy_thermal_condition')
        if cond(tg)[:2] != before[:2]: raise OracleFail('copytc:flows', 'copy_thermal_condition changed flows/phases')

    elif op == 'link':
        tg, sr = S[int(t[1])], S[int(t[2])]
        f, p, tp = (x == '1' for x in t[3:6])
        if is_multi(tg) == is_multi(sr):
            if tg.chemicals is not sr.chemicals: return 'skip'
            if is_multi(tg) and f and phases_of(tg) != phases_of(sr): return 'skip'
        k = kind_tag(tg)[0] + kind_tag(sr)[0] + '/' + t[3] + t[4] + t[5]
        parts = ('rows', 'phase', 'tc')
        before = {q: q in shared_parts(tg, sr, parts) for q in parts}
        src_before = full(sr)
        try:
            tg.link_with(sr, flow=f, phase=p, TP=tp)
        except Exception as e:
            if errname(e) == 'LinkClass' and is_multi(tg) != is_multi(sr): return 'err=LinkClass'
            raise OracleFail(f'link/{k}:raises-{type(e).__name__}', f'link_with raised {e!r}')
        after = {q: q in shared_parts(tg, sr, parts) for q in parts}
        want = {'rows': f, 'phase': p and not is_multi(tg), 'tc': tp}
        for q in parts:
            if want[q] and not after[q]:
                raise OracleFail(f'link/{k}:not-shared-{q}', f'link_with(flow={f}, phase={p}, TP={tp}) does not share {q}')
            if not want[q] and after[q] != before[q]:
                raise OracleFail(f'link/{k}:extra-{q}', f'link_with(flow={f}, phase={p}, TP={tp}) changed the sharing of {q}')
        if full(sr) != src_before: raise OracleFail(f'link/{k}:source-changed', 'link_with changed the other stream')
        ti, si = int(t[1]), int(t[2])
        if f: W.view_excluded.update(u for u in E.followers(ti) if u != ti)
        # the cache of mass / volume views is only valid for both streams when flows, T/P and (single-phase) the
        # phase are all shared; otherwise the linked stream must start a cache of its own
        if ti != si or not (tp and f and (p or is_multi(tg))):
            cache = E.t[si]['cache'] if tp and f and (p or is_multi(tg)) else E.fresh()
            for u in E.followers(ti): E.t[u]['cache'] = cache
        if tp: E.t[ti]['tc'] = E.t[si]['tc']
        if f:
            for u in E.followers(ti): E.t[u]['data'] = E.t[si]['data']
        if p and not is_multi(tg):
            for u in E.followers(ti): E.t[u]['phase'] = E.t[si]['phase']

    elif op == 'unlink':
        s = S[int(t[1])]
        k = kind_tag(s)
        before = [cond(y) for y in S]
        try:
            s.unlink()
        except Exception as e:
            raise OracleFail(f'unlink/{k}:raises-{type(e).__name__}', f'unlink raised {e!r}')
        if [cond(y) for y in S] != before:
            raise OracleFail(f'unlink/{k}:values', 'unlink changed flows, phases, T or P of a stream')
        for j, y in enumerate(S):
            if y is s: continue
            sh = shared_parts(s, y)
            if sh:
                raise OracleFail(f'unlink/{k}:still-shared-{sh[0]}', f'after unlink the stream still shares {sh} with stream {j}')
        probe_independent(s, [y for y in S if y is not s], f'unlink/{k}:not-independent')
        E.renew(int(t[1]), ('imol', 'data', 'phase', 'tc', 'cache', 'cf', 'eq'))

    elif op in ('proxy', 'flowproxy'):
        s = S[int(t[1])]
        k = kind_tag(s)
        before = full(s)
        try:
            c = s.proxy() if op == 'proxy' else s.flow_proxy()
        except Exception as e:
            raise OracleFail(f'{op}/{k}:raises-{type(e).__name__}', f'{op} raised {e!r}')
        if cond(c) != cond(s): raise OracleFail(f'{op}/{k}:not-equal', f'{op} has {cond(c)}, original {cond(s)}')
        if full(s) != before: raise OracleFail(f'{op}/{k}:source-changed', f'{op} changed the original')
        sh = shared_parts(c, s, ('rows', 'phase', 'tc', 'cache'))
        want = {'rows': True, 'phase': op == 'proxy' and not is_multi(s), 'tc': op == 'proxy'}
        if op == 'flowproxy': want['cache'] = False     # (a full proxy MAY share the cache of mass / volume views)
        for q, wnt in want.items():
            if wnt and q not in sh: raise OracleFail(f'{op}/{k}:not-shared-{q}', f'{op} does not share {q}')
            if not wnt and q in sh: raise OracleFail(f'{op}/{k}:extra-{q}', f'{op} shares {q}')
        S.append(c); E.new()
        if op == 'proxy':
            E.t[-1] = dict(E.t[int(t[1])])
        else: E.t[-1]['data'] = E.t[int(t[1])]['data']

    elif op == 'pickle':
        s = S[int(t[1])]
        k = kind_tag(s)
        before = full(s)
        try:
            c = pickle.loads(pickle.dumps(s))
        except Exception as e:
            raise OracleFail(f'pickle/{k}:raises-{type(e).__name__}', f'pickling round trip raised {e!r}')
        a, b = full(c), full(s)
        names = ['flows/phases/T/P', 'price', 'characterization_factors', 'ID', 'package']
        for n, x, y in zip(names, a, b):
            if n == 'ID' and y is None: continue
            if x != y: raise OracleFail(f'pickle/{k}:{n.split("/")[0]}', f'unpickled {n} = {x}, original {y}')
        if full(s) != before: raise OracleFail(f'pickle/{k}:source-changed', 'pickling changed the original')
        for j, y in enumerate(S):
            sh = shared_parts(c, y)
            if sh: raise OracleFail(f'pickle/{k}:shares-{sh[0]}', f'unpickled stream shares {sh} with stream {j}')
        probe_independent(c, S, f'pickle/{k}:not-independent')
        if [x for x in cond_keyed(c) if x[0] != '*'] != [x for x in cond_keyed(s) if x[0] != '*']:
            raise OracleFail(f'pickle/{k}:keyed-not-equal', 'read by chemical ID the unpickled stream differs from the original')
        if s.chemicals._group_mol_compositions:
            W.tags.append('pickle:groups')
            d = chemicals_differ(s.chemicals, c.chemicals)
            if d: raise OracleFail(f'pickle/{k}:{d[0]}', f'the chemicals of the unpickled stream: {d[1]}')
            g0 = sorted(s.chemicals._group_mol_compositions)[0]
            for view in ('imol', 'imass'):
                x, y = s.copy(), c.copy()
                key, keyy = [(phases_of(z)[0], g0) if is_multi(z) else g0 for z in (x, y)]
                try:
                    getattr(x, view)[key] = 8.; getattr(y, view)[keyy] = 8.
                except Exception as e:
                    raise OracleFail(f'pickle/{k}:group-write-raises', f'{view}[{key!r}] = 8 on a copy of the stream / of the unpickled stream raised {e!r}')
                if not all(close(p, q, 1e-12, 1e-300) for p, q in zip(x.mol.to_array(), y.mol.to_array())):
                    raise OracleFail(f'pickle/{k}:group-write', f'{view}[{key!r}] = 8 gives {list(y.mol.to_array())} on the unpickled stream, '
                                                                f'{list(x.mol.to_array())} on the original')
        # saved in one session, loaded in another: the default property package at dumps time (the stream's own
        # package, or whatever it is now) and at loads time (every other package) must not matter
        def seen(x):
            f = full(x)
            return (f[0], f[1], f[2], f[4], tuple(x.chemicals.IDs), type(x.thermo.Gamma).__name__ if not isinstance(x.thermo.Gamma, type) else x.thermo.Gamma.__name__,
                    repr({g: (m, [round(v, 11) for v in a_], [round(v, 11) for v in b_]) for g, (m, a_, b_) in groups_state(x.chemicals).items()}))
        ref = seen(s)
        for at_dump, at_load, why in across_sessions(s.thermo, line + repr(before)):
            W.tags.append('pickle:default-swapped')
            try:
                got = seen(with_defaults(at_dump, at_load, s))
            except Exception as e:
                raise OracleFail(f'pickle/{k}:other-session-raises-{type(e).__name__}',
                                 f'a stream pickled while {why} could not be unpickled: {e!r}')
            names2 = ['flows/phases/T/P', 'price', 'characterization_factors', 'package', 'chemical IDs', 'Gamma', 'groups']
            for n, x, y in zip(names2, got, ref):
                if x != y:
                    raise OracleFail(f'pickle/{k}:other-session-{n.split("/")[0].replace(" ", "-")}',
                                     f'pickled while {why}: unpickled {n} = {x}, original {y}')
        S.append(c); E.new()

    elif op == 'fromstreams':
        idx = [int(x) for x in t[1].split(',')]
        if any(i >= len(S) for i in idx): return 'err=BadStream'
        ins = [S[i] for i in idx]
        if any(x.chemicals is not ins[0].chemicals for x in ins): return 'skip'   # one package is a precondition
        bad = (not ins) or any(is_multi(x) for x in ins) or len({phases_of(x)[0] for x in ins}) != len(ins)
        try:
            m = tmo.MultiStream.from_streams(ins)
        except Exception as e:
            if bad: return 'err=ValueError'      # rejected (ValueError / RuntimeError for a multi-phase stream)
            raise OracleFail(f'fromstreams:raises-{type(e).__name__}', f'from_streams raised {e!r}')
        if bad: raise OracleFail('fromstreams:no-error', 'from_streams accepted an empty list / a multi-phase stream / two streams of one phase')
        want = tuple(sorted(phases_of(x)[0] for x in ins))
        if phases_of(m) != want: raise OracleFail('fromstreams:phases', f'phases {phases_of(m)}, expected {want}')
        for x in ins:
            k = phases_of(m).index(phases_of(x)[0])
            if m._imol.data.rows[k].dct is not x._imol.data.dct:
                raise OracleFail('fromstreams:flows', 'a phase of the new stream is not the flow data of the given stream')
            if x._thermal_condition is not m._thermal_condition or m._thermal_condition is not ins[0]._thermal_condition:
                raise OracleFail('fromstreams:TP', 'the thermal condition is not the first stream\'s, shared by all')
        S.append(m); E.new()
        for i in idx: E.t[i]['tc'] = E.t[idx[0]]['tc']
        E.t[-1]['tc'] = E.t[idx[0]]['tc']
    elif op == 'viewops':
        # phase views as OPERANDS of pickle / proxy / flow_proxy / copy / copy_like / link_with, on private copies
        i, ph, j = int(t[1]), t[2], int(t[3])
        if i >= len(S) or j >= len(S) or not is_multi(S[i]) or ph not in phases_of(S[i]): return None
        ms = S[i].copy(); v = ms[ph]; src = S[j]
        world_before = [full(y) for y in S]
        W.tags.append('viewops')
        k = phases_of(ms).index(ph)
        vrow = lambda: row_dict(ms, ms._imol.data.rows[k])
        want = ((ph,), (tuple(sorted(vrow().items())),), ms.T, ms.P)

        def attempt(name, f):
            try:
                return f()
            except Exception as e:
                raise OracleFail(f'viewops:{name}-raises-{type(e).__name__}', f'{name} with the phase view {i}[{ph!r}] raised {e!r}')
        c = attempt('pickle', lambda: pickle.loads(pickle.dumps(v)))
        if cond(c) != want or c.price != v.price: raise OracleFail('viewops:pickle-not-equal', f'unpickled view {cond(c)}, view {want}')
        if shared_parts(c, ms, ('rows', 'tc')): raise OracleFail('viewops:pickle-shares', 'the unpickled view shares data with the stream')
        c = attempt('proxy', lambda: v.proxy())
        if c._imol.data.dct is not v._imol.data.dct or c._thermal_condition is not ms._thermal_condition:
            raise OracleFail('viewops:proxy-not-shared', 'a proxy of a phase view does not share its flows / thermal condition')
        c = attempt('flow_proxy', lambda: v.flow_proxy())
        if c._imol.data.dct is not v._imol.data.dct: raise OracleFail('viewops:flowproxy-not-shared', 'flow proxy of a view does not share the flows')
        if c._thermal_condition is ms._thermal_condition: raise OracleFail('viewops:flowproxy-extra-tc', 'flow proxy of a view shares T/P')
        if cond(c) != want: raise OracleFail('viewops:flowproxy-not-equal', f'{cond(c)} vs {want}')
        c = attempt('copy', lambda: v.copy())
        if cond(c) != want: raise OracleFail('viewops:copy-not-equal', f'copy of a view {cond(c)}, view {want}')
        if shared_parts(c, ms, ('rows', 'tc')) or c._imol.data.dct is v._imol.data.dct:
            raise OracleFail('viewops:copy-shares', 'the copy of a view shares data with the stream')
        probe_independent(c, [ms], 'viewops:copy-not-independent')
        # the copy, the flow proxy and the unpickled copy of a view are free-standing streams: their phase can be set,
        # they take the conditions of a stream in another phase, they can become multi-phase and be unlinked — and
        # the view and its stream keep their phase(s)
        other = 'g' if ph != 'g' else 'l'
        donor = tmo.Stream(None, phase=other, T=ms.T + 5., P=ms.P, thermo=ms.thermo, **{ms.chemicals.IDs[0]: 2.})
        donors = [('another-phase', donor)]
        if not any(cc not in set(pkg_of(ms)) for r in rows_of(src) for cc in row_dict(src, r)):
            donors.append(('history', src))
        flows_of = lambda x: {p_: d for p_, d in ((p_, row_dict(x, r)) for p_, r in zip(phases_of(x), rows_of(x))) if d}
        for kind_, make in (('copy', lambda: v.copy()), ('flowproxy', lambda: v.flow_proxy()),
                            ('unpickled', lambda: pickle.loads(pickle.dumps(v)))):
            shares_flows = kind_ == 'flowproxy'
            msTP, msph = (ms.T, ms.P), phases_of(ms)
            keep = [dict(r.dct) for r in rows_of(ms)]

            def settle(what):
                # the stream of the view: phases, T, P never move; its flows only through a flow proxy (restored here)
                if phases_of(ms) != msph or v.phase != ph or (ms.T, ms.P) != msTP:
                    raise OracleFail(f'viewops:{kind_}-{what}-moves-view', f'{what} on the {kind_} of the view {i}[{ph!r}] '
                                     f'changed phase / T / P of the view or its stream')
                now = [dict(r.dct) for r in rows_of(ms)]
                if now != keep:
                    if not shares_flows:
                        raise OracleFail(f'viewops:{kind_}-{what}-moves-view', f'{what} on the {kind_} of the view changed the flows of its stream')
                    for r, d in zip(rows_of(ms), keep): r.dct.clear(); r.dct.update(d)
            W.tags.append(f'viewops:free-standing-{kind_}')
            c = make()
            attempt(f'{kind_}-set-phase', lambda: setattr(c, 'phase', other))
            if phases_of(c) != (other,) or flows_of(c) != ({other: vrow()} if vrow() else {}):
                raise OracleFail(f'viewops:{kind_}-set-phase', f'after phase = {other!r} the {kind_} of the view has {cond(c)}')
            settle('set-phase')
            for dname, d0 in donors:
                c = make(); d = d0.copy()
                attempt(f'{kind_}-copylike-{dname}', lambda: c.copy_like(d))
                if flows_of(c) != flows_of(d) or (c.T, c.P) != (d.T, d.P) or (not is_multi(d) and phases_of(c) != phases_of(d)):
                    raise OracleFail(f'viewops:{kind_}-copylike-not-equal', f'the {kind_} of the view after copy_like: {cond(c)}, source {cond(d)}')
                settle('copy_like')
            c = make()
            attempt(f'{kind_}-unlink', lambda: c.unlink())
            if cond(c) != want: raise OracleFail(f'viewops:{kind_}-unlink-values', f'unlink changed the {kind_} of the view: {cond(c)} vs {want}')
            if shared_parts(c, ms, ('rows', 'tc', 'phase')) or c._imol.data.dct is v._imol.data.dct or c._imol._phase is v._imol._phase:
                raise OracleFail(f'viewops:{kind_}-unlink-shares', f'after unlink the {kind_} of the view still shares data with the stream')
            settle('unlink')
            c = make()
            newph = tuple(sorted({ph, other}))
            attempt(f'{kind_}-set-phases', lambda: setattr(c, 'phases', newph))
            tot = {}
            for d_ in flows_of(c).values():
                for cc, vv in d_.items(): tot[cc] = tot.get(cc, 0.) + vv
            if not is_multi(c) or tot != vrow():
                raise OracleFail(f'viewops:{kind_}-set-phases', f"after phases = {newph} the {kind_} of the view has {cond(c)}")
            settle('set-phases')
        # target.copy_like(view)
        tgt = src.copy()
        missing = any(cc not in set(pkg_of(tgt)) for cc in vrow())
        try:
            tgt.copy_like(v)
        except Exception as e:
            if not (missing and errname(e) == 'UndefinedChemical'):
                raise OracleFail(f'viewops:copylike-from-view-raises-{type(e).__name__}', f'copy_like(view) raised {e!r}')
        else:
            if missing: raise OracleFail('viewops:copylike-from-view-no-error', 'missing chemical, no error')
            if (tgt.T, tgt.P) != (ms.T, ms.P): raise OracleFail('viewops:copylike-from-view-TP', 'T,P not copied from the view')
            got = {p_: row_dict(tgt, r) for p_, r in zip(phases_of(tgt), rows_of(tgt))}
            dest = ph if ph in got else swapcase_ok(ph)
            if dest not in got or got[dest] != vrow() or any(d for p_, d in got.items() if p_ != dest):
                raise OracleFail('viewops:copylike-from-view-flows', f'target {got} after copy_like(view {ph}: {vrow()})')
            if not is_multi(tgt) and phases_of(tgt) != (ph,):
                raise OracleFail('viewops:copylike-from-view-phase', f'target phase {phases_of(tgt)}, view {ph}')
            if not is_multi(tgt):
                try:
                    tgt.phase = 'g' if ph != 'g' else 'l'      # the copy must not inherit the lock of the view's phase
                except Exception as e:
                    raise OracleFail('viewops:copylike-from-view-locked', f'after copy_like(view) the target cannot change phase: {e!r}')
            if cond(ms)[:2] != (phases_of(S[i]), cond(S[i])[1]): raise OracleFail('viewops:copylike-from-view-source-changed', 'the stream of the view changed')
        # view.copy_like(single-phase stream of the same phase): defined; anything else may raise (locked phase)
        if not is_multi(src) and phases_of(src) == (ph,) and not any(cc not in set(pkg_of(ms)) for cc in row_dict(src, rows_of(src)[0])):
            ms3 = S[i].copy(); v3 = ms3[ph]
            others = [row_dict(ms3, r) for q, r in zip(phases_of(ms3), rows_of(ms3)) if q != ph]
            attempt('copylike-onto-view', lambda: v3.copy_like(src))
            if row_dict(ms3, ms3._imol.data.rows[k]) != row_dict(src, rows_of(src)[0]) or (ms3.T, ms3.P) != (src.T, src.P):
                raise OracleFail('viewops:copylike-onto-view-not-equal', 'copy_like onto a view: the stream does not show the copied flows / T,P')
            if [row_dict(ms3, r) for q, r in zip(phases_of(ms3), rows_of(ms3)) if q != ph] != others:
                raise OracleFail('viewops:copylike-onto-view-other-phases', 'copy_like onto a view changed another phase')
        # single-phase stream linked with a view
        if not is_multi(src) and src.chemicals is ms.chemicals:
            for fl_, tp_ in ((True, True), (True, False), (False, True)):
                y = src.copy()
                attempt('link', lambda: y.link_with(v, flow=fl_, phase=False, TP=tp_))
                if (y._imol.data.dct is v._imol.data.dct) != fl_ or (y._thermal_condition is ms._thermal_condition) != tp_:
                    raise OracleFail(f'viewops:link-{int(fl_)}{int(tp_)}', 'link_with(view) does not share exactly the selected parts')
        if [full(y) for y in S] != world_before:
            raise OracleFail('viewops:source-changed', 'operations on private copies (and their phase views) changed a stream of the history')
        return None
    elif op == 'copyflowprobe':
        # copy_flow on private copies of the two streams: selected flows equal, nothing shared, remove / exclude honoured
        ti, si, ids_tok, rm, ex = int(t[1]), int(t[2]), t[3], t[4] == '1', t[5] == '1'
        if ti >= len(S) or si >= len(S): return None
        world_before = [full(y) for y in S]
        tt, ss = S[ti].copy(), S[si].copy()
        if is_multi(tt):
            copyflow_multi(W, tt, ss, ids_tok, rm, ex, t[6] if len(t) > 6 else '-')
            if [full(y) for y in S] != world_before:
                raise OracleFail('copyflowprobe/M:source-changed', 'copy_flow between private copies changed a stream of the history')
            return None
        W.tags.append('copyflowprobe')
        src_tot = {}
        for r in rows_of(ss):
            for cc, vv in row_dict(ss, r).items(): src_tot[cc] = src_tot.get(cc, 0.) + vv
        before_t = row_dict(tt, rows_of(tt)[0])
        tcond = (phases_of(tt), tt.T, tt.P)
        all_src = pkg_of(ss)
        if ids_tok == '-':
            IDs, sel = ..., (set() if ex else set(all_src))
        else:
            named = [int(x) for x in ids_tok.split(',')]
            IDs = tuple(ID_OF[cc] for cc in named) if len(named) > 1 else ID_OF[named[0]]
            inpk = [cc for cc in named if cc in all_src]
            sel = (set(all_src) - set(inpk)) if ex else set(named)
            if not ex and len(inpk) != len(named): return None      # an ID the source package lacks: lookup error, not our subject
        missing = any(src_tot.get(cc, 0.) and cc not in set(pkg_of(tt)) for cc in sel)
        try:
            tt.copy_flow(ss, IDs, remove=rm, exclude=ex)
        except Exception as e:
            if missing and errname(e) == 'UndefinedChemical': return None
            raise OracleFail(f'copyflowprobe:raises-{type(e).__name__}', f'copy_flow(IDs={IDs}, remove={rm}, exclude={ex}) raised {e!r}')
        if missing: raise OracleFail('copyflowprobe:no-error', 'a selected chemical with flow is not in the target package, no error')
        after_t = row_dict(tt, rows_of(tt)[0])
        whole = ids_tok == '-' and not ex
        for cc in set(before_t) | set(after_t) | set(src_tot):
            if cc in sel and (cc in set(pkg_of(tt))):
                if after_t.get(cc, 0.) != src_tot.get(cc, 0.):
                    raise OracleFail('copyflowprobe:selected', f'chemical {cc}: target {after_t.get(cc, 0.)}, source {src_tot.get(cc, 0.)}')
            elif not whole and after_t.get(cc, 0.) != before_t.get(cc, 0.):
                raise OracleFail('copyflowprobe:unselected', f'chemical {cc} not selected but changed {before_t.get(cc, 0.)} -> {after_t.get(cc, 0.)}')
            elif whole and cc not in sel and after_t.get(cc, 0.):
                raise OracleFail('copyflowprobe:stale', f'chemical {cc} kept {after_t.get(cc)} after copying all flows')
        if (phases_of(tt), tt.T, tt.P) != tcond: raise OracleFail('copyflowprobe:conditions', 'copy_flow changed phase, T or P of the target')
        left = {}
        for r in rows_of(ss):
            for cc, vv in row_dict(ss, r).items(): left[cc] = left.get(cc, 0.) + vv
        for cc in set(src_tot) | set(left):
            wantv = 0. if (rm and cc in sel) else src_tot.get(cc, 0.)
            if left.get(cc, 0.) != wantv:
                raise OracleFail('copyflowprobe:source' + ('-remove' if rm else ''), f'source chemical {cc}: {left.get(cc, 0.)}, expected {wantv}')
        if shared_parts(tt, ss, ('rows', 'array', 'tc', 'phase')):
            raise OracleFail('copyflowprobe:shares', 'after copy_flow target and source share data')
        probe_independent(tt, [ss], 'copyflowprobe:not-independent')
        probe_independent(ss, [tt], 'copyflowprobe:not-independent')
        if [full(y) for y in S] != world_before:
            raise OracleFail('copyflowprobe:source-changed', 'copy_flow between private copies changed a stream of the history')
        return None
    elif op == 'ctorprobe':
        # oracle-only: mass units and total_flow in the constructors (inexact arithmetic: tolerance), object discarded
        kind, pkgn, unit, tot = t[1], t[2], t[3], fl(t[4])
        th = TH[pkgn]
        vals = parse_pairs(t[5])
        fct = {'kg/hr': 1., 'g/hr': 1000., 'kmol/hr': 1., 'mol/hr': 1000.}[unit]
        if kind == 'S':
            x = tmo.Stream(None, thermo=th, units=unit, total_flow=tot, **{ID_OF[c]: fl(v) for c, v in vals})
        else:
            x = tmo.MultiStream(None, thermo=th, units=unit, total_flow=tot,
                                l=[(ID_OF[c], fl(v)) for c, v in vals[:1]], g=[(ID_OF[c], fl(v)) for c, v in vals[1:]])
        have = (x.F_mass if 'g' in unit and 'mol' not in unit else x.F_mol) * fct
        if not close(have, tot, 1e-9, 1e-12):
            raise OracleFail(f'ctorprobe/{kind}:total-{unit.split("/")[0]}',
                             f'constructor with units={unit!r}, total_flow={tot} gives a total of {have} {unit}')
        return None
    elif op == 'view':
        # somebody takes a phase view ms[p]
        i, ph = int(t[1]), t[2]
        if i >= len(S): return 'err=BadStream'
        if not (is_multi(S[i]) and ph in phases_of(S[i])): return 'skip'
        try:
            S[i][ph]
        except Exception as e:
            raise OracleFail(f'view:raises-{type(e).__name__}', f'stream {i}[{ph!r}] raised {e!r}')
    elif op == 'pickleobj':
        kind, n = t[1], int(t[2])
        obj = EXTRA[kind][n % len(EXTRA[kind])]
        try:
            c = pickle.loads(pickle.dumps(obj))
        except Exception as e:
            raise OracleFail(f'pickleobj/{kind}:raises-{type(e).__name__}', f'pickling round trip raised {e!r}')
        if kind in ('rxn', 'prxn', 'srxn', 'rsys', 'thermo', 'chem'):
            W.tags.append('pickleobj:default-swapped')
            own = TH['C'] if kind in ('rxn', 'prxn', 'srxn', 'rsys') else TH['A']
            for at_dump, at_load, why in across_sessions(own, line)[:1]:
                try:
                    c2 = with_defaults(at_dump, at_load, obj)
                    st2 = obj_state(kind, c2)
                except Exception as e:
                    raise OracleFail(f'pickleobj/{kind}:other-session-raises-{type(e).__name__}', f'pickled while {why}: {e!r}')
                st1 = obj_state(kind, obj)
                if st2 != st1:
                    diff = [q for q in st1 if st2.get(q) != st1[q]]
                    raise OracleFail(f'pickleobj/{kind}:other-session-{diff[0]}', f'pickled while {why}: differs in {diff}')
        if kind == 'cchems':
            model_line, answer, deep = cchems_lines(obj, c)
            if deep: raise OracleFail(f'pickleobj/cchems:{deep[0]}', f'unpickled CompiledChemicals: {deep[1]}')
            return ('MODEL', model_line, answer)
        model_line, answer = slot_lines(kind, obj, c)
        b = obj_state(kind, obj)
        try:
            a = obj_state(kind, c)
        except Exception as e:
            raise OracleFail(f'pickleobj/{kind}:unusable-{type(e).__name__}', f'the unpickled {kind} cannot be observed: {e!r}')
        if a != b:
            diff = [k for k in b if a.get(k) != b[k]]
            raise OracleFail(f'pickleobj/{kind}:{diff[0]}', f'unpickled {kind} differs in {diff}: {[(a.get(k), b[k]) for k in diff][:2]}')
        return ('MODEL', model_line, answer)
    else:
        raise ValueError('unknown op ' + line)
    return finish()


def copyflow_multi(W, tt, ss, ids_tok, rm, ex, ph_tok):
    """`MultiStream.copy_flow(other, phase, IDs, remove=, exclude=)` on private copies `tt` (multi-phase target) and
    `ss`: the cells (phase, chemical) it copies equal the source's, the cells it must keep are kept, `remove`
    empties exactly the copied cells of the source, nothing is shared afterwards."""
    tph = phases_of(tt)
    if ph_tok != '-' and ph_tok not in tph: return
    sph = phases_of(ss)
    pk = pkg_of(tt)
    if ids_tok == '-':
        IDs, named = ..., list(pk)
    else:
        named = [int(x) for x in ids_tok.split(',')]
        if any(c not in pk for c in named): return          # lookup error, not our subject
        IDs = tuple(ID_OF[c] for c in named) if len(named) > 1 else ID_OF[named[0]]
    src_multi = is_multi(ss)
    # preconditions of the method: same chemical IDs; a multi-phase source has the same phases, a single-phase
    # source a phase the target has
    outside = tuple(tt.chemicals.IDs) != tuple(ss.chemicals.IDs) or (sph != tph if src_multi else sph[0] not in tph)
    cells = lambda x: {(p, c): v for p, r in zip(phases_of(x), rows_of(x)) for c, v in row_dict(x, r).items()}
    t0, s0 = cells(tt), cells(ss)
    tcond = (tph, tt.T, tt.P)
    sel = {(p, c) for p in (tph if ph_tok == '-' else (ph_tok,)) for c in named}
    src_cells = {(p, c) for p in sph for c in pk}
    copied = (src_cells - sel) if ex else (sel & src_cells)
    what = f'copy_flow(phase={ph_tok}, IDs={IDs}, remove={rm}, exclude={ex}) onto phases {tph} from phases {sph}'
    try:
        tt.copy_flow(ss, ... if ph_tok == '-' else ph_tok, IDs, remove=rm, exclude=ex)
    except Exception as e:
        if outside: return
        raise OracleFail(f'copyflowprobe/M:raises-{type(e).__name__}', f'{what} raised {e!r}')
    if outside: return
    W.tags.append('copyflowprobe/M' + ('<-M' if src_multi else '<-S'))
    t1, s1 = cells(tt), cells(ss)
    for cell in set(t0) | set(t1) | set(s0) | copied:
        if cell in copied:
            if t1.get(cell, 0.) != s0.get(cell, 0.):
                raise OracleFail('copyflowprobe/M:selected', f'{what}: cell {cell} target {t1.get(cell, 0.)}, source {s0.get(cell, 0.)}')
        elif ex or src_multi:
            if t1.get(cell, 0.) != t0.get(cell, 0.):
                raise OracleFail('copyflowprobe/M:unselected', f'{what}: cell {cell} is not copied but changed {t0.get(cell, 0.)} -> {t1.get(cell, 0.)}')
        elif t1.get(cell, 0.) not in (0., t0.get(cell, 0.)):
            raise OracleFail('copyflowprobe/M:unselected', f'{what}: cell {cell} is not copied but became {t1.get(cell, 0.)}')
    for cell in set(s0) | set(s1):
        wantv = 0. if (rm and cell in copied) else s0.get(cell, 0.)
        if s1.get(cell, 0.) != wantv:
            raise OracleFail('copyflowprobe/M:source' + ('-remove' if rm else ''), f'{what}: source cell {cell} {s1.get(cell, 0.)}, expected {wantv}')
    if (phases_of(tt), tt.T, tt.P) != tcond:
        raise OracleFail('copyflowprobe/M:conditions', f'{what} changed phases, T or P of the target')
    sh = shared_parts(tt, ss)
    if sh: raise OracleFail(f'copyflowprobe/M:shares-{sh[0]}', f'after {what} target and source share {sh}')
    probe_independent(tt, [ss], 'copyflowprobe/M:not-independent')
    probe_independent(ss, [tt], 'copyflowprobe/M:not-independent')


_UNSET = object()


def fingerprint(v):
    """a comparable description of a slot value (values of model objects: their type and a sample evaluation)"""
    import numpy as np
    if v is _UNSET: return '<unset>'
    if v is None or isinstance(v, (bool, int, float, str)): return repr(v)
    if isinstance(v, type): return 'class ' + v.__module__ + '.' + v.__qualname__
    if isinstance(v, np.ndarray): return 'array' + repr(v.tolist())
    if isinstance(v, (tuple, list)): return type(v).__name__ + '(' + ','.join(fingerprint(x) for x in v) + ')'
    if isinstance(v, (set, frozenset)): return 'set(' + ','.join(sorted(fingerprint(x) for x in v)) + ')'
    if isinstance(v, dict): return 'dict(' + ','.join(sorted(fingerprint(k) + ':' + fingerprint(x) for k, x in v.items())) + ')'
    if isinstance(v, tmo.Chemical): return f'Chemical({v.ID},{v.CAS},{v.locked_state})'
    if hasattr(v, 'CASs') and hasattr(v, 'IDs'): return f'{type(v).__name__}{tuple(v.IDs)}'
    if hasattr(v, 'dct') and hasattr(v, 'size'): return f'sparse{sorted(v.dct.items())}/{v.size}'
    if hasattr(v, 'rows'): return 'sparsearray(' + ','.join(fingerprint(r) for r in v.rows) + ')'
    out = type(v).__name__
    if hasattr(v, 'include_excess_energies'): out += f'(excess={v.include_excess_energies})'
    if callable(v):
        # sample evaluations: a T-dependent model, a phase handle in each phase (liquid, gas, solid), a T,P model;
        # an argument list the object does not take shows as the name of the exception (the same on both sides)
        for args in ((300.,), ('l', 300., 101325.), ('g', 400., 101325.), ('s', 250., 101325.), (300., 101325.)):
            try:
                out += '|' + repr(v(*args))
            except Exception as e:
                out += '|!' + type(e).__name__
    return out


def all_slots(cls):
    out = []
    for k in cls.mro()[:-1]:
        for sl in getattr(k, '__slots__', ()):
            if sl not in out: out.append(sl)
    return out


def slot_lines(kind, obj, c):
    """protocol line for the model (slot-wise reconstruction) and the answer read from the real unpickled object"""
    chem = kind == 'chem'
    slots = list(type(obj).__slots__) if chem else all_slots(type(obj))
    table = {}

    def tok(v):
        f = fingerprint(v)
        if chem and f == 'None': return 'n'
        if f == '<unset>': return '-'
        return str(table.setdefault(f, len(table) + 1))
    default = None if chem else _UNSET
    items = [(k, tok(getattr(obj, sl, default))) for k, sl in enumerate(slots)]
    line = f'pslots {"c" if chem else "s"} {len(slots)} ' + (','.join(f'{k}:{v}' for k, v in items if v != '-') or '-')
    answer = 'ok ' + ','.join(f'{k}:{tok(getattr(c, sl, default))}' for k, sl in enumerate(slots))
    return line, answer


def groups_state(ch):
    """the chemical groups of a CompiledChemicals: name -> (member IDs, composition by mole, by weight)"""
    return {g: (tuple(x.ID for x in getattr(ch, g)), [float(v) for v in ch._group_mol_compositions[g]],
                [float(v) for v in ch._group_wt_compositions[g]]) for g in sorted(ch._group_mol_compositions)}


def groups_differ(a, b):
    """None, or a description of the first difference between two `groups_state`s (compositions: 1e-12 relative)"""
    if sorted(a) != sorted(b): return f'groups {sorted(b)}, original {sorted(a)}'
    for g in a:
        (ma, xa, wa), (mb, xb, wb) = a[g], b[g]
        if ma != mb: return f'group {g!r} has members {mb}, original {ma}'
        for name, u, w in (('by mole', xa, xb), ('by weight', wa, wb)):
            if len(u) != len(w) or any(not close(p, q, 1e-12, 1e-300) for p, q in zip(u, w)):
                return f'group {g!r} has composition {name} {w}, original {u}'
    return None


def group_writes(ch):
    """what a scalar written through each group key gives the members, by mole and by mass"""
    out = {}
    for g in sorted(ch._group_mol_compositions):
        im = tmo.indexer.ChemicalMolarFlowIndexer.blank('l', ch)
        im[g] = 8.
        out[g, 'imol'] = [float(im[x.ID]) for x in getattr(ch, g)]
        im = tmo.indexer.ChemicalMolarFlowIndexer.blank('l', ch)
        im.by_mass()[g] = 8.
        out[g, 'imass'] = [float(im[x.ID]) for x in getattr(ch, g)]
    return out


def writes_differ(a, b):
    if sorted(a) != sorted(b): return f'groups written {sorted(b)}, original {sorted(a)}'
    for k in a:
        if len(a[k]) != len(b[k]) or any(not close(p, q, 1e-12, 1e-300) for p, q in zip(a[k], b[k])):
            return f'{k[1]}[{k[0]!r}] = 8 gives the members {b[k]} kmol/hr, on the original {a[k]}'
    return None


def chemicals_differ(orig, new):
    """group definitions (stored and as used by a write through the group key) of a re-loaded CompiledChemicals"""
    d = groups_differ(groups_state(orig), groups_state(new))
    if d: return ('group', d)
    try:
        wn = group_writes(new)
    except Exception as e:
        return ('group-write-raises', f'writing through a group key on the re-loaded chemicals raised {e!r}')
    d = writes_differ(group_writes(orig), wn)
    if d: return ('group-write', d)
    return None


def cchems_lines(obj, c):
    names = {}

    def nid(x): return names.setdefault(x, len(names) + 1)
    cas = {}

    def cid(x): return cas.setdefault(x, len(cas) + 1)
    chems = ';'.join(f'{cid(ch.CAS)}=' + '|'.join(str(nid(x)) for x in sorted({ch.ID, ch.CAS, *ch.synonyms}))
                     for ch in obj.tuple)
    groups = sorted(obj._group_mol_compositions)
    gtxt = ';'.join(f'{nid(g)}=' + '|'.join(str(cid(ch.CAS)) for ch in getattr(obj, g)) for g in groups) or '-'
    keys = list(names) + ['no_such_name']
    line = f'pchems {chems} {gtxt} ' + ','.join(str(nid(k)) for k in keys)

    def idx(o, k):
        v = o._index.get(k)
        if v is None: return '-'
        return '|'.join(map(str, v)) if isinstance(v, (list, tuple)) else str(v)
    answer = 'ok ' + ','.join(f'{nid(k)}:{idx(c, k)}' for k in keys)
    deep = chemicals_differ(obj, c)
    for k in keys:
        if idx(c, k) != idx(obj, k):
            deep = ('name', f'the name {k!r} stands for position {idx(c, k)} after the round trip, for {idx(obj, k)} on the original')
    if tuple(c.IDs) != tuple(obj.IDs): deep = ('IDs', f'{c.IDs} vs {obj.IDs}')
    return line, answer, deep


def obj_state(kind, o):
    """observable state of a reaction / chemical / property package"""
    if kind == 'rxn':
        import numpy as np
        return {'stoichiometry': tuple(sorted((o.chemicals.CASs[i], v) for i, v in o._stoichiometry.dct.items())) if hasattr(o._stoichiometry, 'dct')
                else repr(np.asarray(o._stoichiometry).tolist()), 'reactant': o.reactant, 'X': o.X, 'basis': o.basis, 'phases': getattr(o, 'phases', None),
                'chemicals': tuple(o.chemicals.CASs), 'repr': repr(o)}
    if kind == 'rsys':
        return {'n': len(o._reactions), 'members': tuple(obj_state('prxn' if hasattr(r, 'reactants') else 'rxn', r)['repr']
                                                         for r in o._reactions), 'repr': repr(o)}
    if kind in ('prxn', 'srxn'):
        return {'X': tuple(o.X), 'reactants': tuple(o.reactants), 'basis': o.basis, 'chemicals': tuple(o.chemicals.CASs),
                'repr': repr(o), 'stoichiometry': tuple(map(tuple, o.stoichiometry.tolist() if hasattr(o.stoichiometry, 'tolist') else o.stoichiometry))}
    if kind == 'chem':
        d = {'ID': o.ID, 'CAS': o.CAS, 'MW': o.MW, 'formula': o.formula, 'Tb': o.Tb, 'Tm': o.Tm, 'Tc': o.Tc, 'Pc': o.Pc,
             'Hf': o.Hf, 'LHV': o.LHV, 'HHV': o.HHV, 'phase_ref': o.phase_ref, 'synonyms': tuple(sorted(o.synonyms)),
             'locked_state': o.locked_state}
        for name, args in (('Psat', (330.,)), ('Hvap', (330.,))):
            try: d[name] = getattr(o, name)(*args)
            except Exception as e: d[name] = type(e).__name__
        for name in ('V', 'Cn', 'mu', 'kappa'):
            for ph_, T_ in (('l', 330.), ('g', 420.), ('s', 240.)):
                try: d[name + '.' + ph_] = getattr(o, name)(ph_, T_, 101325.)
                except Exception as e: d[name + '.' + ph_] = type(e).__name__
        for name in ('H', 'S'):
            try: d[name] = getattr(o, name)('g', 350., 101325.)
            except Exception as e: d[name] = type(e).__name__
        return d
    if kind == 'thermo':
        return {'CAS': tuple(o.chemicals.CASs), 'IDs': tuple(o.chemicals.IDs), 'MW': tuple(o.chemicals.MW),
                'Gamma': type(o.Gamma).__name__ if not isinstance(o.Gamma, type) else o.Gamma.__name__,
                'Phi': type(o.Phi).__name__ if not isinstance(o.Phi, type) else o.Phi.__name__,
                'PCF': type(o.PCF).__name__ if not isinstance(o.PCF, type) else o.PCF.__name__,
                'mixture': type(o.mixture).__name__,
                'excess': getattr(o.mixture, 'include_excess_energies', None),
                'groups': repr({g: (m, [round(v, 11) for v in x], [round(v, 11) for v in w]) for g, (m, x, w) in groups_state(o.chemicals).items()}),
                'group-writes': repr({k: [round(v, 10) for v in l] for k, l in group_writes(o.chemicals).items()}),
                'H': o.mixture.H('l', [1.] * len(o.chemicals.CASs), 320., 101325.),
                'H.g': o.mixture.H('g', [1.] * len(o.chemicals.CASs), 400., 101325.)}
    raise ValueError(kind)


def pkg_name(pkg_tok):
    """protocol package token `1,2,3[:name]` -> name of the real Thermo; the driver sees only the CAS list"""
    pid, lst = pkg_tok.split('=')
    name = 'ABCD'[int(pid)]
    if PKGS[name] != [int(x) for x in lst.split(',')]: raise ValueError(pkg_tok)
    return name




def run_ops(ops):
    W = World()
    outs, failures, model_in = [], [], []
    dead = False
    for i, line in enumerate(ops):
        if dead:
            outs.append('dead'); model_in.append(line); continue
        try:
            if line.startswith(ORACLE_ONLY):
                r = apply(W, line)
                if isinstance(r, tuple) and r[0] == 'MODEL':    # the model sees the pickle arguments, not the op
                    model_in.append(r[1]); outs.append(r[2])
                continue
            o = apply(W, line)
        except OracleFail as f:
            failures.append({'signature': f.sig, 'op_index': len(model_in), 'what': f'`{line}`: {f.what}'})
            if not line.startswith(ORACLE_ONLY):
                model_in.append(line); outs.append('FAIL ' + f.sig)
            break
        except Exception as e:
            if line.startswith(ORACLE_ONLY): raise
            o = 'err=' + errname(e)
        model_in.append(line); outs.append(o)
        if o.startswith('err=') or (line.startswith('fromstreams') and o != 'skip'): dead = True
    return W, model_in, outs, failures


ORACLE_ONLY = ('pickleobj', 'ctorprobe', 'viewops', 'copyflowprobe')
INTERESTING = ('fromstreams', 'ctorprobe', 'viewops', 'copyflowprobe', 'copy', 'copyto', 'copylike', 'copytc', 'link', 'unlink', 'proxy', 'flowproxy', 'pickle', 'pickleobj')


def run_impl(case: Case) -> ImplResult:
    W, model_in, outs, failures = run_ops(case.ops)
    tags = sorted({l.split(' ')[0] for l in case.ops})
    tags += ['err:' + o[4:] for o in outs if o.startswith('err=')]
    tags += ['skip'] * sum(1 for o in outs if o == 'skip')
    tags += case.meta.get('tags', []) + sorted(set(W.tags))
    nontrivial = tuple(case.ops) if any(l.split(' ')[0] in INTERESTING for l in case.ops) else None
    return ImplResult(model_in=model_in, outs=outs, failures=failures, tags=tags, nontrivial=nontrivial)


def compare(impl_line, model_line):
    # an operation on which the property oracle already failed on the real code is reported through the
    # oracle; the states have diverged from the (fixed-behaviour) model there and the case ends
    if impl_line.startswith('FAIL '): return True
    return impl_line == model_line


# --------------------------------------------------------------------------
# generation
# --------------------------------------------------------------------------

def dy(rng, lo=0, hi=64, e=3):
    return Fraction(rng.randrange(lo * (1 << e), hi * (1 << e) + 1), 1 << e)


def tok(x):
    x = Fraction(x)
    return str(x.numerator) if x.denominator == 1 else f'{x.numerator}/{x.denominator}'


def pkg_tok(name):
    return f'{PKG_ORDER.index(name)}=' + ','.join(map(str, PKG_IDS[name]))


PKG_IDS = {'A': [1, 2, 3], 'B': [3, 1], 'C': [2, 1, 3, 4], 'D': [3, 2, 1]}
PKG_ORDER = 'ABCD'


def gen_flows(rng, pkg, p_empty=0.2):
    if rng.random() < p_empty: return '-'
    ids = PKG_IDS[pkg]
    k = rng.randrange(1, len(ids) + 1)
    chosen = rng.sample(ids, k)
    return ','.join(f'{c}:{tok(dy(rng, 0, 32) if rng.random() < 0.9 else 0)}' for c in chosen)


def gen_new(rng, kind=None, pkg=None, phases=None, sid=None, common_only=False):
    kind = kind or rng.choice('SSM')
    pkg = pkg or rng.choice(['A', 'A', 'B', 'C', 'D'])
    T, P = tok(dy(rng, 250, 450, 2)), tok(dy(rng, 50000, 300000, 0))
    price = tok(dy(rng, 0, 8)) if rng.random() < 0.6 else '0'
    cf = '-' if rng.random() < 0.5 else ','.join(f'{k}:{tok(dy(rng, 0, 8))}' for k in rng.sample([1, 2, 3], rng.randrange(1, 3)))
    sidt = '-' if sid is None else str(sid)
    if kind == 'S':
        ph = phases or rng.choice(SINGLE_PHASES)
        fl_ = gen_flows(rng, pkg)
        return f'new S {sidt} {pkg_tok(pkg)} {ph} {fl_} {T} {P} {price} {cf}'
    phs = phases or rng.choice(MULTI_PHASES)
    n = len(phs.split(','))
    fls = [gen_flows(rng, pkg, 0.35) for _ in range(n)]
    fl_ = '-' if all(x == '-' for x in fls) else ';'.join(fls)
    return f'new M {sidt} {pkg_tok(pkg)} {phs} {fl_} {T} {P} {price} {cf}'


def gen_new_units(rng, kind=None, pkg=None, sid=None):
    """a constructor call with `units=` (molar units, so that the arithmetic is exact) and/or `total_flow=`"""
    kind = kind or rng.choice('SM')
    pkg = pkg or rng.choice(['A', 'B', 'C', 'D'])
    T, P = tok(dy(rng, 250, 450, 2)), tok(dy(rng, 50000, 300000, 0))
    factor = rng.choice([None, 1, 1000])
    with_total = factor is None or rng.random() < 0.6
    unit_val = Fraction(125) if factor == 1000 else Fraction(1, 8)
    ids = PKG_IDS[pkg]
    phs = rng.choice(SINGLE_PHASES) if kind == 'S' else rng.choice(['g,l', 'l,s', 'g,l,s', 'L,g'])
    nph = len(phs.split(','))
    specs, total = [], Fraction(0)
    nothing = rng.random() < 0.12        # a total of nothing: all given flows 0 (or none given)
    for _ in range(nph):
        chosen = rng.sample(ids, rng.randrange(1, len(ids) + 1))
        vals = [(c, Fraction(0) if nothing else unit_val * rng.randrange(1, 40)) for c in chosen]
        total += sum(v for _, v in vals)
        specs.append(','.join(f'{c}:{tok(v)}' for c, v in vals))
    flows = ';'.join(specs)
    if nothing and rng.random() < 0.4: flows = '-'
    extras = []
    if factor is not None: extras.append(f'u:k:{factor}')
    if nothing:
        extras.append(f't:{tok(dy(rng, 1, 8)) if rng.random() < 0.75 else 0}')
    elif with_total:
        extras.append(f't:{tok(total * rng.choice([Fraction(1, 2), 1, 2, 4])) if rng.random() < 0.9 else 0}')
    sidt = '-' if sid is None else str(sid)
    return f'new {kind} {sidt} {pkg_tok(pkg)} {phs} {flows} {T} {P} 0 - ' + ' '.join(extras)


def restrict_common(line, rng):
    """make the flows of a `new` line use only chemicals 1 and 3 (present in every package)"""
    t = line.split(' ')
    def fix(spec):
        if spec == '-': return '-'
        keep = [kv for kv in spec.split(',') if kv.split(':')[0] in ('1', '3')]
        return ','.join(keep) if keep else '-'
    t[5] = ';'.join(fix(x) for x in t[5].split(';')) if t[5] != '-' else '-'
    if all(x == '-' for x in t[5].split(';')): t[5] = '-'
    return ' '.join(t)


class Sim:
    """light-weight bookkeeping for the generator (kinds and packages; not the model)"""
    def __init__(self):
        self.kind, self.pkg = [], []

    def n(self): return len(self.kind)


def gen_mutation(rng, n, pkgs, W=None):
    s = rng.randrange(n)
    r = rng.random()
    if r < 0.45:
        c = rng.choice(PKG_IDS[pkgs[s]]) if rng.random() < 0.96 else rng.choice([1, 2, 3, 4])
        ph = rng.choice("gls" if rng.random() < 0.8 else "LSgls")
        if W is not None and s < len(W.streams) and rng.random() < 0.94:
            ph = rng.choice(phases_of(W.streams[s]))
        return f'setflow {s} {ph} {c} {tok(dy(rng, 0, 32) if rng.random() < 0.9 else 0)}'
    if r < 0.6: return f'setT {s} {tok(dy(rng, 250, 450, 2))}'
    if r < 0.7: return f'setP {s} {tok(dy(rng, 50000, 300000, 0))}'
    if r < 0.80: return f'setphase {s} {rng.choice(SINGLE_PHASES)}'
    if r < 0.86: return f'empty {s}'
    if r < 0.93: return f'setprice {s} {tok(dy(rng, 0, 8))}'
    return f'setcf {s} {rng.choice([1, 2, 3])} {tok(dy(rng, 0, 8))}'


def gen_history(rng, length):
    """adaptive: the ops are applied to real objects while generating, so that most of them are valid"""
    ops, pkgs = [], []
    W = World()
    alive = [True]

    def do(line, pkg=None):
        ops.append(line)
        if pkg is not None: pkgs.append(pkg)
        if not alive[0]: return
        try:
            o = apply(W, line)
            if o.startswith('err='): alive[0] = False
        except Exception:
            alive[0] = False
    n0 = rng.randrange(2, 5)
    sid = 0
    base = rng.choice(['A', 'A', 'B', 'C', 'D'])
    for _ in range(n0):
        pkg = base if rng.random() < 0.6 else rng.choice(['A', 'B', 'C', 'D'])
        sid += 1
        if rng.random() < 0.12:
            line = gen_new_units(rng, pkg=pkg, sid=(sid if rng.random() < 0.5 else None))
        else:
            line = gen_new(rng, pkg=pkg, sid=(sid if rng.random() < 0.5 else None))
            if rng.random() < 0.7: line = restrict_common(line, rng)
        do(line, pkg)
    for _ in range(length):
        if not alive[0]: break
        n = len(pkgs)
        S = W.streams
        r = rng.random()
        if r < 0.30:
            do(gen_mutation(rng, n, pkgs, W))
        elif r < 0.36 and n < 7:
            pkg = rng.choice(['A', 'B', 'C', 'D']); sid += 1
            do(restrict_common(gen_new(rng, pkg=pkg, sid=(sid if rng.random() < 0.5 else None)), rng), pkg)
        elif r < 0.40 and n < 7:
            s = rng.randrange(n); do(f'copy {s}', pkgs[s])
        elif r < 0.45 and n < 7:
            s = rng.randrange(n)
            cur = pkgs[s]
            opts = {'A': 'DDCAB', 'B': 'ADCCB', 'C': 'CCADB', 'D': 'AACDB'}[cur]
            tgt = rng.choice(opts)
            do(f'copyto {s} {pkg_tok(tgt)}', tgt)
        elif r < 0.62:
            a, b = rng.randrange(n), rng.randrange(n); do(f'copylike {a} {b}')
        elif r < 0.66:
            a, b = rng.randrange(n), rng.randrange(n); do(f'copytc {a} {b}')
        elif r < 0.78:
            a, b = rng.randrange(n), rng.randrange(n)
            good = [j for j in range(n) if j != a and j < len(S) and a < len(S) and S[j].chemicals is S[a].chemicals
                    and is_multi(S[j]) == is_multi(S[a])]
            if good and rng.random() < 0.92: b = rng.choice(good)
            elif rng.random() < 0.8:
                do(gen_mutation(rng, n, pkgs, W)); continue
            fl_ = rng.choice(['111', '111', '100', '010', '001', '110', '101', '011', '000'])
            do(f'link {a} {b} {fl_[0]} {fl_[1]} {fl_[2]}')
        elif r < 0.85:
            do(f'unlink {rng.randrange(n)}')
        elif r < 0.90 and n < 7:
            s = rng.randrange(n); do(f'proxy {s}', pkgs[s])
        elif r < 0.94 and n < 7:
            s = rng.randrange(n); do(f'flowproxy {s}', pkgs[s])
        elif r < 0.98 and n < 7:
            s = rng.randrange(n); do(f'pickle {s}', pkgs[s])
        elif rng.random() < 0.35:
            multi = [j for j, x in enumerate(S) if is_multi(x)]
            if multi and rng.random() < 0.6:
                j = rng.choice(multi); do(f'viewops {j} {rng.choice(phases_of(S[j]))} {rng.randrange(n)}')
            else:
                a, b = rng.randrange(n), rng.randrange(n)
                ids = rng.choice(['-', '-', '1', '3', '1,3', '2', '1,2,3'])
                pht = '-'
                if a < len(S) and is_multi(S[a]):
                    same = [j for j in range(n) if j < len(S) and S[j].chemicals is S[a].chemicals]
                    if same and rng.random() < 0.8: b = rng.choice(same)
                    if rng.random() < 0.5: pht = rng.choice(phases_of(S[a]))
                do(f'copyflowprobe {a} {b} {ids} {rng.randrange(2)} {rng.randrange(2)} {pht}')
        elif rng.random() < 0.7:
            multi = [j for j, x in enumerate(S) if is_multi(x)]
            if multi:
                j = rng.choice(multi); do(f'view {j} {rng.choice(phases_of(S[j]))}')
            else:
                do(gen_mutation(rng, n, pkgs, W))
        else:
            do(f'pickleobj {rng.choice(["rxn", "prxn", "srxn", "rsys", "chem", "thermo", "cchems"])} {rng.randrange(10)}')
    if alive[0] and rng.random() < 0.08:
        singles = [j for j, x in enumerate(W.streams) if not is_multi(x)]
        if singles:
            base = rng.choice(singles)
            same = [j for j in singles if W.streams[j].chemicals is W.streams[base].chemicals and j != base]
            pick = [base] + rng.sample(same, min(len(same), rng.randrange(0, 3)))
            if rng.random() < 0.1 and W.streams: pick.append(rng.randrange(len(W.streams)))
            do('fromstreams ' + ','.join(map(str, pick)))
    return Case(ops, {})


def grid_cases(rng):
    """every cell of the kind x kind x package matrix for copy_like; link flags; proxies; pickles"""
    kinds = [('S', p) for p in SINGLE_PHASES] + [('M', p) for p in MULTI_PHASES]
    out = []
    for (tk, tp), (sk, sp) in itertools.product(kinds, kinds):
        for tpkg, spkg in (('A', 'A'), ('C', 'B'), ('A', 'B')):
            a = gen_new(rng, tk, tpkg, tp, 1)
            b = restrict_common(gen_new(rng, sk, spkg, sp, 2), rng)
            ops = [a, b, 'copylike 0 1']
            if rng.random() < 0.5:
                ops += [gen_mutation(rng, 2, [tpkg, spkg]), gen_mutation(rng, 2, [tpkg, spkg])]
            out.append(Case(ops, {'tags': ['grid:copylike']}))
    for kind, ph in (('S', None), ('M', 'g,l'), ('M', 'l,s'), ('M', 'g')):
        for f, p, tp in itertools.product('01', repeat=3):
            a = gen_new(rng, kind, 'A', ph, 1); b = gen_new(rng, kind, 'A', ph, 2)
            ops = [a, b, f'link 0 1 {f} {p} {tp}']
            for _ in range(4): ops.append(gen_mutation(rng, 2, ['A', 'A']))
            ops += [f'unlink {rng.randrange(2)}']
            for _ in range(3): ops.append(gen_mutation(rng, 2, ['A', 'A']))
            out.append(Case(ops, {'tags': ['grid:link']}))
    for kind, ph in kinds:
        for pkg in ('A', 'B', 'C'):
            a = gen_new(rng, kind, pkg, ph, 1)
            for op in ('copy', 'proxy', 'flowproxy', 'pickle'):
                ops = [a, f'{op} 0']
                for _ in range(3): ops.append(gen_mutation(rng, 2, [pkg, pkg]))
                ops.append(f'unlink {rng.randrange(2)}')
                ops.append(gen_mutation(rng, 2, [pkg, pkg]))
                out.append(Case(ops, {'tags': ['grid:' + op]}))
    for kind in ('rxn', 'prxn', 'srxn', 'rsys', 'chem', 'thermo', 'cchems'):
        for n in range(10):
            out.append(Case([f'pickleobj {kind} {n}'], {'tags': ['grid:pickleobj']}))
    # phase views as operands; copy_flow (private copies, oracle only)
    for mp in ('g,l', 'l,s', 'L,g', 'g,l,s'):
        for skind, sph in (('S', 'l'), ('S', 'g'), ('S', 's'), ('M', 'g,l')):
            for spkg in ('A', 'D', 'B'):
                a = gen_new(rng, 'M', 'A', mp, 1); b = restrict_common(gen_new(rng, skind, spkg, sph, 2), rng)
                ops = [a, b] + [f'viewops 0 {q} 1' for q in mp.split(',')]
                out.append(Case(ops, {'tags': ['grid:viewops']}))
    for tk, tp in (('S', 'l'), ('S', 'g')):
        for sk, sp in (('S', 'l'), ('M', 'g,l'), ('M', 'l')):
            for tpkg, spkg in (('A', 'A'), ('A', 'D'), ('C', 'B'), ('B', 'A')):
                a = gen_new(rng, tk, tpkg, tp, 1); b = gen_new(rng, sk, spkg, sp, 2)
                ops = [a, b] + [f'copyflowprobe 0 1 {ids} {rm} {ex}' for ids in ('-', '1', '1,3', '2') for rm in '01' for ex in '01']
                out.append(Case(ops, {'tags': ['grid:copyflow']}))
    for tp in ('g,l', 'g,l,s'):
        for sk, sp in (('S', 'l'), ('S', 'g'), ('S', 's'), ('M', 'g,l'), ('M', 'g,l,s'), ('M', 'l,s')):
            for tpkg, spkg in (('A', 'A'), ('C', 'C'), ('A', 'D')):
                a = gen_new(rng, 'M', tpkg, tp, 1); b = gen_new(rng, sk, spkg, sp, 2)
                ops = [a, b] + [f'copyflowprobe 0 1 {ids} {rm} {ex} {ph}' for ids in ('-', '1', '1,3') for rm in '01'
                                for ex in '01' for ph in ('-', 'l', 'g')]
                out.append(Case(ops, {'tags': ['grid:copyflow/M']}))
    # constructors with units= / total_flow=; from_streams
    for kind in 'SM':
        for pkg in 'ABCD':
            for _ in range(6):
                out.append(Case([gen_new_units(rng, kind, pkg, 1), gen_mutation(rng, 1, [pkg])], {'tags': ['grid:units']}))
    for unit in ('kg/hr', 'g/hr', 'mol/hr', 'kmol/hr'):
        for kind in 'SM':
            out.append(Case([f'ctorprobe {kind} A {unit} {tok(dy(rng, 1, 64))} 1:{tok(dy(rng, 1, 32))},2:{tok(dy(rng, 1, 32))}'],
                            {'tags': ['grid:ctorprobe']}))
    for phs in (['l', 'g'], ['s', 'l', 'g'], ['L', 'l'], ['g'], ['l', 'l']):
        ops = [gen_new(rng, 'S', 'A', ph, k + 1) for k, ph in enumerate(phs)]
        ops.append(gen_mutation(rng, len(phs), ['A'] * len(phs)))
        ops.append('fromstreams ' + ','.join(str(k) for k in range(len(phs))))
        out.append(Case(ops, {'tags': ['grid:fromstreams']}))
    # copy(thermo=...): every kind onto the same / a permuted / a larger / a smaller package
    for kind, ph in kinds:
        for src, dst in (('A', 'D'), ('D', 'A'), ('A', 'C'), ('B', 'A'), ('B', 'D'), ('A', 'A'), ('C', 'D'), ('A', 'B')):
            a = gen_new(rng, kind, src, ph, 1)
            if src in ('A', 'C') and dst in ('B', 'D') and rng.random() < 0.7: a = restrict_common(a, rng)
            ops = [a, f'copyto 0 {pkg_tok(dst)}']
            for _ in range(3): ops.append(gen_mutation(rng, 2, [src, dst]))
            ops.append(f'copylike {rng.randrange(2)} {rng.randrange(2)}')
            ops.append(f'copyto 1 {pkg_tok(src)}')
            ops.append(gen_mutation(rng, 3, [src, dst, src]))
            out.append(Case(ops, {'tags': ['grid:copyto']}))
    # re-linking with three streams: sharing must be exactly what the flags of the history say
    for kind, ph in (('S', None), ('S', 'g'), ('M', 'g,l'), ('M', 'l,s')):
        for f1, p1, t1 in (('1', '1', '1'), ('1', '1', '0'), ('1', '0', '1'), ('0', '1', '1')):
            for f, p, tp in itertools.product('01', repeat=3):
                ops = [gen_new(rng, kind, 'A', ph, 1), gen_new(rng, kind, 'A', ph, 2), gen_new(rng, kind, 'A', ph, 3),
                       f'link 1 0 {f1} {p1} {t1}', f'link 1 2 {f} {p} {tp}']
                for _ in range(3): ops.append(gen_mutation(rng, 3, ['A', 'A', 'A']))
                ops.append(f'unlink {rng.randrange(3)}')
                for _ in range(2): ops.append(gen_mutation(rng, 3, ['A', 'A', 'A']))
                out.append(Case(ops, {'tags': ['grid:relink']}))
    return out


def generate(rng, tier, index, nworkers):
    b = budget(tier)
    grid = grid_cases(rng)
    for j, c in enumerate(grid):
        if j % nworkers == index: yield c
    n = max(1, (b['cases'] - len(grid)) // nworkers)
    for j in range(n):
        r = rng.random()
        if r < 0.5: yield gen_history(rng, rng.randrange(4, 12))
        elif r < 0.9: yield gen_history(rng, rng.randrange(10, 30))
        else: yield gen_history(rng, 45)


def corpus():
    return [
        # one-phase MultiStream source (T, P; other package)
        Case(['new S 1 0=1,2,3 l 1:1 300 101325 0 -', 'new M 2 1=3,1 g 1:2 350 200000 0 -', 'copylike 0 1']),
        # characterization factors given at construction, then pickled
        Case(['new S 1 0=1,2,3 l 1:1 300 101325 1/2 1:2', 'pickle 0']),
        Case(['new M 1 0=1,2,3 g,l -;1:1 300 101325 1/2 1:2', 'pickle 0']),
        # source phase the multi-phase target lacks
        Case(['new M 1 0=1,2,3 g,l 1:2;2:5 350 200000 0 -', 'new S 2 0=1,2,3 s 1:1 310 101325 0 -', 'copylike 0 1']),
        # multi <- multi with different phase sets
        Case(['new M 1 0=1,2,3 g,l 1:2;2:5 350 200000 0 -', 'new M 2 0=1,2,3 l,s 1:7;3:3 310 101325 0 -', 'copylike 0 1']),
        Case(['new M 1 0=1,2,3 l,s 1:2;2:1 350 200000 0 -', 'new M 2 1=3,1 L,s 1:7;3:3 310 101325 0 -', 'copylike 0 1']),
        # target phase the multi-phase source lacks
        Case(['new S 1 0=1,2,3 s 1:1 300 101325 0 -', 'new M 2 0=1,2,3 g,l 1:2;- 350 200000 0 -', 'copylike 0 1']),
        # pickle of a one-phase MultiStream
        Case(['new M 1 0=1,2,3 g 1:2 350 200000 0 -', 'pickle 0']),
        # proxy of a MultiStream; unlink of a proxy
        Case(['new M 1 0=1,2,3 g,l 1:2;- 350 200000 0 -', 'proxy 0']),
        Case(['new S 1 0=1,2,3 g 1:2 350 200000 0 -', 'proxy 0', 'unlink 1', 'setflow 0 g 1 5']),
        # copy of a multi-phase stream onto a package with the same chemicals in another order
        Case(['new M 1 0=1,2,3 g,l 3:3;1:7,2:2 330 200000 0 -', 'copyto 0 3=3,2,1', 'setflow 1 l 1 11', 'setflow 0 g 2 4']),
        # full link, then partial re-link to a third stream
        Case(['new S 1 0=1,2,3 l 1:1,2:2 300 100000 0 -', 'new S 2 0=1,2,3 l 1:5 310 200000 0 -',
              'new S 3 0=1,2,3 g 2:9 350 300000 0 -', 'link 1 0 1 1 1', 'link 1 2 1 0 0', 'setflow 2 g 1 42']),
        Case(['new S 1 0=1,2,3 l 1:1 300 100000 0 -', 'new S 2 0=1,2,3 l 1:5 310 200000 0 -',
              'new S 3 0=1,2,3 g 2:9 350 300000 0 -', 'link 1 0 1 1 1', 'link 1 2 0 1 0', 'setphase 2 s']),
        # phase views across link / proxy / unlink
        Case(['new M 1 0=1,2,3 g,l -;1:1 300 100000 0 -', 'new M 2 0=1,2,3 g,l 1:2;- 350 200000 0 -', 'link 0 1 1 1 1',
              'setflow 1 l 1 3']),
        Case(['new M 1 0=1,2,3 g,l -;1:1 300 100000 0 -', 'proxy 0', 'unlink 1', 'setflow 0 l 1 3']),
        Case(['new M 1 0=1,2,3 g,l -;1:1 300 100000 0 -', 'proxy 0', 'view 0 l', 'setphase 1 S', 'view 0 l', 'unlink 1']),
    ]


def search(case, rng, budget_s):
    return None
