"""
C05 — reactions conserve mass and atoms and convert exactly X of the reactant.

Adapter for thermosteam/reaction/_reaction.py (+ _parse.py, _xparse.py): builds real
Reaction / ParallelReaction / SeriesReaction / ReactionSystem objects through the real
string and dict parsers, applies them to arrays and to (Multi)Streams (also of another
property package), and evaluates the property on the real objects only:
atoms (`formula_array @ mol`) and `F_mass` before/after, reactant consumption and
stoichiometric proportion, parallel-from-feed / series-on-running composition (against the
real member reactions), mol/wt agreement, non-negativity on normal return, InfeasibleRegion
raised exactly when a flow would go below -1e-12.
The Lean model is lean/ThermoVerif/Model/Reaction.lean, the driver lean/Driver/C05.lean.
"""
from __future__ import annotations
import itertools, math, random, warnings
from fractions import Fraction as F
from harness.core import Case, ImplResult, frac

PID = 'C05'
LEAN_MODULES = ['ThermoVerif.Props.C05']
RULE = ('random atomically balanced stoichiometries = rational null-space vectors of the real '
        'chemicals.formula_array restricted to 2-6 chemicals (integer and fractional coefficients; ~10% deliberately '
        'unbalanced), every participating chemical as reactant (also product-side and `reactant=None`), X dyadic in '
        '[0,1] (few outside), 1-4 reactions as Reaction / ParallelReaction / SeriesReaction / ReactionSystem, defined '
        'by strings and dicts through the real parsers (phase-less and phase-tagged), mol and wt basis (setter, '
        'constructor), ~15% written unbalanced and repaired by correct_atomic_balance (method with default / one / two '
        'constants, constructor flag), '
        'applied to ndarrays, SparseVector/SparseArray, Streams and MultiStreams, same and other property package '
        '(superset, subset, permutation, equal-but-separately-compiled); ~30% of the cases derive the used reactions '
        'through copy(basis=...) / copy + basis setter and apply the originals too; '
        'flows dyadic; ~80% of the cases are well-formed (feeds topped up by exact generator-side bookkeeping so '
        'that the whole plan is feasible, with limiting and clamp (-2^-45) variants; conversions in [0,1]; packages '
        'that know every chemical involved) so that ~89% of the applications return normally; ~20% carry exactly '
        'one malformation (reactant not taking part, reactant=None with several reactants, mixed bases, phase '
        'mismatch of a reaction / of the stream, X outside [0,1], stream-only or missing chemicals, unshaped or '
        'short feeds) so that every error kind is hit every run; a case is non-trivial '
        'when at least one call changed a flow; distinct = distinct op sequences')
ASSUMPTIONS = [
    'field arithmetic over Rat models binary64: exact comparison whenever the driver finds every intermediate '
    'representable (exact=1), else relative 1e-9',
    'MW = m^T A (atomic masses) is a monitored hypothesis (pkg line, 1e-9 relative); mass conservation is a corollary',
    'a reaction is "balanced" when formula_array @ stoichiometry_by_mol is 0 to 1e-9 of the largest coefficient',
    'a ParallelReaction/SeriesReaction is a value (it copies its members, repair 8900795); a ReactionSystem is '
    'modelled through its references (basis setter on a member after the system was built); nested systems are '
    'flattened by the driver (members one after the other, every level re-checks the bases)',
    'KineticReaction, ReactionItem/X setters and reaction arithmetic (C17) are not modelled',
    'an integer ndarray is refused (proposed repair fixes_proposed/C05-7.md; the code as found truncates the result on '
    'write-back); Python lists behave like float arrays; float32 arrays are not generated',
    'the model follows the repaired behaviour of fixes_proposed/C05-1..5 (multi-phase other-package write-back '
    '[already in /repo], phase-less reaction on a MultiStream, SparseArray argument, check_atomic_balance, '
    'remove_negligible_negative_values) rather than the code as found',
    'float-level effects are outside the field theorems: where a changed entry ends within round-off of zero the '
    'driver marks the line fragile and, in tolerance mode only, either feasibility decision is accepted',
]
TRUSTED = ['Lean 4.33 kernel', 'correspondence harness harness/props/c05.py + Driver/C05.lean',
           'exactness evaluator in Driver/C05.lean (decides exact vs tolerance comparison)',
           'generator reach (see histogram)']
EXHAUSTIVE = {'quick': False, 'thorough': False}

tmo = None
np = None
U = []            # universal chemical list (Chemical objects)
UID = {}          # Chemical ID -> universal index
PKGS = {}         # k -> dict(chems=Chemicals, thermo=Thermo, ids=[universal ids])
ELEMS = []        # element rows of the formula matrix that are used
AM = []           # atomic masses for those rows
ALIASES = {'Water': ['H2O'], 'Ethanol': ['C2H6O'], 'Methanol': ['CH4O'], 'AceticAcid': ['C2H4O2'],
           'NH3': ['H3N']}
UNIVERSE = ['Water', 'Ethanol', 'Methanol', 'Glucose', 'CO2', 'O2', 'H2', 'CH4', 'AceticAcid', 'N2', 'CO', 'NH3',
            'LacticAcid', 'Glycerol']
PKG_DEF = {
    0: [0, 1, 2, 3, 4, 5, 6, 7, 8, 9, 10, 11],
    1: [13, 5, 0, 7, 12, 4, 1, 9, 6, 3, 10, 2, 8, 11],          # superset, shuffled
    2: [6, 5, 0, 4, 7, 10, 1, 2],                                # subset
    3: [0, 1, 2, 3, 4, 5, 6, 7, 8, 9, 10, 11],                    # equal to 0 but separately compiled
    4: [7, 3, 11, 0, 5, 9, 1, 10, 2, 8, 6, 4],                    # permutation of 0 (same size)
}
PHASE_SETS = ['gl', 'ls', 'gls']
InfeasibleRegion = None
SparseVector = SparseArray = None


def setup():
    global tmo, np, InfeasibleRegion, SparseVector, SparseArray
    import numpy, thermosteam
    from thermosteam.exceptions import InfeasibleRegion as IR
    from thermosteam.base import SparseVector as SV, SparseArray as SA
    from chemicals import elements
    tmo, np, InfeasibleRegion, SparseVector, SparseArray = thermosteam, numpy, IR, SV, SA
    warnings.simplefilter('ignore')
    for n, ID in enumerate(UNIVERSE):
        U.append(tmo.Chemical(ID)); UID[ID] = n
    for k, ids in PKG_DEF.items():
        chems = tmo.Chemicals([U[i] for i in ids])
        thermo = tmo.Thermo(chems)
        PKGS[k] = dict(chems=thermo.chemicals, thermo=thermo, ids=list(ids))
    tmo.settings.set_thermo(PKGS[0]['thermo'])
    allc = tmo.Chemicals(U); allc.compile()
    A = allc.formula_array
    rows = [int(r) for r in numpy.where(A.any(1))[0]]
    ELEMS[:] = rows
    AM[:] = [elements.periodic_table[r + 1].MW for r in rows]


def budget(tier):
    return {'quick': dict(seconds=55, cases=4800, shrink_s=12, search_s=5),
            'thorough': dict(seconds=480, cases=96000, shrink_s=40, search_s=20)}[tier]


# --------------------------------------------------------------------------
# protocol helpers
# --------------------------------------------------------------------------

def fvec(v): return ','.join(frac(float(x)) for x in v)
def frows(rows): return ';'.join(fvec(r) for r in rows)


def pkg_line(k):
    p = PKGS[k]
    chems = p['chems']
    A = chems.formula_array
    names = ';'.join('|'.join([c.ID] + ALIASES.get(c.ID, [])) for c in chems)
    return (f'pkg {k} ids={",".join(map(str, p["ids"]))} names={names} mw={fvec(chems.MW)} '
            f'atoms={frows([A[r] for r in ELEMS])} am={fvec(AM)}')


def kv(toks, key, default=None):
    for t in toks:
        if t.startswith(key + '='): return t[len(key) + 1:]
    return default


def parse_rows(s):
    return [[F(x) for x in r.split(',')] if r else [] for r in s.split(';')] if s != '' else []


PHASE_ORDER = 'LSgls'


def phase_codes(phases):
    return ','.join(str(PHASE_ORDER.index(p)) for p in phases)


ERRMAP = None


def err_class(e):
    from thermosteam.exceptions import UndefinedChemical, UndefinedChemicalAlias, UndefinedPhase
    if isinstance(e, InfeasibleRegion): return 'Infeasible'
    if isinstance(e, (UndefinedChemical, UndefinedChemicalAlias)): return 'UndefinedChemical'
    if isinstance(e, UndefinedPhase): return 'UndefinedPhase'
    if isinstance(e, RuntimeError) and 'does not participate' in str(e): return 'NoReactant'
    if isinstance(e, RuntimeError) and 'same basis' in str(e): return 'BasisMix'
    if isinstance(e, ValueError): return 'ValueError'
    return type(e).__name__


# --------------------------------------------------------------------------
# the adapter: real objects of one case
# --------------------------------------------------------------------------

class NoRef(Exception):
    pass


class Objs(dict):
    def __missing__(self, key):
        raise NoRef(key)


class World:
    def __init__(self, meta):
        self.objs = Objs()      # name -> dict(obj, kind, members, pkg, recipe)
        self.meta = meta

    # ---- construction -------------------------------------------------------
    def build_rxn(self, toks, payload, **extra):
        k = int(kv(toks, 'pkg')); basis = kv(toks, 'basis'); X = float(F(kv(toks, 'X')))
        r = kv(toks, 'r'); ph = kv(toks, 'phases'); dk = kv(toks, 'def')
        chems = PKGS[k]['chems']
        if dk == 'str':
            definition = payload
        elif dk == 'dict':
            definition = {}
            for t in payload.split(','):
                ID, c = t.split(':')
                c = F(c)
                definition[ID] = int(c) if (c.denominator == 1 and abs(c) < 5 and (len(ID) & 1)) else float(c)
        elif dk == 'xdict':
            definition = {}
            for t in payload.split(','):
                ID, p, c = t.split(':')
                definition[ID] = (p, float(F(c)))
        elif dk == 'xarr':
            definition = [[float(x) for x in r] for r in parse_rows(payload)]
        else:
            raise ValueError(dk)
        kw = dict(extra)
        if kv(toks, 'correct') == '1' and 'check_atomic_balance' not in kw: kw['correct_atomic_balance'] = True
        if ph != '-': kw['phases'] = ph
        return tmo.Reaction(definition, reactant=None if r == 'auto' else r, X=X, chemicals=chems,
                            basis=basis, **kw)

    def show_rxn(self, rxn, chems):
        st = rxn._stoichiometry
        arr = np.asarray(st.to_array(), float)
        rows = arr if arr.ndim == 2 else arr[None, :]
        ri = rxn._reactant_index
        flat = int(ri[0]) * chems.size + int(ri[1]) if rxn._phases else int(ri)
        return f'nu={frows(rows)} r={flat} ph={phase_codes(rxn._phases)} bal={1 if self.balanced(rxn) else 0}'

    @staticmethod
    def balanced(rxn):
        """judged on the real object, like Reaction.atomic_balance_error"""
        st = rxn._get_stoichiometry_by_mol()
        arr = np.asarray(st.to_array(), float)
        A = rxn.chemicals.formula_array
        scale = np.abs(arr).max() if arr.size else 0.
        if arr.ndim == 2:
            err = np.abs(A @ arr.sum(0)).max()
        else:
            err = np.abs(A @ arr).max()
        return bool(err <= scale * 1e-9)

    # ---- one protocol line -----------------------------------------------------
    def apply(self, line, i, failures):
        head, _, payload = line.partition(' | ')
        toks = head.split()
        op = toks[0]
        if op == 'pkg':
            return 'ok mw=ok'
        if op == 'rxn':
            name = toks[1]
            try:
                rxn = self.build_rxn(toks, payload)
            except ValueError:
                raise
            if name in self.meta.get('dup', ()):
                failures.append({'signature': 'rxn:repeated-chemical-accepted', 'op_index': i,
                                 'what': f'`{payload}` names a chemical twice (across or within the sides of the '
                                         f'equation) and was accepted: stoichiometry {rxn.stoichiometry}'[:300]})
            k = int(kv(toks, 'pkg'))
            bal = self.balanced(rxn)
            self.objs[name] = dict(obj=rxn, kind='single', members=[], pkg=k, recipe=[(toks, payload)], bal=bal)
            # the library's own gate for the precondition "atomically balanced"
            try:
                self.build_rxn(toks, payload, check_atomic_balance=True)
                chk = '1'
            except RuntimeError as ex:
                chk = '0' if 'unbalanced' in str(ex) else 'E'
            except Exception as ex:
                chk = 'E'
                failures.append({'signature': 'rxn:balance-check-crashes', 'op_index': i,
                                 'what': f'check_atomic_balance=True raises {type(ex).__name__} for `{payload}` '
                                         f'(phases={rxn._phases})'})
            # (the gate's documented tolerance is an absolute 1e-3 on the rescaled molar coefficients)
            st_ = np.asarray(rxn._get_stoichiometry_by_mol().to_array(), float).reshape(-1, rxn.chemicals.size).sum(0)
            imb = float(np.abs(rxn.chemicals.formula_array @ st_).max())
            corrected = kv(toks, 'correct') == '1'      # (then chk is about the definition as written, not `rxn`)
            if chk == '1' and not bal and imb > 2e-3 and not corrected:
                failures.append({'signature': 'rxn:balance-check-accepts-unbalanced', 'op_index': i,
                                 'what': f'check_atomic_balance=True accepts `{payload}` although formula_array @ '
                                         f'stoichiometry = {rxn.chemicals.formula_array @ np.asarray(rxn._get_stoichiometry_by_mol().to_array()).reshape(-1, rxn.chemicals.size).sum(0)!r}'[:400]})
            if kv(toks, 'correct') == '1':
                self.check_rebalanced(name, self.objs[name], i, failures)
            if chk == '0' and bal and imb < 5e-4 and not corrected:
                failures.append({'signature': 'rxn:balance-check-rejects-balanced', 'op_index': i,
                                 'what': f'check_atomic_balance=True rejects the balanced `{payload}`'})
            return self.show_rxn(rxn, PKGS[k]['chems']) + ' chk=' + chk
        if op == 'setbasis':
            e = self.objs[toks[1]]
            e['obj'].basis = toks[2]
            e['recipe'].append(toks[2])
            return self.show_rxn(e['obj'], PKGS[e['pkg']]['chems'])
        if op == 'massbal':
            e = self.objs[toks[1]]
            rxn = e['obj']
            v = kv(toks, 'variable', '-')
            rxn.correct_mass_balance(variable=None if v == '-' else v)
            # the reaction was balanced already: the solve must hand the coefficient back.  Tolerance 1e-6 relative:
            # flexsolve.aitken_secant stops within ~1e-9 absolute of the root (observed 8e-10), far below the O(0.1)
            # effect of a wrong molecular weight.
            intent = self.intent_of(toks[1], e)
            if intent is not None and rxn._basis == intent['basis'] and not rxn._phases:
                c = np.array([float(F(x)) for x in intent['nu'][0]], float)
                ri = int(rxn._reactant_index)
                if c[ri] != 0:
                    exp = c / (-c[ri])
                    nu = np.asarray(rxn._stoichiometry.to_array(), float)
                    if nu.shape == exp.shape and np.abs(nu - exp).max() > 1e-6 * max(1., float(np.abs(exp).max())):
                        j = int(np.abs(nu - exp).argmax())
                        failures.append({'signature': 'rxn:mass-balance-correction-unbalances', 'op_index': i,
                                         'what': f'correct_mass_balance(variable={v!r}) on the balanced reaction '
                                                 f'{toks[1]} changed the coefficient of {rxn.chemicals.IDs[j]} from '
                                                 f'{float(exp[j])!r} to {float(nu[j])!r}'})
            return 'ok'
        if op == 'repkg':
            e = self.objs[toks[1]]
            k2 = int(toks[2])
            rxn = e['obj']
            old_ids = PKGS[e['pkg']]['ids']; new_ids = PKGS[k2]['ids']
            reactant_before = rxn.reactant
            rxn.reset_chemicals(PKGS[k2]['chems'])
            intent = self.intent_of(toks[1], e)
            if intent is not None:
                def move(rows):
                    out = [['0'] * len(new_ids) for _ in rows]
                    for r_, row in enumerate(rows):
                        for j, c in enumerate(row):
                            if F(c) != 0: out[r_][new_ids.index(old_ids[j])] = c
                    return out
                e['intent'] = dict(intent, nu=move(intent['nu']))
                if 'plan' in intent: e['intent']['plan'] = move(intent['plan'])
            e['pkg'] = k2
            e['recipe'].append(('repkg', k2))
            if rxn.reactant != reactant_before:
                failures.append({'signature': 'rxn:reactant-changed', 'op_index': i,
                                 'what': f'after reset_chemicals the reactant of {toks[1]} is {rxn.reactant!r}, it was '
                                         f'{reactant_before!r}'})
            else:
                self.check_definition(toks[1], e, i, failures)
            return self.show_rxn(rxn, PKGS[k2]['chems'])
        if op == 'balance':
            e = self.objs[toks[1]]
            rxn = e['obj']
            cs = kv(toks, 'constants', '-')
            if cs == '-': rxn.correct_atomic_balance()
            elif ',' in cs: rxn.correct_atomic_balance(constants=cs.split(','))
            else: rxn.correct_atomic_balance(constants=cs if len(cs) & 1 else [cs])
            e['bal'] = self.balanced(rxn)
            e['recipe'].append(('balance', cs))
            self.check_rebalanced(toks[1], e, i, failures)
            return self.show_rxn(rxn, PKGS[e['pkg']]['chems'])
        if op == 'show':
            e = self.objs[toks[1]]
            self.check_definition(toks[1], e, i, failures)
            return self.show_rxn(e['obj'], PKGS[e['pkg']]['chems'])
        if op == 'copybasis':
            name, orig, b = toks[1], toks[2], toks[3]
            e = self.objs[orig]
            if kv(toks, 'how', 'copy') == 'copy':
                new = e['obj'].copy(basis=b)
            else:
                new = e['obj'].copy(); new.basis = b
            self.objs[name] = dict(obj=new, kind='single', members=[], pkg=e['pkg'], recipe=list(e['recipe']) + [b],
                                   bal=e['bal'], alias=orig if 'alias' not in e else e['alias'])
            # deriving a copy must leave the original as it was defined
            self.check_definition(orig, e, i, failures)
            return self.show_rxn(new, PKGS[e['pkg']]['chems'])
        if op in ('par', 'ser', 'sys'):
            name, ms = toks[1], toks[2].split(',')
            es = [self.objs[m] for m in ms]
            objs = [e['obj'] for e in es]
            if op == 'par': o = tmo.ParallelReaction(objs)
            elif op == 'ser': o = tmo.SeriesReaction(objs)
            else:
                kb = kv(toks, 'basis')
                o = tmo.ReactionSystem(*objs, basis=kb) if kb else tmo.ReactionSystem(*objs)
            self.objs[name] = dict(obj=o, kind=op, members=ms, pkg=es[0]['pkg'], recipe=None,
                                   bal=all(e['bal'] for e in es))
            return 'ok'
        if op == 'call':
            return self.call(toks, i, failures)
        raise ValueError('unknown op ' + line)

    def intent_of(self, name, e):
        """what the definition of a single reaction means (rows in the layout of its *current* package)"""
        if 'intent' in e: return e['intent']
        return self.meta.get('intent', {}).get(e.get('alias', name))

    def reactant_pos(self, intent, obj, k):
        """(row, column) of the reactant according to the definition; falls back to the object's own index"""
        ru = intent.get('reactant') if intent else None
        ids = PKGS[k]['ids']
        if ru is not None and ru in ids:
            col = ids.index(ru)
            for row, r in enumerate(intent['nu']):
                if F(r[col]) != 0: return (row, col)
        ri = obj._reactant_index
        return (int(ri[0]), int(ri[1])) if obj._phases else (0, int(ri))

    def check_rebalanced(self, name, e, i, failures):
        """after correct_atomic_balance: balanced, and still on a per-reactant basis (coefficient -1)"""
        rxn = e['obj']
        ri = rxn._reactant_index
        nu = np.asarray(rxn._stoichiometry.to_array(), float)
        cr = float(nu[int(ri[0]), int(ri[1])] if rxn._phases else nu[int(ri)])
        if abs(cr + 1.) > 1e-9:
            failures.append({'signature': 'rxn:not-per-reactant', 'op_index': i,
                             'what': f'after correct_atomic_balance the coefficient of the reactant of {name} is '
                                     f'{cr!r}, not -1: the reaction converts {-cr!r}·X of its reactant'})
        elif not self.balanced(rxn):
            failures.append({'signature': 'rxn:balance-not-achieved', 'op_index': i,
                             'what': f'correct_atomic_balance left {name} unbalanced'})
        else:
            self.check_definition(name, e, i, failures)

    def check_definition(self, name, e, i, failures):
        """a single reaction still has the stoichiometry it was defined with (rescaled to its reactant)"""
        intent = self.intent_of(name, e)
        rxn = e['obj']
        if intent is None or rxn._basis != intent['basis'] or e['kind'] != 'single': return
        c = np.array([[float(F(x)) for x in r] for r in intent['nu']], float)
        ri = rxn._reactant_index
        ri = (int(ri[0]), int(ri[1])) if rxn._phases else (0, int(ri))
        nu = np.asarray(rxn._stoichiometry.to_array(), float)
        nu = nu if nu.ndim == 2 else nu[None, :]
        if nu.shape != c.shape or c[ri] == 0: return
        exp = c / (-c[ri])
        if np.abs(nu - exp).max() > 1e-9 * max(1., float(np.abs(exp).max())):
            j = np.unravel_index(int(np.abs(nu - exp).argmax()), nu.shape)
            failures.append({'signature': 'rxn:definition-changed', 'op_index': i,
                             'what': f'the {rxn._basis}-basis reaction {name} now has coefficient {float(nu[j])!r} at '
                                     f'{tuple(int(x) for x in j)} where its definition gives {float(exp[j])!r} '
                                     f'(after deriving a copy in another basis)'})

    # ---- twins in the other basis -------------------------------------------------
    def twin(self, name):
        """the same reaction object built again from its recipe, in the other basis (None if not possible)"""
        e = self.objs[name]
        try:
            if e['kind'] == 'single':
                toks, payload = e['recipe'][0]
                rxn = self.build_rxn(toks, payload)
                for b in e['recipe'][1:]:
                    if isinstance(b, tuple) and b[0] == 'repkg':
                        rxn.reset_chemicals(PKGS[b[1]]['chems'])
                    elif isinstance(b, tuple):
                        cs = b[1]
                        rxn.correct_atomic_balance(constants=None if cs == '-' else cs.split(','))
                    else: rxn.basis = b
                rxn.basis = 'wt' if rxn.basis == 'mol' else 'mol'
                return rxn
            ms = [self.twin(m) for m in e['members']]
            if any(m is None for m in ms): return None
            if e['kind'] == 'par': return tmo.ParallelReaction(ms)
            if e['kind'] == 'ser': return tmo.SeriesReaction(ms)
            return tmo.ReactionSystem(*ms)
        except Exception:
            return None

    # ---- materials ---------------------------------------------------------------
    def make_stream(self, k, ph, rows):
        thermo = PKGS[k]['thermo']
        if len(ph) == 1:
            s = tmo.Stream(None, thermo=thermo, phase=ph)
            s.imol.data[:] = np.array(rows[0], float)
        else:
            s = tmo.MultiStream(None, phases=tuple(ph), thermo=thermo)
            s.imol.data[:] = np.array(rows, float)
        return s

    @staticmethod
    def stream_rows(s):
        d = np.asarray(s.imol.data.to_array(), float)
        return d if d.ndim == 2 else d[None, :]

    # ---- the call and the property oracle ---------------------------------------
    def call(self, toks, i, failures):
        name, mk = toks[1], toks[2]
        e = self.objs[name]
        obj = e['obj']
        rchems = PKGS[e['pkg']]['chems']
        rows = [[float(x) for x in r] for r in parse_rows(kv(toks, 'rows'))]
        basis = obj._basis
        mode = kv(toks, 'mode')
        force = mode in ('force', 'nocheck')
        if mode == 'nocheck':
            def react(mat, obj=obj):
                # `__call__` with the feasibility check switched off (module flag): the force_reaction code path
                tmo.reaction.CHECK_FEASIBILITY = False
                try: obj(mat)
                finally: tmo.reaction.CHECK_FEASIBILITY = True
        else:
            react = obj.force_reaction if force else obj
        if mk == 'view':
            return self.call_view(toks, i, failures, name, e, obj, rchems, rows, basis, force, react)
        sig0 = f'{e["kind"]}/{"force-" if force else ""}{mk}'
        def fail(clause, what, only_if_exact=False):
            # layout-type clauses are named after the material, the others after the kind of object
            if clause in ('layout-corrupt', 'phaseless-on-multistream', 'phase-mismatch-accepted', 'call-has-no-effect',
                          'int-array-truncated',
                          'conversion-changed-material'):
                mat = sig0.split('/')[1].replace('force-', '')
                if clause != 'layout-corrupt': mat = mat.replace('-otherpkg', '')
                sig = mat + ':' + clause
            elif force:
                sig = 'force:' + clause
            else:
                sig = e['kind'] + ':' + clause
            if not any(f['op_index'] == i for f in failures):
                failures.append({'signature': sig, 'op_index': i, 'what': f'[{sig0}] {what}',
                                 'only_if_exact': only_if_exact})
        if mk == 'arr':
            how = kv(toks, 'as', 'nd')
            a0 = np.array(rows[0] if len(rows) == 1 else rows, float)
            if how == 'sp':
                mat = SparseVector(a0) if a0.ndim == 1 else SparseArray(a0)
            elif how == 'int':
                mat = a0.astype(np.int64)
            elif how == 'list':
                mat = [float(x) for x in a0] if a0.ndim == 1 else a0.copy()
            else:
                mat = a0.copy()
            sig0 += f'-{how}{a0.ndim}d/{basis}'
            chems = rchems
            before = a0 if a0.ndim == 2 else a0[None, :]
            if mode == 'conversion':
                return self.call_conversion(obj, mat, before, None, fail)
            try:
                react(mat)
            except Exception as ex:
                ec = err_class(ex)
                if how == 'int' and ec == 'TypeError':
                    pass                # an integer array cannot hold the result: refused
                elif ec == 'BasisMix' and self.mixed_basis(e):
                    pass
                elif ec == 'Infeasible' and not force:
                    self.check_raise(obj, e, before, ec, fail, rchems, basis, array=True)
                elif before.shape == (max(1, len(obj._phases)), rchems.size):
                    fail('unexpected-exception', f'{type(ex).__name__}: {str(ex)[:120]} — on an array of the '
                                                 f"object's own shape")
                return 'err=' + ec
            after = np.asarray(mat.to_array() if how == 'sp' else mat, float)
            after = after if after.ndim == 2 else after[None, :]
            if how == 'int':
                # (only reached while the write-back silently truncates)
                exp = before + self.expected_delta(obj, before)
                if np.abs(after - exp).max() > 1e-9 * max(1., float(np.abs(exp).max())):
                    fail('int-array-truncated', f'an integer array came back as {after.tolist()!r}; the reaction makes '
                                                f'it {exp.tolist()!r} (write-back truncated to the array\'s dtype)')
                    return 'out=' + frows(after)
            # an array is in the reaction's own basis: masses for a wt reaction
            MW = chems.MW
            mol_b = before / MW if basis == 'wt' else before
            mol_a = after / MW if basis == 'wt' else after
            self.oracle(obj, e, name, chems, mol_b, mol_a, before, after, fail, basis, stream=None, force=force)
            return 'out=' + frows(after)
        # ---- stream
        k = int(kv(toks, 'pkg')); ph = kv(toks, 'ph')
        s = self.make_stream(k, ph, rows)
        schems = PKGS[k]['chems']
        other = schems is not rchems
        sig0 += f'{"-multi" if len(ph) > 1 else ""}{"-otherpkg" if other else ""}/{basis}' \
                f'{"-phased" if obj._phases else ""}'
        before = self.stream_rows(s).copy()
        mass_b = float(s.F_mass)
        if mode == 'conversion':
            return self.call_conversion(obj, s, before, (schems, ph), fail)
        try:
            react(s)
        except Exception as ex:
            ec = err_class(ex)
            if ec == 'BasisMix' and self.mixed_basis(e):
                pass                    # the documented refusal of a system whose members differ in basis
            elif self.in_quantifier(name, obj, ph, before, schems, rchems):
                if ec == 'Infeasible' and not force:
                    vals = self.to_package(before, schems, rchems)
                    if basis == 'wt': vals = vals * rchems.MW
                    self.check_raise(obj, e, vals, ec, fail, rchems, basis, array=False)
                else:
                    fail('unexpected-exception', f'{type(ex).__name__}: {str(ex)[:120]} — on a stream with matching '
                         f'phases whose chemicals the reaction package knows (and vice versa)')
            return 'err=' + ec
        # layout intact?
        try:
            d = s.imol.data
            shape = tuple(d.shape) if d.ndim == 2 else (1, d.size)
            ok_layout = (s.chemicals is schems and s.imol.chemicals is schems
                         and shape == (len(ph), schems.size))
        except Exception:
            ok_layout = False
        if not ok_layout:
            fail('layout-corrupt', f'after reacting a stream of another package its imol data no longer matches '
                                   f'its chemicals (shape {getattr(s.imol.data, "shape", None)} for {schems.size} chemicals)')
            return 'out=?'
        after = self.stream_rows(s)
        try:
            mass_a = float(s.F_mass)
        except Exception as ex:
            fail('layout-corrupt', f'F_mass raises after the reaction: {type(ex).__name__}')
            return 'out=' + frows(after)
        if obj._phases and tuple(sorted(ph)) != tuple(obj._phases):
            # the rows of the stream and of the stoichiometry belong to different phases: must be refused
            fail('phase-mismatch-accepted', f'a reaction over the phases {tuple(obj._phases)!r} accepted a stream with '
                 f'the phases {tuple(sorted(ph))!r} and returned normally (flows {before.tolist()!r} -> '
                 f'{after.tolist()!r}): its stoichiometry rows were combined with other phases\' flows')
            return 'out=' + frows(after)
        if len(ph) > 1 and not obj._phases:
            fail('phaseless-on-multistream', 'a reaction object without phases accepted a multi-phase stream and '
                 f'changed it (mass {mass_b!r} -> {mass_a!r}) instead of rejecting it')
        self.oracle(obj, e, name, schems, before, after, None, None, fail, basis, stream=(k, ph, rows),
                    mass=(mass_b, mass_a), other=other, force=force, rchems=rchems)
        return 'out=' + frows(after)

    def call_conversion(self, obj, mat, before, stream, fail):
        """`Reaction.conversion(material)`: reports the change, leaves the material (and its package) alone"""
        try:
            obj.conversion(mat)
        except Exception as ex:
            return 'err=' + err_class(ex)
        if stream is not None:
            schems, ph = stream
            try:
                ok = (mat.chemicals is schems and mat.imol.chemicals is schems)
                after = self.stream_rows(mat)
                ok = ok and after.shape == before.shape
            except Exception:
                ok = False
            if not ok:
                fail('layout-corrupt', 'after Reaction.conversion the stream is not on its own package any more')
                return 'out=?'
        else:
            after = np.asarray(mat.to_array() if hasattr(mat, 'to_array') else mat, float)
            after = after if after.ndim == 2 else after[None, :]
        if (after != before).any():
            fail('conversion-changed-material', f'Reaction.conversion changed the material it was asked about: '
                                                f'{before.tolist()!r} -> {after.tolist()!r}')
        return 'out=' + frows(after)

    def call_view(self, toks, i, failures, name, e, obj, rchems, rows, basis, force, react):
        """the material is a flow array that is a *view* of a stream of the reaction's own package:
        stream.mol / imol.data, stream.mass / imass.data (DictionaryView: reacted copy written back through it),
        or the mol / mass of one phase of a MultiStream"""
        sel = kv(toks, 'sel'); ph = kv(toks, 'ph'); own = kv(toks, 'own', ph)
        k = e['pkg']
        sig0 = f'{e["kind"]}/{"force-" if force else ""}view-{sel}{"-phase" if own != ph else ""}/{basis}'
        def fail(clause, what, only_if_exact=False):
            if clause in ('layout-corrupt', 'call-has-no-effect', 'view-other-phase-changed'):
                sig = f'view-{sel}:{clause}'
            elif force: sig = 'force:' + clause
            else: sig = e['kind'] + ':' + clause
            if not any(f['op_index'] == i for f in failures):
                failures.append({'signature': sig, 'op_index': i, 'what': f'[{sig0}] {what}',
                                 'only_if_exact': only_if_exact})
        own_sorted = ''.join(sorted(own))
        if own == ph:
            owner_rows = rows
        else:
            owner_rows = [rows[0] for _ in own_sorted]          # the other phases hold the same flows
        s = self.make_stream(k, own_sorted, owner_rows)
        which = hash(len(toks[-1])) & 1
        if own != ph:
            sub = s[ph]
            mat = sub.mol if sel == 'mol' else sub.mass
            vidx = [own_sorted.index(ph)]
        elif len(own_sorted) == 1:
            mat = (s.mol if which else s.imol.data) if sel == 'mol' else (s.mass if which else s.imass.data)
            vidx = [0]
        else:
            mat = s.imol.data if sel == 'mol' else s.imass.data
            vidx = list(range(len(own_sorted)))
        all_b = self.stream_rows(s).copy()
        MW = rchems.MW
        try:
            react(mat)
        except Exception as ex:
            ec = err_class(ex)
            vb = all_b[vidx]
            if ec == 'BasisMix' and self.mixed_basis(e):
                pass
            elif ec == 'Infeasible' and not force:
                self.check_raise(obj, e, vb * MW if sel == 'mass' else vb, ec, fail, rchems, basis, array=True)
            else:
                fail('unexpected-exception', f'{type(ex).__name__}: {str(ex)[:120]} — on a view of a stream of the '
                                             f"object's own package")
            return 'err=' + ec
        all_a = self.stream_rows(s)
        rest = [j for j in range(all_b.shape[0]) if j not in vidx]
        if rest and (all_a[rest] != all_b[rest]).any():
            fail('view-other-phase-changed', 'reacting the flows of one phase changed another phase of the stream')
        mol_b, mol_a = all_b[vidx], all_a[vidx]
        raw_b = mol_b * MW if sel == 'mass' else mol_b
        raw_a = mol_a * MW if sel == 'mass' else mol_a
        if (sel == 'mass') == (basis == 'wt'):
            self.oracle(obj, e, name, rchems, mol_b, mol_a, raw_b, raw_a, fail, basis, stream=None, force=force)
        return 'out=' + frows(mol_a)

    @staticmethod
    def to_package(rows, src, dst):
        """rows laid out by Chemicals `src` moved to the layout of `dst` (by CAS); None if a non-zero flow has no place"""
        out = np.zeros((rows.shape[0], dst.size))
        index = {cas: j for j, cas in enumerate(dst.CASs)}
        for j, cas in enumerate(src.CASs):
            col = rows[:, j]
            if cas in index: out[:, index[cas]] = col
            elif col.any(): return None
        return out

    def in_quantifier(self, name, obj, ph, before, schems, rchems):
        """the stream is one the property quantifies over for this object: matching phases, every flowing chemical
        known to the reaction's package, every chemical the reactions touch known to the stream's package"""
        if obj._phases:
            if tuple(sorted(ph)) != tuple(obj._phases): return False
        elif len(ph) != 1:
            return False
        if schems is rchems: return True
        if self.to_package(before, schems, rchems) is None: return False
        try:
            return self.touched(name) <= set(schems.CASs)
        except NoRef:
            return False

    def mixed_basis(self, e):
        """a ReactionSystem one of whose member Reaction objects has been switched to another basis since"""
        if e['kind'] != 'sys': return False
        b = e['obj']._basis
        def plain_bases(entry):
            out = []
            for m in entry['members']:
                me = self.objs[m]
                if me['kind'] == 'single': out.append(me['obj']._basis)
                elif me['kind'] == 'sys': out.append(me['obj']._basis); out.extend(plain_bases(me))
            return out
        try:
            return any(x != b for x in plain_bases(e))
        except NoRef:
            return False

    def expected_delta(self, obj, vals):
        """feed + what the real `conversion` reports (real code, array path), in the object's own layout"""
        v = np.array(vals, float)
        arr = v[0].copy() if (v.shape[0] == 1 and not obj._phases) else v.copy()
        d = obj._conversion(SparseVector(arr) if arr.ndim == 1 else SparseArray(arr))
        d = np.asarray(d.to_array() if hasattr(d, 'to_array') else d, float)
        return d if d.ndim == 2 else d[None, :]

    def check_raise(self, obj, e, vals, ec, fail, rchems, basis, array):
        if ec != 'Infeasible':
            return
        try:
            exp = np.array(vals, float) + self.expected_delta(obj, vals)
        except Exception:
            return
        neg = exp[exp < 0].sum()
        # (an entry that ends within round-off of zero may come out one ulp negative, and with flows above
        # ~1e4 one ulp already exceeds the absolute 1e-12: a float-level effect, not judged here)
        vs = max(1., float(np.abs(exp).max()), float(np.abs(np.array(vals, float)).max()))
        changed = np.array(vals, float) != exp
        if (changed & (np.abs(exp) <= 1e-9 * vs)).any():
            return
        if neg > -0.5e-12:
            fail('raise-not-required', f'InfeasibleRegion raised although no flow would go below -1e-12 '
                                       f'(negatives sum to {neg!r})')

    def touched(self, name):
        """CAS numbers of the chemicals with a non-zero coefficient in any reaction of the object"""
        e = self.objs[name]
        if e['kind'] == 'single':
            rxn = e['obj']
            arr = np.asarray(rxn._stoichiometry.to_array(), float)
            cols = np.where(arr.any(0))[0] if arr.ndim == 2 else np.where(arr)[0]
            CASs = rxn.chemicals.CASs
            return {CASs[int(j)] for j in cols}
        out = set()
        for m in e['members']: out |= self.touched(m)
        return out

    def oracle(self, obj, e, name, chems, mol_b, mol_a, raw_b, raw_a, fail, basis, stream, mass=None, other=False,
               force=False, rchems=None):
        A = chems.formula_array
        MW = chems.MW
        scale = max(1., float(np.abs(mol_b).max()), float(np.abs(mol_a).max()))
        # a system whose members no longer share one basis must refuse to run
        if self.mixed_basis(e):
            bases = [self.objs[m]['obj']._basis for m in e['members']]
            fail('mixed-basis-applied', f'the by-{obj._basis} system was applied although its members are now by '
                 f'{bases} (mass {float(MW @ mol_b.sum(0))!r} -> {float(MW @ mol_a.sum(0))!r})')
            return
        # chemicals that no reaction mentions keep their flows, phase by phase
        try:
            tch = self.touched(name)
            for j, cas in enumerate(chems.CASs):
                # (the weight basis routes every flow through mass and back: one ulp of slack there)
                slack = 1e-12 * max(1., float(np.abs(mol_b[:, j]).max())) if basis == 'wt' else 0.
                if cas not in tch and (np.abs(mol_b[:, j] - mol_a[:, j]) > slack).any():
                    fail('bystander-changed', f'{chems.IDs[j]} takes part in no reaction but its flow changed '
                                              f'{mol_b[:, j].tolist()!r} -> {mol_a[:, j].tolist()!r}')
                    return
        except NoRef:
            pass
        # the clauses about amounts are evaluated in the reaction's own layout and basis
        inq = stream is not None and self.in_quantifier(name, obj, stream[1], mol_b, chems, rchems)
        if stream is not None and not inq:
            vals_b = vals_a = None
        elif stream is not None and other:
            # a stream of another package: the same flows, chemical by chemical, in the reaction's layout
            vals_b = self.to_package(mol_b, chems, rchems)
            vals_a = self.to_package(mol_a, chems, rchems)
            if vals_a is None:
                vals_b = None
            elif basis == 'wt':
                vals_b = vals_b * rchems.MW; vals_a = vals_a * rchems.MW
        elif stream is not None:
            vals_b = mol_b * MW if basis == 'wt' else mol_b
            vals_a = mol_a * MW if basis == 'wt' else mol_a
        else:
            vals_b, vals_a = raw_b, raw_a
        if vals_b is not None:
            vs = max(1., float(np.abs(vals_b).max()), float(np.abs(vals_a).max()))
            # 0. the call did something at all
            try:
                dexp = self.expected_delta(obj, vals_b)
                if np.abs(dexp).max() > 1e-6 * vs and (vals_a == vals_b).all():
                    fail('call-has-no-effect', 'the material is unchanged although the conversion of this feed is '
                                               f'not zero (largest expected change {float(np.abs(dexp).max())!r})')
                    return
            except Exception:
                pass
        # 1. no negative flow on normal return (force_reaction deliberately keeps them)
        if not force and (mol_a < 0).any():
            fail('negative-flow', f'normal return with a negative flow {float(mol_a.min())!r}')
            return
        # 2. atoms and mass
        if e['bal']:
            at_b = A @ mol_b.sum(0); at_a = A @ mol_a.sum(0)
            tol = 1e-9 * max(1., float(np.abs(at_b).max())) + 1e-10
            if np.abs(at_a - at_b).max() > tol:
                j = int(np.abs(at_a - at_b).argmax())
                fail('atoms-not-conserved', f'element row {j}: {float(at_b[j])!r} -> {float(at_a[j])!r} '
                                            f'with a balanced stoichiometry')
                return
            mb, ma = (mass if mass else (float(MW @ mol_b.sum(0)), float(MW @ mol_a.sum(0))))
            if abs(ma - mb) > 1e-9 * max(1., abs(mb)) + 1e-9:
                fail('mass-not-conserved', f'F_mass {mb!r} -> {ma!r} with a balanced stoichiometry')
                return
        if vals_b is not None:
            # 3. a single reaction consumes X·feed of the reactant, the rest in stoichiometric proportion
            if e['kind'] == 'single':
                X = float(obj.X)
                intent = self.intent_of(name, e)
                ri = self.reactant_pos(intent, obj, e['pkg'])      # the reactant the DEFINITION names
                nr = vals_b[ri]
                d = vals_a - vals_b
                if intent is not None:
                    c = np.array([[float(F(x)) for x in r] for r in intent['nu']], float)
                    # the definition, expressed in the basis the object has now (real molecular weights)
                    MWr = obj.chemicals.MW
                    if basis == 'wt' and intent['basis'] == 'mol': c = c * MWr
                    elif basis == 'mol' and intent['basis'] == 'wt': c = c / MWr
                    cr = c[ri]
                    if cr != 0:
                        expd = nr * X * c / (-cr)
                        if force or ((vals_b + expd) >= 0).all():     # the clamp did not interfere
                            if abs(vals_a[ri] - nr * (1 - X)) > 1e-9 * vs:
                                fail('reactant-consumption', f'reactant went {float(nr)!r} -> {float(vals_a[ri])!r}, '
                                                             f'expected {float(nr * (1 - X))!r} (X={X!r})')
                                return
                            if np.abs(d - expd).max() > 1e-9 * vs:
                                j = np.unravel_index(int(np.abs(d - expd).argmax()), d.shape)
                                fail('not-stoichiometric', f'change of entry {tuple(int(x) for x in j)} is '
                                     f'{float(d[j])!r}, the definition requires {float(expd[j])!r}')
                                return
            # 4. parallel: every member from the feed; series/system: each on the running composition
            elif e['kind'] in ('par', 'ser', 'sys'):
                try:
                    if e['kind'] == 'sys':
                        members = [self.objs[m]['obj'] for m in e['members']]      # held by reference
                    else:
                        members = list(obj)        # the set's own items (it copied the reactions it was built from)
                    if e['kind'] == 'par':
                        exp = vals_b + sum(self.expected_delta(m, vals_b) for m in members)
                    else:
                        exp = vals_b.copy()
                        for m in members: exp = exp + self.expected_delta(m, exp)
                except Exception:
                    exp = None
                if exp is not None and (force or (exp >= 0).all()) and np.abs(exp - vals_a).max() > 1e-9 * vs:
                    j = np.unravel_index(int(np.abs(exp - vals_a).argmax()), exp.shape)
                    what = {'par': 'the sum of its members applied to the feed',
                            'ser': 'its members applied one after the other',
                            'sys': 'its members applied one after the other'}[e['kind']]
                    fail({'par': 'parallel-not-from-feed', 'ser': 'series-not-running',
                          'sys': 'system-not-sequential'}[e['kind']],
                         f'entry {tuple(int(x) for x in j)}: got {float(vals_a[j])!r}, {what} gives {float(exp[j])!r}')
                    return
            # 5. a normal return although a flow had to go clearly negative
            try:
                exp = vals_b + self.expected_delta(obj, vals_b)
                # (the code's own threshold is an absolute 1e-12; allow for the round-off of this recomputation)
                if not force and exp[exp < 0].sum() < -(1e-11 + 1e-13 * vs):
                    fail('missing-raise', f'returned normally although the conversion requires negative flows '
                                          f'(sum {float(exp[exp < 0].sum())!r})')
                    return
                if not force and exp[exp < 0].sum() < -1.001e-12:
                    # inside the round-off window of this recomputation: counts only where the driver finds every
                    # intermediate exactly representable (filter_failures)
                    fail('missing-raise', f'returned normally although the negative flows sum to '
                                          f'{float(exp[exp < 0].sum())!r} < -1e-12', only_if_exact=True)
                    return
                if force and (vals_a < 0).any():
                    # force_reaction / CHECK_FEASIBILITY=False promise to drop negatives that are negligible
                    # against the total (x / Σ|x| > -1e-16)
                    tot = float(np.abs(vals_a).sum())
                    neg = vals_a[vals_a < 0]
                    if tot > 1e-16 and (neg / tot > -0.5e-16).any():
                        fail('negligible-negative-left', f'a negligible negative flow {float(neg.max())!r} '
                                                         f'(total {tot!r}) was left in the material')
                        return
            except Exception:
                pass
        # 6. mol and wt basis act identically on a stream
        if inq:
            tw = self.twin(name)
            if tw is not None:
                k, ph, rows = stream
                s2 = self.make_stream(k, ph, rows)
                try:
                    (tw.force_reaction if force else tw)(s2)       # (nocheck: the same code path)
                except Exception as ex:
                    if err_class(ex) != 'Infeasible' or mol_a.min() > 1e-9 * scale:
                        fail('basis-disagree', f'the {tw._basis}-basis version raises {type(ex).__name__} '
                                               f'where the {basis}-basis version returns')
                    return
                a2 = self.stream_rows(s2)
                if np.abs(a2 - mol_a).max() > 1e-9 * scale:
                    j = np.unravel_index(int(np.abs(a2 - mol_a).argmax()), a2.shape)
                    fail('basis-disagree', f'entry {tuple(int(x) for x in j)}: {basis} basis gives {float(mol_a[j])!r}, '
                                           f'{tw._basis} basis gives {float(a2[j])!r}')


def run_impl(case: Case) -> ImplResult:
    W = World(case.meta)
    outs, failures, model_in, tags = [], [], [], set()
    changed = False
    for i, line in enumerate(case.ops):
        toks = line.split()
        model_in.append(pkg_line(int(toks[1])) if toks[0] == 'pkg' else line)
        try:
            o = W.apply(line, i, failures)
        except NoRef:
            # a name that was never defined (after shrinking, or after a failed constructor)
            o = 'noref'
        except Exception as ex:
            o = 'err=' + err_class(ex)
        outs.append(o)
        tags.add(toks[0] if toks[0] != 'call' else 'call:' + toks[2])
        if toks[0] == 'call':
            if kv(toks, 'mode') == 'force': tags.add('call:force')
            if kv(toks, 'mode') == 'nocheck': tags.add('call:nocheck')
            if kv(toks, 'mode') == 'conversion': tags.add('call:conversion')
            if toks[2] == 'view':
                tags.add(f'call:view-{kv(toks, "sel")}' + ('-phase' if kv(toks, 'own') else ''))
            if toks[1] in W.objs and any(W.objs[m]['kind'] == 'sys' for m in W.objs[toks[1]]['members'] if m in W.objs):
                tags.add('call:nested-system')
            if toks[1] in W.objs and W.objs[toks[1]]['kind'] == 'sys' and W.mixed_basis(W.objs[toks[1]]):
                tags.add('call:sys-after-member-basis-change')
            if toks[2] == 'arr':
                tags.add(f'call:arr-{kv(toks, "as", "nd")}{"2d" if ";" in kv(toks, "rows", "") else "1d"}')
            elif toks[2] == 'stream':
                if len(kv(toks, 'ph', 'l')) > 1: tags.add('call:stream-multi')
                e_ = W.objs.get(toks[1]) if toks[1] in W.objs else None
                if e_ is not None:
                    if e_['pkg'] != int(kv(toks, 'pkg')): tags.add('call:stream-otherpkg')
                    tags.add('call:stream-' + e_['obj']._basis)
            e_ = W.objs.get(toks[1]) if toks[1] in W.objs else None
            if e_ is not None and e_.get('recipe') and len(e_['recipe']) > 1 and 'alias' in e_: tags.add('call:on-copy')
            if any(v.get('alias') == toks[1] for v in W.objs.values()): tags.add('call:on-original-of-copy')
        elif toks[0] == 'rxn':
            tags.add('def:' + kv(toks, 'def'))
            if kv(toks, 'basis') == 'wt': tags.add('def:on-weight-basis')
            if kv(toks, 'correct') == '1': tags.add('balance:constructor-flag')
        elif toks[0] == 'repkg':
            tags.add('repkg')
        elif toks[0] == 'massbal':
            tags.add('massbal')
        elif toks[0] == 'balance':
            cs = kv(toks, 'constants', '-')
            tags.add('balance:constants-' + ('default' if cs == '-' else ('two' if ',' in cs else 'one')))
            if kv(toks, 'r') == 'auto': tags.add('reactant:auto')
        if o.startswith('err='): tags.add(o)
        if toks[0] == 'call' and o.startswith('out='):
            if o == 'out=?' or parse_rows(o[4:]) != parse_rows(kv(toks, 'rows')): changed = True
    return ImplResult(model_in=model_in, outs=outs, failures=failures, tags=sorted(tags),
                      nontrivial=(tuple(case.ops) if changed else None))


# --------------------------------------------------------------------------
# comparison
# --------------------------------------------------------------------------

def fields(line):
    return dict(t.split('=', 1) for t in line.split() if '=' in t)


def rows_close(a, b):
    try:
        ra, rb = parse_rows(a), parse_rows(b)
    except Exception:
        return False
    if len(ra) != len(rb) or any(len(x) != len(y) for x, y in zip(ra, rb)): return False
    scale = max([1] + [abs(x) for r in rb for x in r])
    for x, y in zip(itertools.chain(*ra), itertools.chain(*rb)):
        if abs(x - y) > F(1, 10**9) * scale: return False
    return True


def compare(impl_line, model_line):
    if impl_line == 'noref' or model_line == 'noref':
        return impl_line == model_line
    fi, fm = fields(impl_line), fields(model_line)
    if not fm and not fi:
        return impl_line == model_line
    exact = fm.get('exact') == '1'
    if 'err' in fi or 'err' in fm:
        if fi.get('err') == fm.get('err'): return True
        # where a changed entry ends within round-off of zero, floating point may decide the
        # -1e-12 threshold differently (tolerance mode only; exact mode is never lenient)
        if not exact and fm.get('fragile', '0') != '0' and {fi.get('err'), fm.get('err')} == {None, 'Infeasible'}:
            return True
        # ... and a round-off residue of a chemical the stream's package lacks cannot be written back
        if not exact and fm.get('fragile') == '2' and \
                ((fi.get('err') == 'UndefinedChemical' and 'out' in fm) or
                 (fm.get('err') == 'UndefinedChemical' and 'out' in fi)):
            return True
        # ... and where the model's write-back raises UndefinedChemical, round-off may raise Infeasible first
        if not exact and fm.get('fragile', '0') != '0' and \
                {fi.get('err'), fm.get('err')} == {'Infeasible', 'UndefinedChemical'}:
            return True
        return False
    for key in ('out', 'nu'):
        if (key in fi) != (key in fm): return False
        if key in fi:
            if exact:
                if fi[key] != fm[key]: return False
            elif not rows_close(fi[key], fm[key]): return False
    for key in ('r', 'ph', 'bal', 'mw', 'chk'):
        if key in fm and fi.get(key) != fm.get(key): return False
    if impl_line.startswith('ok') != model_line.startswith('ok'): return False
    return True


def filter_failures(res, model_out):
    """an oracle failure that rests on a recomputation inside its own round-off window counts only where the driver
    found every intermediate of that line exactly representable"""
    keep = []
    for f in res.failures:
        if f.get('only_if_exact'):
            i = f['op_index']
            if not (i < len(model_out) and fields(model_out[i]).get('exact') == '1'): continue
        keep.append(f)
    return keep


def model_tags(line):
    f = fields(line)
    t = []
    if 'exact' in f and ('out' in f or 'nu' in f): t.append(('call' if 'out' in f else 'rxn') + ':exact=' + f['exact'])
    if 'tag' in f: t.append('feas:' + f['tag'])
    if f.get('fragile', '0') != '0' and f.get('exact') == '0': t.append('fragile-tolerance')
    if 'bal' in f: t.append('bal=' + f['bal'])
    if 'err' in f: t.append('err:' + f['err'])
    return t


def disagree_signature(case, res, first):
    line = res.model_in[first] if first < len(res.model_in) else ''
    toks = line.split()
    if not toks: return 'disagree:length'
    if toks[0] == 'call':
        extra = ''
        if toks[2] == 'stream':
            extra = ('-multi' if len(kv(toks, 'ph', 'l')) > 1 else '')
        else:
            extra = '-' + kv(toks, 'as', 'nd')
        return f'disagree:call-{toks[2]}{extra}'
    return 'disagree:' + toks[0]


# --------------------------------------------------------------------------
# generation
# --------------------------------------------------------------------------

_NS_CACHE = {}


def nullspace(cols):
    """rational null-space basis of the formula matrix restricted to the universal chemicals `cols`"""
    key = tuple(cols)
    if key in _NS_CACHE: return _NS_CACHE[key]
    rows = []
    for r in ELEMS:
        rows.append([F(int(round(_atoms(u).get(r, 0) * 1000)), 1000) for u in cols])
    m, n = len(rows), len(cols)
    M = [r[:] for r in rows]
    piv, r = [], 0
    for c in range(n):
        p = next((i for i in range(r, m) if M[i][c] != 0), None)
        if p is None: continue
        M[r], M[p] = M[p], M[r]
        M[r] = [x / M[r][c] for x in M[r]]
        for i in range(m):
            if i != r and M[i][c] != 0:
                f = M[i][c]; M[i] = [a - f * b for a, b in zip(M[i], M[r])]
        piv.append(c); r += 1
        if r == m: break
    free = [c for c in range(n) if c not in piv]
    basis = []
    for fcol in free:
        v = [F(0)] * n
        v[fcol] = F(1)
        for i, c in enumerate(piv): v[c] = -M[i][fcol]
        basis.append(v)
    _NS_CACHE[key] = basis
    return basis


_ATOMS = {}


def _atoms(u):
    if u not in _ATOMS:
        from chemicals.elements import periodic_table
        _ATOMS[u] = {periodic_table[s].number - 1: n for s, n in U[u].atoms.items()}
    return _ATOMS[u]


def gen_stoich(rng, pkg_ids, balanced=True):
    """dict universal id -> Fraction (signed), at least one negative and one positive entry"""
    for _ in range(200):
        k = rng.choice([2, 3, 3, 4, 4, 5, 6])
        cols = rng.sample(pkg_ids, min(k, len(pkg_ids)))
        ns = nullspace(cols)
        if not ns: continue
        v = [F(0)] * len(cols)
        for b in rng.sample(ns, min(len(ns), rng.choice([1, 1, 1, 2]))):
            w = rng.choice([1, 1, 1, 2, -1, 3])
            v = [x + w * y for x, y in zip(v, b)]
        den = 1
        for x in v: den = den * x.denominator // math.gcd(den, x.denominator)
        v = [x * den for x in v]
        g = 0
        for x in v: g = math.gcd(g, int(x))
        if g == 0: continue
        v = [x / g for x in v]
        if max(abs(x) for x in v) > 24: continue
        if not (any(x < 0 for x in v) and any(x > 0 for x in v)): continue
        if rng.random() < 0.5: v = [-x for x in v]
        s = rng.choice([1, 1, 1, 1, F(1, 2), F(1, 4), 2, F(3, 2), F(1, 3), F(1, 10), F(1, 8)])
        v = [x * s for x in v]
        d = {u: x for u, x in zip(cols, v) if x != 0}
        if not balanced and rng.random() < 0.4:
            # replace one chemical by another with the same number of atoms but another composition:
            # the element errors then have both signs
            u = rng.choice(sorted(d))
            na = sum(U[u].atoms.values())
            alts = [v for v in pkg_ids if v not in d and sum(U[v].atoms.values()) == na and U[v].atoms != U[u].atoms]
            if not alts: continue
            d[rng.choice(alts)] = d.pop(u)
        elif not balanced:
            u = rng.choice(sorted(d))
            d[u] = d[u] + rng.choice([F(1), F(-1, 2), F(1, 4), F(2)]) * (1 if d[u] > 0 else -1)
            d = {u: x for u, x in d.items() if x != 0}
            if not (any(x < 0 for x in d.values()) and any(x > 0 for x in d.values())): continue
        return d
    return {6: F(-2), 5: F(-1), 0: F(2)}


def dec_str(rng, c):
    """a decimal literal for the positive Fraction c that Python's float() reads back (exactly when dyadic)"""
    d = c.denominator
    while d % 2 == 0: d //= 2
    while d % 5 == 0: d //= 5
    if d != 1:
        return repr(float(c))
    if c.denominator == 1:
        s = str(c.numerator)
        r = rng.random()
        if r < 0.1: return s + '.'
        if r < 0.2: return s + '.0'
        if r < 0.25: return s + 'e0'
        return s
    # finite decimal expansion
    k = 0
    x = c
    while x.denominator != 1:
        x *= 10; k += 1
    digits = str(x.numerator).rjust(k + 1, '0')
    s = digits[:-k] + '.' + digits[-k:]
    r = rng.random()
    if r < 0.15 and s.startswith('0.'): return s[1:]
    if r < 0.25: return f'{x.numerator}e-{k}'
    return s


def render_str(rng, d, names_of, phase_of=None):
    sp = rng.random() < 0.7
    def term(u, c):
        name = rng.choice(names_of(u))
        if phase_of: name += ',' + phase_of[u]
        c = abs(c)
        if c == 1 and rng.random() < 0.85: return name
        return dec_str(rng, c) + (' ' if (sp and rng.random() < 0.8) else '') + name
    items = list(d.items())
    rng.shuffle(items)
    left = [term(u, c) for u, c in items if c < 0]
    right = [term(u, c) for u, c in items if c > 0]
    plus = ' + ' if sp else '+'
    arrow = ' -> ' if sp else '->'
    return plus.join(left) + arrow + plus.join(right)


def gen_rxn(rng, name, k, phases, intent_out, force_basis=None, exact_bias=False, bad=None, define_wt=False,
            rebalance=None):
    """returns list of op lines defining reaction `name` on package k.
    `bad` (malformed stream only): 'noreactant' | 'auto-many' | 'phase-kw' | 'x-out'"""
    ids = PKGS[k]['ids']
    balanced = rng.random() < 0.9 or bool(rebalance)
    d = gen_stoich(rng, ids, balanced)
    if rebalance:
        # the balanced direction must be the only one over the chemicals that take part
        for _ in range(60):
            if len(nullspace(sorted(d))) == 1: break
            d = gen_stoich(rng, ids, True)
        if len(nullspace(sorted(d))) != 1: rebalance = None
    if bad == 'auto-many':
        for _ in range(50):
            if sum(1 for c in d.values() if c < 0) >= 2: break
            d = gen_stoich(rng, ids, balanced)
    part = sorted(d)
    negs = [u for u in part if d[u] < 0]
    if bad == 'noreactant':
        others = [u for u in ids if u not in d]
        ru = rng.choice(others) if others else negs[0]
    elif rng.random() < 0.15:
        ru = rng.choice(part)                      # also a product-side species may be the "reactant"
    else:
        ru = rng.choice(negs)
        if exact_bias:
            # prefer a reactant that keeps every ratio dyadic
            good = [u for u in negs if all(_is_dyadic(d[v] / d[u]) for v in part)]
            if good: ru = rng.choice(good)
    auto = len(negs) == 1 and ru == negs[0] and rng.random() < 0.5
    if bad == 'auto-many': auto = True              # several reactants and reactant=None → ValueError
    X = rng.choice([F(0), F(1), F(1), F(1, 2), F(1, 4), F(3, 4)] + [F(j, 16) for j in range(17)]
                   + [F(j, 64) for j in (1, 63, 37)])
    if bad == 'x-out': X = rng.choice([F(5, 4), F(2), F(-1, 4)])
    elif rng.random() < 0.05: X = F(float(rng.random()))
    names_of = lambda u: [U[u].ID] + (ALIASES.get(U[u].ID, []) if rng.random() < 0.2 else [])
    phase_of = None
    phases_kw = '-'
    if phases:
        phase_of = {u: rng.choice(phases) for u in part}
        used = ''.join(sorted(set(phase_of.values())))
        if used != ''.join(sorted(phases)) or rng.random() < 0.4:
            phases_kw = ''.join(rng.sample(phases, len(phases)))
        if bad == 'phase-kw':
            # the reaction only knows the phases it mentions → phases mismatch later
            for _ in range(20):
                if 1 < len(set(phase_of.values())) < len(phases): break
                phase_of = {u: rng.choice(phases) for u in part}
            if 1 < len(set(phase_of.values())) < len(phases): phases_kw = '-'
    how = rng.random()
    basis = force_basis or 'mol'
    d_true = d
    constants = '-'
    if rebalance:
        # what is written is NOT balanced: the coefficients of the chemicals that are not held constant are off by
        # random positive factors; correct_atomic_balance(constants) has to come back to the balanced direction
        r3 = rng.random()
        if rebalance == 'ctor' or r3 < 0.35: held = [ru]; constants = '-'
        elif r3 < 0.8: held = [rng.choice(part)]; constants = U[held[0]].ID
        else: held = rng.sample(part, min(2, len(part))); constants = ','.join(U[u].ID for u in held)
        g = rng.choice([F(1), F(1), F(2), F(1, 2), F(3)])
        d = {u: (c * g if u in held else c * rng.choice([F(1, 2), F(2), F(3), F(1, 4), F(3, 2), F(5)]))
             for u, c in d_true.items()}
    if how < 0.6:
        dk, payload = 'str', render_str(rng, d, names_of, phase_of)
    elif phases and how > 0.9 and not rebalance and not bad:
        dk = 'xarr'          # Reaction([[…], […]], phases=…): rows in the order of the sorted phases
        phases_kw = ''.join(rng.sample(phases, len(phases)))
        ptx = sorted(phases_kw)
        rowsx = [[F(0)] * len(ids) for _ in ptx]
        for u, c in d.items(): rowsx[ptx.index(phase_of[u])][ids.index(u)] = F(float(c))
        payload = frows(rowsx)
        auto = False
    elif phases:
        dk = 'xdict'
        payload = ','.join(f'{rng.choice(names_of(u))}:{phase_of[u]}:{frac(float(c))}' for u, c in d.items())
    else:
        dk = 'dict'
        items = [(rng.choice(names_of(u)), c) for u, c in d.items()]
        if rng.random() < 0.1:
            spare = [u for u in ids if u not in d]
            if spare: items.append((U[rng.choice(spare)].ID, F(0)))     # a zero entry is dropped by the parser
        payload = ','.join(f'{n}:{frac(float(c))}' for n, c in items)
    ops = [f'rxn {name} pkg={k} basis=mol X={frac(float(X))} r={"auto" if auto else U[ru].ID} phases={phases_kw} '
           f'def={dk} | {payload}']
    # what the definition means, for the end-to-end oracle (rows by sorted phase, package order)
    pt = sorted(phases_kw if phases_kw != '-' else (set(phase_of.values()) if phase_of else ''))
    nrows = max(1, len(pt))
    nu = [[F(0)] * len(ids) for _ in range(nrows)]
    for u, c in d_true.items():
        row = pt.index(phase_of[u]) if phase_of else 0
        nu[row][ids.index(u)] = F(float(c)) if not rebalance else c
    intent_out[name] = {'nu': [[str(x) for x in r] for r in nu], 'basis': 'mol', 'reactant': ru}
    if rebalance:
        xs = ';'.join(','.join(str(x) for x in r) for r in nu)
        if rebalance == 'ctor':
            ops[0] = ops[0].replace(' def=', f' correct=1 x={xs} def=', 1)
        else:
            if basis == 'wt' and rng.random() < 0.5:
                ops.append(f'setbasis {name} wt'); basis = 'mol'        # balance on the weight basis
            ops.append(f'balance {name} constants={constants} x={xs}')
        d = d_true
    if basis == 'wt' and define_wt:
        # DEFINED on the weight basis: the constructor gets mass coefficients ν_j·MW_j and basis='wt'
        MW = PKGS[k]['chems'].MW
        dw = {u: F(float(c) * float(MW[ids.index(u)])) for u, c in d.items()}
        if dk == 'str': payload = render_str(rng, dw, names_of, phase_of)
        elif dk == 'xdict':
            payload = ','.join(f'{rng.choice(names_of(u))}:{phase_of[u]}:{frac(float(c))}' for u, c in dw.items())
        elif dk == 'xarr':
            rowsx = [[F(0)] * len(ids) for _ in pt]
            for u, c in dw.items(): rowsx[pt.index(phase_of[u])][ids.index(u)] = c
            payload = frows(rowsx)
        else:
            payload = ','.join(f'{rng.choice(names_of(u))}:{frac(float(c))}' for u, c in dw.items())
        ops = [f'rxn {name} pkg={k} basis=wt X={frac(float(X))} r={"auto" if auto else U[ru].ID} '
               f'phases={phases_kw} def={dk} | {payload}']
        nuw = [[F(0)] * len(ids) for _ in range(nrows)]
        for u, c in dw.items():
            row = pt.index(phase_of[u]) if phase_of else 0
            nuw[row][ids.index(u)] = c
        intent_out[name] = {'nu': [[str(x) for x in r] for r in nuw], 'basis': 'wt',
                            'plan': [[str(x) for x in r] for r in nu], 'reactant': ru}
    elif basis == 'wt':
        ops.append(f'setbasis {name} wt')
        if rng.random() < 0.1:
            ops.append(f'setbasis {name} mol'); ops.append(f'setbasis {name} wt')
    return ops, d, ru, X, pt


def _is_dyadic(q):
    d = q.denominator
    return d & (d - 1) == 0


def gen_flows(rng, npkg, nrows, want, small=False):
    """rows of dyadic non-negative flows; `want` = list of (row, col) that should be well supplied"""
    kmax = 64 if small else 256
    rows = [[0.0] * npkg for _ in range(nrows)]
    dens = rng.choice([0.3, 0.6, 1.0])
    for i in range(nrows):
        for j in range(npkg):
            if rng.random() < dens * 0.5:
                rows[i][j] = rng.randrange(0, kmax + 1) / (1 << rng.randrange(0, 4))
    for (i, j) in want:
        if i < nrows and rng.random() < 0.9:
            rows[i][j] = rng.randrange(1, kmax + 1) / (1 << rng.randrange(0, 4))
    return rows


# ---- generator-side bookkeeping (exact, on the intended stoichiometry): which feeds a plan can digest

def _molar(intent, name):
    return intent[name].get('plan', intent[name]['nu'])


def _plan_rxn(intent, name, ru, X, rids, nrows):
    nu = [F(c) for row in _molar(intent, name)[:nrows] for c in row]
    n = len(rids)
    pos = [i for i, c in enumerate(nu) if c != 0 and rids[i % n] == ru]
    if not pos: return None
    r = pos[0]
    return ([c / (-nu[r]) for c in nu], r, X)


def _plan_apply(node, rx, v):
    kind, arg = node
    if kind == 'single':
        nu, r, X = rx[arg]
        e = v[r] * X
        return [a + e * c for a, c in zip(v, nu)]
    if kind == 'par':
        es = [v[rx[i][1]] * rx[i][2] for i in arg]
        for e, i in zip(es, arg):
            v = [a + e * c for a, c in zip(v, rx[i][0])]
        return v
    if kind == 'ser':
        for i in arg: v = _plan_apply(('single', i), rx, v)
        return v
    for m in arg: v = _plan_apply(m, rx, v)          # 'sys'
    return v


def _top_up(rng, node, rx, feed, margin):
    """raise the feed where the plan would leave a negative flow; returns (feed, result)"""
    for _ in range(8):
        res = _plan_apply(node, rx, feed)
        neg = [i for i, x in enumerate(res) if x < 0]
        if not neg: break
        for i in neg:
            feed[i] += -res[i] + (rng.randrange(0, 9) if margin else 0)
    return feed, _plan_apply(node, rx, feed)


MALFORMED = (['noreactant', 'auto-many', 'basis-mix', 'phase-kw'] + ['late-basis'] * 3 + ['both-sides'] * 2 +
             ['x-out', 'stream-phase', 'stream-extra', 'pkg-missing'] * 2 + ['asis', 'short'] * 3)


def gen_case(rng):
    intent = {}
    # ---- configuration: ≈80 % well-formed cases (feeds that the plan can digest, conversions in [0,1], packages
    # that know every chemical involved); ≈20 % carry exactly one malformation so that every error kind is hit
    mal = rng.choice(MALFORMED) if rng.random() < 0.2 else None
    multi = rng.random() < 0.35
    if mal == 'phase-kw': multi = True
    phases = rng.choice(PHASE_SETS) if multi else ''
    if mal == 'phase-kw': phases = 'gls'
    rk = rng.choice([0, 0, 0, 0, 1, 2, 4])
    basis = 'wt' if rng.random() < 0.3 else 'mol'
    shape = rng.choices(['single', 'par', 'ser', 'sys'], [40, 20, 20, 20])[0]
    if mal == 'late-basis': shape = rng.choice(['sys', 'sys', 'par', 'ser'])
    exact_bias = rng.random() < 0.6
    used_pkgs = [rk]
    nrx = 1 if shape == 'single' else rng.choice([1, 2, 2, 3, 3, 4])
    defs = []
    body = []
    names = []
    pts = []
    origs = []
    used_names = []          # the reaction objects that are members of the target (copies, not their originals)
    via_copy = rng.random() < 0.3
    def new_rxn(force_basis):
        name = f'r{len(names)}'
        names.append(name)
        bad = 'x-out' if (mal == 'x-out' and not defs) else None
        if via_copy and rng.random() < 0.7:
            # define on the molar basis, derive the version that is used through `copy(basis=…)` (or a copy and
            # the basis setter); the original must stay what it was defined to be and is applied as well
            o, d, ru, X, pt = gen_rxn(rng, name, rk, phases, intent, None, exact_bias, bad)
            body.extend(o); defs.append((name, d, ru, X)); pts.append(pt)
            body.append(f'copybasis {name}c {name} {force_basis or "mol"} how={rng.choice(["copy", "copy", "setter"])}')
            body.append(f'show {name}')
            origs.append((name, pt))
            used_names.append(name + 'c')
            return name + 'c', len(defs) - 1
        wtdef = force_basis == 'wt' and rng.random() < 0.35
        reb = rng.choice(['method', 'method', 'ctor']) if (not wtdef and not bad and rng.random() < 0.15) else None
        o, d, ru, X, pt = gen_rxn(rng, name, rk, phases, intent, force_basis, exact_bias, bad,
                                  define_wt=wtdef, rebalance=reb)
        body.extend(o); defs.append((name, d, ru, X)); pts.append(pt)
        used_names.append(name)
        return name, len(defs) - 1
    target = None
    if shape == 'single':
        target, i0 = new_rxn(basis)
        plan = ('single', i0)
    elif shape in ('par', 'ser'):
        ms = [new_rxn(basis) for _ in range(nrx)]
        target = 'p0' if shape == 'par' else 's0'
        body.append(f'{shape} {target} {",".join(m for m, _ in ms)}')
        plan = (shape, [i for _, i in ms])
        if mal == 'late-basis':
            # a set is independent of later changes to the reactions it was built from
            late = rng.choice(ms)[0]
            late_ops = [f'setbasis {late} {"mol" if basis == "wt" else "wt"}']
    else:
        members, nodes = [], []
        budget_rx = rng.choice([2, 3, 4])
        nsets = 0
        while budget_rx > 0:
            kind = rng.choice(['single', 'par', 'ser'])
            if kind == 'single':
                m, i0 = new_rxn(basis)
                members.append(m); nodes.append(('single', i0)); budget_rx -= 1
            else:
                m = min(budget_rx, rng.choice([1, 2, 2, 3]))
                ms = [new_rxn(basis) for _ in range(m)]
                nm = f'{"p" if kind == "par" else "s"}{nsets}'; nsets += 1
                body.append(f'{kind} {nm} {",".join(x for x, _ in ms)}')
                members.append(nm); nodes.append((kind, [i for _, i in ms])); budget_rx -= m
        if mal == 'late-basis' and not any(k == 'single' for k, _ in nodes):
            m, i0 = new_rxn(basis)
            members.append(m); nodes.append(('single', i0))
        kwb = f' basis={basis}' if rng.random() < 0.15 else ''
        if len(members) >= 2 and rng.random() < 0.25:
            # a system inside a system
            cut = rng.randrange(1, len(members))
            body.append(f'sys yin {",".join(members[:cut])}')
            members = ['yin'] + members[cut:]
            nodes = [('sys', nodes[:cut])] + nodes[cut:]
        target = 'y0'
        body.append(f'sys {target} {",".join(members)}{kwb}')
        plan = ('sys', nodes)
        if mal == 'late-basis':
            # the system keeps references: a member Reaction is switched to the other basis after the system
            # was built (→ the system must refuse to run), sometimes switched back (→ it runs again)
            singles = [m for m, (k, _) in zip(members, nodes) if k == 'single']
            if not singles or rng.random() < 0.3:
                # a reaction inside a member set (or inside the inner system): plain members of a system, at
                # any depth, make it refuse; sets are unaffected
                singles = list(used_names)
            late = rng.choice(singles)
            other_b = 'mol' if basis == 'wt' else 'wt'
            late_ops = [f'setbasis {late} {other_b}']
    # ---- malformed definitions live next to the target so that the calls below still run
    extra = []
    dup_names = []
    # ---- the reaction is moved to another property package with the public reset_chemicals (single reactions)
    rk_orig = rk
    if shape == 'single' and not mal and not origs and rng.random() < 0.25:
        touched0 = {u for (_, d, _, _) in defs for u in d}
        knows0 = [k for k in PKGS if PKGS[k]['ids'] != PKGS[rk]['ids'] and touched0 <= set(PKGS[k]['ids'])]
        if knows0:
            rk = rng.choice(knows0)
            body.append(f'repkg {target} {rk}')
            if rk not in used_pkgs: used_pkgs.append(rk)
    if mal in ('noreactant', 'auto-many', 'phase-kw'):
        o, *_ = gen_rxn(rng, 'rb', rk, phases, {}, None, exact_bias, mal)
        extra += o
        extra.append(f'{rng.choice(["par", "ser"])} pb {names[0] if basis == "mol" and not via_copy else "rb"},rb')
        if mal == 'phase-kw':
            extra.append(f'call rb stream pkg={rk} ph={"".join(sorted(phases))} '
                         f'rows={frows([[1.0] * len(PKGS[rk]["ids"])] * len(phases))}')
    elif mal == 'both-sides':
        # a chemical written twice — on both sides of the arrow or twice on one side: the parsers must refuse
        # (`chemicals can only appear once in a reaction`), never merge or overwrite
        dd = gen_stoich(rng, PKGS[rk]['ids'], True)
        us = sorted(dd)
        u = rng.choice(us)
        ph_of = {v: rng.choice(phases) for v in us} if phases else None
        nm = lambda v: U[v].ID + (',' + ph_of[v] if ph_of else '')
        def term(v, c):
            c = abs(c)
            return (dec_str(rng, c) + ' ' if c != 1 else '') + nm(v)
        left = [term(v, c) for v, c in dd.items() if c < 0]
        right = [term(v, c) for v, c in dd.items() if c > 0]
        extra_c = rng.choice([F(1), F(2), F(1, 2), F(3)])
        where = rng.random()
        if where < 0.7:
            (right if dd[u] < 0 else left).append(term(u, extra_c))      # on both sides of the arrow
        else:
            (left if dd[u] < 0 else right).append(term(u, extra_c))      # twice on its own side
        rng.shuffle(left); rng.shuffle(right)
        rr = rng.choice([v for v in us if dd[v] < 0])
        kwp = ''.join(sorted(phases)) if phases else '-'
        extra.append(f'rxn rb pkg={rk} basis=mol X=1/2 r={U[rr].ID} phases={kwp} def=str | '
                     f'{" + ".join(left)} -> {" + ".join(right)}')
        dup_names.append('rb')
    elif mal == 'basis-mix':
        o, *_ = gen_rxn(rng, 'rb', rk, phases, {}, 'wt', exact_bias)
        o2, *_ = gen_rxn(rng, 'rc', rk, phases, {}, 'mol', exact_bias)
        extra += o + o2 + [f'{rng.choice(["par", "ser", "sys"])} pb rb,rc']
    # ---- calls
    rids = PKGS[rk_orig]['ids']
    now_ids = PKGS[rk]['ids']
    n = len(rids)
    nrows = max(1, len(pts[0]))
    def relayout(rows):
        """rows in the layout of the package the reaction was defined on → its current package"""
        if rk == rk_orig: return rows
        out = [[0.0] * len(now_ids) for _ in rows]
        for i_, row in enumerate(rows):
            for j_, x in enumerate(row):
                if x and rids[j_] in now_ids: out[i_][now_ids.index(rids[j_])] = x
        return out
    rx = [_plan_rxn(intent, name, ru, X, rids, nrows) for (name, d, ru, X) in defs]
    plannable = all(r is not None for r in rx) and all(pt == pts[0] for pt in pts)
    touched = {u for (_, d, _, _) in defs for u in d}
    calls = []
    for _ in range(rng.choice([1, 1, 2, 3])):
        r = rng.random()
        if r < 0.3 and mal not in ('stream-phase', 'stream-extra', 'pkg-missing'):
            mk = 'arr'; sk = rk
        else:
            mk = 'stream'
            sk = rk
            if rng.random() > 0.7 or mal in ('stream-extra', 'pkg-missing'):
                knows = [k for k in PKGS if k != rk and touched <= set(PKGS[k]['ids'])]
                lacks = [k for k in PKGS if k != rk and not touched <= set(PKGS[k]['ids'])]
                if mal == 'pkg-missing' and lacks: sk = rng.choice(lacks)
                elif knows: sk = rng.choice(knows)
        if sk not in used_pkgs: used_pkgs.append(sk)
        sids = PKGS[sk]['ids']
        # flows in the reaction package first, moved to the stream package afterwards
        want = []
        for (name, d, ru, X) in defs:
            nu = _molar(intent, name)
            for i, row in enumerate(nu):
                for j, c in enumerate(row):
                    if F(c) < 0 or rids[j] == ru: want.append((i, j))
        srows_phases = phases
        if mk == 'stream' and mal == 'stream-phase':
            # phase mismatch in either direction
            srows_phases = rng.choice([p for p in PHASE_SETS + ['l', 'g'] if p != phases])
            if phases and rng.random() < 0.6:
                # a strict superset / subset of the reaction's phases (rows would shift or be missing)
                alts = [p for p in ['gls', 'gl', 'ls', 'gs', 'g', 'l', 's']
                        if p != phases and (set(p) > set(phases) or set(p) < set(phases))]
                if alts: srows_phases = rng.choice(alts)
        n_srows = max(1, len(srows_phases)) if mk == 'stream' else nrows
        base = gen_flows(rng, n, nrows, want, small=not exact_bias)
        if mk == 'stream' and mal != 'pkg-missing':
            for row in base:
                for j, u in enumerate(rids):
                    if u not in sids: row[j] = 0.0          # the stream's package does not know this chemical
        # feasibility shaping (generator-side exact arithmetic on the intended stoichiometry)
        if mal in ('asis', 'short'): variant = mal
        else: variant = rng.choices(['rich', 'limit', 'clamp'], [76, 13, 11])[0]
        if plannable and variant != 'asis':
            feed = [F(x) for row in base for x in row]
            feed, res = _top_up(rng, plan, rx, feed, margin=(variant == 'rich'))
            if variant in ('clamp', 'short'):
                # one flow that the plan uses up completely is offered a little short
                zero = [i for i, (a, b) in enumerate(zip(feed, res)) if b == 0 and a > 0]
                if zero:
                    i = rng.choice(zero)
                    cut = F(1, 2**rng.choice([45, 41, 50, 40, 40])) if variant == 'clamp' else \
                        F(1, 2**rng.choice([1, 3, 8, 12, 20, 30, 38, 39, 39]))
                    if feed[i] > cut and float(feed[i] - cut) != float(feed[i]): feed[i] -= cut
            if all(abs(x) < 2**40 for x in feed):
                base = [[float(x) for x in feed[i * n:(i + 1) * n]] for i in range(nrows)]
        # move to the stream's package / phase layout
        mode = rng.choices(['', ' mode=force', ' mode=nocheck'], [80, 12, 8])[0]
        if shape == 'single' and not mal and rng.random() < 0.04: mode = ' mode=conversion'
        if mode in (' mode=force', ' mode=nocheck') and variant == 'clamp' and plannable:
            # a large inert flow makes the clamped residue negligible against the total (x / Σ|x| > -1e-16), which
            # force_reaction / CHECK_FEASIBILITY=False promise to drop
            inert = [j for j, u in enumerate(rids) if u not in touched and (mk != 'stream' or u in sids)]
            if inert: base[0][rng.choice(inert)] = float(2**rng.choice([24, 30]))
        if mk == 'arr' and not mal and basis == 'mol' and variant == 'rich' and rng.random() < 0.3:
            base = [[float(math.ceil(x)) for x in r] for r in base]      # (more supply never hurts a rich feed)
        if mk == 'arr' and rng.random() < 0.4 and not mal:
            # the array is a view of a stream of the reaction's package: stream.mol / stream.mass /
            # imol.data / imass.data / the flows of one phase of a MultiStream
            sel = 'mass' if basis == 'wt' else 'mol'
            if phases:
                calls.append(f'call {target} view sel={sel} ph={"".join(sorted(phases))}{mode} rows={frows(relayout(base))}')
            elif rng.random() < 0.35:
                own = rng.choice(PHASE_SETS)
                calls.append(f'call {target} view sel={sel} ph={rng.choice(own)} own={own}{mode} rows={frows(relayout(base))}')
            else:
                calls.append(f'call {target} view sel={sel} ph={rng.choice("lgs")}{mode} rows={frows(relayout(base))}')
        elif mk == 'arr':
            how = 'sp' if rng.random() < 0.25 else 'nd'
            if mode != ' mode=conversion' and basis == 'mol' and all(float(x).is_integer() for r in base for x in r) \
                    and rng.random() < 0.5:
                how = 'int'                       # an integer ndarray
            elif nrows == 1 and rng.random() < 0.08:
                how = 'list'                      # a plain Python list
            if basis == 'wt' and not mal:
                # an array handed to a weight-basis object holds masses
                MWr = [float(x) for x in PKGS[rk_orig]['chems'].MW]
                base = [[x * m for x, m in zip(row, MWr)] for row in base]
            calls.append(f'call {target} arr as={how}{mode} rows={frows(relayout(base))}')
        else:
            rows = [[0.0] * len(sids) for _ in range(n_srows)]
            for i in range(min(nrows, n_srows)):
                for j, u in enumerate(rids):
                    if u in sids: rows[i][sids.index(u)] = base[i][j]
            if mal == 'stream-extra':
                # a flow of a chemical that only the stream's package has → UndefinedChemical
                only = [j for j, u in enumerate(sids) if u not in rids]
                if only: rows[0][rng.choice(only)] = float(rng.randrange(1, 9))
            ph = ''.join(sorted(srows_phases)) if srows_phases else rng.choice('lgs')
            calls.append(f'call {target} stream pkg={sk} ph={ph}{mode} rows={frows(rows)}')
    if origs:
        # the originals of the derived copies are applied too (same materials)
        if shape == 'single':
            calls = [c2 for c in calls for c2 in (c, c.replace(f'call {target} ', f'call {origs[0][0]} ', 1))]
        else:
            same = [o for o, pt in origs if pt == pts[0]]
            if same:
                calls = calls + [calls[0].replace(f'call {target} ', f'call {rng.choice(same)} ', 1)]
    if mal == 'late-basis':
        # use the system, switch a member, use it again (refused), maybe switch back and use it once more
        first = calls[:1] if rng.random() < 0.5 else []
        tail = ([f'setbasis {late} {basis}'] + [c for c in calls if c.startswith(f'call {target} ')][:1]) \
            if rng.random() < 0.4 else []
        alone = [f'call {late} ' + c.split(' ', 2)[2] for c in calls if ' view ' not in c and ' arr ' not in c][:1]
        calls = first + late_ops + alone + calls + tail
    tail_ops = []
    if not mal and rng.random() < 0.06:
        # correct_mass_balance(variable=…) on a fresh, balanced, phase-less molar reaction (not used afterwards)
        dm = gen_stoich(rng, PKGS[rk_orig]['ids'], True)
        idsm = PKGS[rk_orig]['ids']
        rum = rng.choice([u for u in dm if dm[u] < 0])
        intent['rm'] = {'nu': [[str(F(float(dm.get(u, 0)))) for u in idsm]], 'basis': 'mol', 'reactant': rum}
        tail_ops.append(f'rxn rm pkg={rk_orig} basis=mol X=1/2 r={U[rum].ID} phases=- def=dict | '
                        + ','.join(f'{U[u].ID}:{frac(float(c))}' for u, c in dm.items()))
        var = rng.choice(sorted(dm) + [None])
        tail_ops.append(f'massbal rm variable={U[var].ID if var is not None else "-"}')
    ops = [f'pkg {k}' for k in used_pkgs] + body + extra + calls + tail_ops
    meta = {'intent': intent}
    if dup_names: meta['dup'] = dup_names
    if mal: meta['malformed'] = mal
    return Case(ops, meta)


def generate(rng, tier, index, nworkers):
    b = budget(tier)
    n = max(1, b['cases'] // nworkers)
    for j in range(n):
        yield gen_case(rng)


def protect_prefix(case):
    n = 0
    for l in case.ops:
        if l.startswith('pkg'): n += 1
        else: break
    return n


def corpus():
    I = lambda **kw: {'intent': kw}
    return [
        # the doctest reactions
        Case(['pkg 0', 'rxn r0 pkg=0 basis=mol X=7/10 r=H2O phases=- def=str | 2H2O,l -> 2H2,g + O2,g',
              'call r0 stream pkg=0 ph=gl rows=0,0,0,0,0,0,0,0,0,0,0,0;100,0,0,0,0,0,0,0,0,0,0,0',
              'setbasis r0 wt',
              'call r0 stream pkg=0 ph=gl rows=0,0,0,0,0,0,0,0,0,0,0,0;100,0,0,0,0,0,0,0,0,0,0,0']),
        Case(['pkg 0', 'rxn r0 pkg=0 basis=mol X=1/2 r=H2 phases=- def=str | 2 H2 + O2 -> 2 Water',
              'rxn r1 pkg=0 basis=mol X=1/4 r=CH4 phases=- def=dict | CH4:-1,O2:-2,CO2:1,Water:2',
              'par p0 r0,r1', 'ser s0 r0,r1', 'sys y0 p0,s0,r1',
              'call p0 arr as=nd rows=0,0,0,0,0,64,16,8,0,0,0,0',
              'call s0 arr as=sp rows=0,0,0,0,0,64,16,8,0,0,0,0',
              'call y0 stream pkg=0 ph=g rows=0,0,0,0,0,64,16,8,0,0,0,0',
              'call r0 arr as=nd rows=0,0,0,0,0,1,4,0,0,0,0,0',                        # infeasible
              'call r0 arr as=nd rows=0,0,0,0,0,35184372088831/35184372088832,4,0,0,0,0,0']),  # clamp
        # stream of another package, single phase and multi-phase
        Case(['pkg 0', 'pkg 1', 'rxn r0 pkg=0 basis=mol X=1/2 r=Water phases=- def=str | 2 Water -> 2 H2 + O2',
              'call r0 stream pkg=1 ph=l rows=0,0,8,0,0,0,0,0,0,0,0,0,0,0',
              'rxn r1 pkg=0 basis=mol X=1/2 r=Water phases=- def=str | 2 Water,l -> 2 H2,g + O2,g',
              'call r1 stream pkg=1 ph=gl rows=0,1,0,0,0,0,0,0,0,0,0,0,0,0;0,0,8,0,0,0,0,0,0,0,0,0,0,0']),
        # phase-less reaction on a MultiStream; SparseArray argument
        Case(['pkg 0', 'rxn r0 pkg=0 basis=mol X=1/2 r=Water phases=- def=str | 2 Water -> 2 H2 + O2',
              'call r0 stream pkg=0 ph=gl rows=0,0,0,0,0,1,0,0,0,0,0,0;8,0,0,0,0,0,0,0,0,0,0,0']),
        # wt-basis objects on streams of another package: equal but separately compiled, permuted, superset
        Case(['pkg 0', 'pkg 3', 'pkg 4', 'pkg 1',
              'rxn r0 pkg=0 basis=mol X=5/8 r=CH4 phases=- def=str | CH4 + 2O2 -> CO2 + 2H2O', 'setbasis r0 wt',
              'rxn r1 pkg=0 basis=mol X=1/4 r=H2 phases=- def=str | 2H2 + O2 -> 2H2O', 'setbasis r1 wt',
              'par p0 r0,r1', 'ser s0 r0,r1', 'sys y0 r0,r1',
              'call r0 stream pkg=3 ph=g rows=3/2,0,0,0,0,20,4,5,0,0,0,0',
              'call p0 stream pkg=3 ph=g rows=3/2,0,0,0,0,20,4,5,0,0,0,0',
              'call r0 stream pkg=4 ph=g rows=5,0,0,3/2,20,0,0,0,0,0,4,0',
              'call s0 stream pkg=4 ph=g rows=5,0,0,3/2,20,0,0,0,0,0,4,0',
              'call r0 stream pkg=1 ph=g rows=0,20,3/2,5,0,0,0,0,4,0,0,0,0,0',
              'call y0 stream pkg=1 ph=g rows=0,20,3/2,5,0,0,0,0,4,0,0,0,0,0']),
        # a copy in the other basis leaves the original alone; both are applied
        Case(['pkg 0', 'rxn r0 pkg=0 basis=mol X=1/2 r=CH4 phases=- def=str | CH4 + 2O2 -> CO2 + 2H2O',
              'copybasis r0c r0 wt how=copy', 'show r0',
              'call r0c stream pkg=0 ph=g rows=0,0,0,0,0,20,0,5,0,0,0,0',
              'call r0 stream pkg=0 ph=g rows=0,0,0,0,0,20,0,5,0,0,0,0',
              'call r0 arr as=nd rows=0,0,0,0,0,20,0,5,0,0,0,0'],
             I(r0={'nu': [['2', '0', '0', '0', '1', '-2', '0', '-1', '0', '0', '0', '0']], 'basis': 'mol'})),
        # an integer ndarray (refused) and a plain list (works like a float array)
        Case(['pkg 0', 'pkg 1', 'rxn r0 pkg=0 basis=mol X=1/2 r=H2 phases=- def=str | 2 H2 + O2 -> 2 Water',
              'call r0 arr as=int rows=0,0,0,0,0,20,5,0,0,0,0,0',
              'call r0 arr as=list rows=0,0,0,0,0,20,5,0,0,0,0,0',
              'call r0 arr as=nd mode=conversion rows=0,0,0,0,0,20,5,0,0,0,0,0',
              'call r0 stream pkg=1 ph=g mode=conversion rows=0,20,0,0,0,0,0,0,5,0,0,0,0,0']),
        # force_reaction with a negligible negative (alone, and next to a real one)
        Case(['pkg 0', 'rxn r0 pkg=0 basis=mol X=1 r=H2 phases=- def=str | 2 H2 + O2 -> 2 Water',
              'call r0 arr as=nd mode=force rows=5,0,0,0,0,35184372088831/35184372088832,4,0,0,0,0,0',
              'call r0 stream pkg=0 ph=g mode=force rows=5,0,0,0,0,35184372088831/35184372088832,4,0,0,0,0,0',
              'call r0 arr as=nd mode=force rows=5,0,0,0,0,1,4,0,0,0,0,0',
              'rxn r1 pkg=0 basis=mol X=1 r=H2 phases=- def=str | 2 H2,g + O2,g -> 2 Water,l',
              'call r1 stream pkg=0 ph=gl mode=force rows=0,0,0,0,0,35184372088831/35184372088832,4,0,0,0,0,0;'
              '5,0,0,0,0,0,0,0,0,0,0,0']),
        # check_atomic_balance: element errors of opposite sign
        Case(['pkg 0', 'rxn r0 pkg=0 basis=mol X=1 r=H2 phases=- def=str | H2 -> O2',
              'rxn r1 pkg=0 basis=mol X=1 r=H2 phases=- def=str | 2 H2 + O2 -> 2 CO2']),
        Case(['pkg 0', 'rxn r1 pkg=0 basis=mol X=1/2 r=Water phases=- def=str | 2 Water,l -> 2 H2,g + O2,g',
              'call r1 arr as=sp rows=0,0,0,0,0,1,0,0,0,0,0,0;8,0,0,0,0,0,0,0,0,0,0,0',
              'call r1 arr as=nd rows=0,0,0,0,0,1,0,0,0,0,0,0;8,0,0,0,0,0,0,0,0,0,0,0']),
    ]


def search(case, rng, budget_s):
    """near a disagreement: other feeds for the same reaction objects"""
    import time
    t0 = time.time()
    head = [l for l in case.ops if not l.startswith('call')]
    calls = [l for l in case.ops if l.startswith('call')]
    if not calls: return None
    while time.time() - t0 < budget_s:
        new = []
        for l in calls:
            toks = l.split()
            rows = parse_rows(kv(toks, 'rows'))
            rows = [[(float(x) if rng.random() < 0.6 else rng.randrange(0, 65) / (1 << rng.randrange(0, 3))) for x in r]
                    for r in rows]
            new.append(' '.join(t if not t.startswith('rows=') else 'rows=' + frows(rows) for t in toks))
        c = Case(head + new, dict(case.meta))
        try:
            res = run_impl(c)
        except Exception:
            continue
        if res.failures: return c
    return None
