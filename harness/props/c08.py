"""
C08 — bubble and dew points satisfy their equations and bracket the two-phase region.

Adapter: drives `BubblePoint(chemicals, thermo)(z, T=|P=)` and `DewPoint(...)(z, T=|P=)` of the real
code (public API, so `__new__` caching, `__call__` dispatch, `solve_Ty/Py/Tx/Px`, the single-component
shortcut through `Chemical.Tsat/Psat`, `fn.normalize` are all inside the observed behaviour).  After
each solve the modified-Raoult parameters (Psat_i, γ_i, φ_i, pcf_i) are recomputed at the returned
point from `chemical.Psat` and FRESH `thermo.Gamma/Phi/PCF` instances and handed to the Lean model
(lean/ThermoVerif/Model/BubbleDew.lean, FIXED variant: z is normalised on entry in all four methods).

Oracle (real objects only): residual of the defining equation with z/Σz, returned fractions normalised
and equal to the normalised Raoult vector, single component = Chemical.Tsat/Psat, T→P→T and P→T→P,
T_bubble ≤ T_dew, P_dew ≤ P_bubble, invariance under z ↦ k·z and under permutation of the chemical list,
instance cache returns an instance built for exactly the requested (ordered) chemicals and package; every result object
kept from an earlier call of the case still reads what it returned after each later call (`result-overwritten-by-later-call`); the caller's
composition array is not modified; a call's result depends on the CURRENT content of the array it is given (histories
that reuse one ndarray buffer, updated in place between calls on the same cached object — `buf` op).

Tolerances (from the solvers' own: BubblePoint/DewPoint.T_tol = 1e-9 K, P_tol = 1e-3 Pa, ytol 5e-12 / 1e-9;
Chemical.Tsat xtol 1e-6 K / ytol 1e-2 Pa):
  residual         : 1e-5.  The solvers' own stopping rules imply ≤ 1e-6 (5 · P_tol / P_min with P_min = 5e3 Pa for the
                     P solvers, 5 · ytol(Tsat) / P_min for N = 1; the T solvers are far tighter), but the dew residual
                     carries the noise of its inner Wegstein loop (checkconvergence=False), observed up to 3e-6 in
                     homogeneous mixtures; ×10 on the implied bound absorbs that floor
  fractions        : 1e-4 absolute against the normalised Raoult vector (10 · residual tolerance), |Σ − 1| ≤ 1e-12, ≥ 0
  same root        : |ΔT| ≤ 2e-3 K, |ΔP| ≤ 2e-5·P — what two points with |residual| ≤ 1e-5 can differ by when the
                     residual's slope is ≥ 0.01 /K resp. 1/P
  ordering         : T_b ≤ T_d + 2e-3 K, P_d ≤ P_b·(1 + 2e-5)
"""
from __future__ import annotations
import itertools, math, random, warnings
from harness.core import Case, ImplResult, fbits, from_fbits

PID = 'C08'
LEAN_MODULES = ['ThermoVerif.Props.C08']
RULE = ('systems of 1–5 chemicals drawn from Water, Ethanol, Methanol, Propanol, Butanol, Octane, Hexane, Benzene, '
        'Toluene under three packages (ideal γ; Dortmund γ; Dortmund γ + ideal-gas Poynting factor); compositions with '
        'zeros, traces (1e-9…1e-4) and unnormalised totals; per system 3–6 operations out of: point solve '
        '(4 methods, k ∈ {1e-3,1,1e3}), T→P→T / P→T→P round trip, bubble-vs-dew ordering at given T or P, '
        'scaling z ↦ k·z (k ∈ {1e-3, 1, 1e3, 0.5, 2} and, as a monitored class for N ≥ 2, 1e-25 … 1e25), permutation of the chemical list, the same call under a second package, call histories on one BubblePoint/DewPoint pair through ONE float ndarray buffer overwritten / scaled in place between calls (same and alternating T/P specifications);  T in [max(260, Psat.Tmin, Tsat_i(5 kPa)), 480] K, '
        'P in [5e3, 3e6] Pa between the pure-component saturation pressures; non-trivial = at least one solve with '
        'N ≥ 2 components present; distinct = distinct (system, op list)')
ASSUMPTIONS = [
    'Psat_i(T), γ_i, φ_i, pcf_i are parameters: recomputed at the returned point from chemical.Psat and fresh '
    'thermo.Gamma/Phi/PCF instances (monitored: positivity; monotonicity of κ_i = γ_i·pcf_i·Psat_i/φ_i between the two '
    'temperatures compared)',
    'solver convergence is monitored (residual of the defining equation at the returned point), not proved',
    'uniqueness of the root (T↔P inverse, scaling/permutation equality) and the bubble/dew ordering are claimed under '
    'the hypothesis that K_i is strictly increasing in T and composition-independent; for activity-coefficient packages '
    'this is a monitored hypothesis and is NOT claimed (uniq=0) when a liquid–liquid immiscible pair is present '
    '(Water with Butanol/Octane/Hexane/Benzene/Toluene, Methanol with Octane/Hexane), where the one-liquid-phase dew '
    'equation has several roots',
    'known-finding signatures (`…:documented-path:<class>`) are issued only when the FROZEN reference implementation of '
    'the documented algorithm kept in this file (class Frozen: own residual functions built from chemical.Psat and fresh '
    'Gamma/Phi/PCF, literal tolerances 1e-9 K / 1e-3 Pa, maxiter 50, literal brackets; bit-identical to the code on the '
    'unchanged tree) ends at the very value the call returned AND the input is in a documented class (immiscible pair / '
    'ideal guess stalled / secant diverges / trace component); every other non-root — changed tolerances, iteration '
    'limits, brackets or residual functions included, with or without an immiscible pair — is `…:undocumented` or '
    '`…:wrong-equation` and is never listed',
    'what the correspondence carries: `pt` lines compare the code\'s claim (residual 0 at the returned point; for a '
    'single component the returned value itself against Chemical.Tsat/Psat) with the residual / fractions the Lean model '
    'recomputes from the recorded Psat, γ, φ, pcf; `ordP/ordT/sameT/sameP` lines compare the verdict on the RETURNED '
    'values with the one the model derives from recorded vapour pressures and κ_i; the returned T or P of a '
    'multi-component call is a parameter of the model (`Input.ret`), so `val` is an echo there',
    'relations (round trip, ordering, scaling, permutation) are claimed unless the pair is outside the uniqueness '
    'hypothesis or one side is a listed documented non-root; a side that failed for any other reason keeps the claim',
    'the vapour is ideal (φ = 1) in every generated package — the quantifier names ideal and activity-coefficient '
    'packages only; with a non-ideal Phi the single-component shortcut and the general equation disagree by 1–20 %, '
    'which is outside the property',
    'field-vs-float gap: the theorems are over ordered fields; the driver evaluates the same definitions in binary64',
]
TRUSTED = ['Lean 4.33 kernel', 'harness/props/c08.py + lean/Driver/C08.lean',
           'the frozen reference solver in c08.py (pure-Python copy of the njit kernel gamma_iter and of the four solve '
           'methods): bit-identical to the code on this numba/LLVM; a listed non-root stays listed as long as the frozen '
           'algorithm itself ends at a non-root on that input (not: at the same bits), the distance between the two end '
           'points is tagged frozen-vs-real:*',
           'flexsolve root finders, chemicals/thermo correlations (parameters)', 'generator reach (see histogram)']

NAMES = ['Water', 'Ethanol', 'Methanol', 'Propanol', 'Butanol', 'Octane', 'Hexane', 'Benzene', 'Toluene']
# chemicals used only by the `psat-range-edge` class (single component at the ends of its vapour-pressure model)
EXTRA_NAMES = ['Cyclohexane', 'tert-Butanol', 'EthylAcetate', 'Heptane', 'Pentane', 'Butane', 'Propane', 'SO2', 'Ammonia', 'HCN', 'Chlorine',
               'Cyclohexene', 'MethylAcetate', 'EthylFormate', 'DiethylEther', 'Acetaldehyde', 'CarbonDisulfide']
ALL_NAMES = NAMES + EXTRA_NAMES
# one chemical present with the specification beyond its critical point (the `else chemical.Tc` / `else chemical.Pc`
# branches of the shortcut): (chemical, partner at zero level, which specification can exceed the critical value)
CRITICAL = [('Pentane', 'Hexane', 'T'), ('Butane', 'Hexane', 'T'), ('Propane', 'Toluene', 'T'),
            ('Octane', 'Toluene', 'P'), ('Heptane', 'Toluene', 'P')]
# neighbourhoods of the witnesses of the listed findings that random generation does not reach by itself
NEIGHBOURS = [(2, 'Propanol,Methanol,Water', 'dewP', 398.517, [0.3284, 0.2734, 0.3982]),
              (1, 'Benzene,Methanol,Propanol', 'dewP', 286.4, [0.628, 0.372, 1.5e-09]),
              (1, 'Hexane,Water', 'bubT', 7500.0, [0.05, 0.95]),
              (2, 'Butanol,Octane,Propanol', 'dewT', 29460.96, [0.4724, 0.3925, 0.1351]),
              (1, 'Hexane,Propanol', 'dewT', 665828.76, [0.45, 0.55])]
# volatile chemicals WITHOUT Dortmund-UNIFAC groups (their γ is 1 inside an activity-coefficient package; the group
# kernel then works on a sub-vector and maps it back through an index) and partners that have groups
GROUPLESS = ['SO2', 'Ammonia', 'HCN', 'Chlorine']
GROUPED = ['Ethanol', 'Methanol', 'Propanol', 'Butanol', 'Benzene', 'Toluene', 'Hexane', 'Octane', 'Water']
SEARCH_ID = {'EthylAcetate': 'Ethyl acetate', 'MethylAcetate': 'Methyl acetate', 'EthylFormate': 'Ethyl formate',
             'DiethylEther': 'Diethyl ether', 'CarbonDisulfide': 'Carbon disulfide'}
# chemicals whose vapour-pressure model starts at ≥ 5 kPa: mixtures of them can be specified at temperatures within a few K
# of the lower end of the UNION of their Psat ranges (the lower limit of vle_domain, which solve_Py clamps T to) while
# staying inside every chemical's range and inside 5e3–3e6 Pa
LOWEND = ['Benzene', 'Cyclohexane', 'Cyclohexene', 'EthylAcetate', 'MethylAcetate', 'EthylFormate', 'DiethylEther',
          'Acetaldehyde', 'CarbonDisulfide']
VSHARES = 16      # the case space is cut into this many seed-derived shares whatever --jobs is
# (chemical, miscible partner listed next to it, which end of the Psat model lies inside 5e3–3e6 Pa)
EDGES = [('Cyclohexane', 'Hexane', 'lower'), ('tert-Butanol', 'Ethanol', 'lower'), ('EthylAcetate', 'Toluene', 'lower'),
         ('Benzene', 'Toluene', 'lower'), ('Octane', 'Toluene', 'upper'), ('Hexane', 'Octane', 'upper'),
         ('Heptane', 'Octane', 'upper')]
IMMISCIBLE = {frozenset(p) for p in
              [('Water', x) for x in ('Butanol', 'Octane', 'Hexane', 'Benzene', 'Toluene')] +
              [('Methanol', 'Octane'), ('Methanol', 'Hexane')]}
PKG_NAMES = ['ideal', 'dortmund', 'dortmund+pcf', 'dortmund+srk']
PKG_KEY = [(0, 0, 0), (1, 0, 0), (1, 0, 1), (1, 1, 0)]        # (gamma class, phi class, pcf class) ids for the cache model
RES_TOL_MULTI, RES_TOL_SINGLE, FRAC_TOL = 1e-5, 1e-5, 1e-4
T_SAME, P_SAME = 2e-3, 2e-5
KS = [1e-3, 1.0, 1e3]


def extreme_k(rng):
    """a scale factor far outside {1e-3, 1, 1e3}: totals down to 1e-25 and up to 1e25 (monitored class, N ≥ 2 only: the
    result must depend on z/Σz alone however small or large Σz is — `fn.normalize`'s `Σ < 1e-16 ⇒ equal fractions` floor is
    meant for empty arrays, not for compositions)"""
    e = rng.choice([rng.uniform(-25, -17), rng.uniform(-25, -17), rng.uniform(-16, -5), rng.uniform(5, 16), rng.uniform(17, 25)])
    return float('%.3e' % (10 ** e))

tmo = np = None
CH = {}
TSAT5K = {}
_THERMO = {}
METHODS = ('bubT', 'bubP', 'dewT', 'dewP')


def setup():
    global tmo, np
    import numpy as np_, thermosteam as tmo_
    tmo, np = tmo_, np_
    warnings.simplefilter('ignore')
    np.seterr(all='ignore')
    # `dew_point.gamma_iter` is `@njit(cache=True)` and takes the activity-coefficient kernel (a numba dispatcher) as
    # an argument; numba cannot re-pickle its on-disk cache index once an index written by an earlier process is
    # present (`ReferenceError: underlying object has vanished`).  Keep that one kernel out of the disk cache.
    try:
        from numba.core.caching import NullCache
        import thermosteam.equilibrium.dew_point as _dpm
        _dpm.gamma_iter._cache = NullCache()
    except Exception:
        pass
    for n in ALL_NAMES:
        CH[n] = (tmo.Chemical(n, search_ID=SEARCH_ID[n]) if n in SEARCH_ID else tmo.Chemical(n, cache=True))
    for n in NAMES:
        TSAT5K[n] = CH[n].Tsat(5e3)


def budget(tier):
    return {'quick': dict(seconds=70, cases=1200, shrink_s=15, search_s=5),
            'thorough': dict(seconds=420, cases=16000, shrink_s=40, search_s=20)}[tier]


# --------------------------------------------------------------------------
# real-code helpers
# --------------------------------------------------------------------------

def thermo_for(ids, pkg):
    key = (tuple(ids), pkg)
    th = _THERMO.get(key)
    if th is None:
        eq = tmo.equilibrium
        cs = tmo.Chemicals([CH[i] for i in ids])
        if pkg == 0: th = tmo.Thermo(cs, Gamma=eq.IdealActivityCoefficients, cache=False)
        elif pkg == 1: th = tmo.Thermo(cs, cache=False)
        elif pkg == 2: th = tmo.Thermo(cs, PCF=eq.IdealGasPoyintingCorrectionFactors, cache=False)
        else:
            # package 3 (non-ideal vapour, φ_i ≠ 1) is OUTSIDE the property's quantifier ("ideal and activity-coefficient
            # packages") and is not generated: there the single-component shortcut (Psat(T) = P) and the general equation
            # (K = Psat/(φP) = 1) disagree by 1–20 %.  Kept only so that a hand-written replay can use it.
            th = tmo.Thermo(cs, Phi=eq.SRKFugacityCoefficients, cache=False)
        if len(_THERMO) > 4000: _THERMO.clear()
        _THERMO[key] = th
    return th


# --------------------------------------------------------------------------
# FROZEN reference implementation of the documented algorithms (bubble_point.py / dew_point.py as of /repo commit
# f3c7130).  Own copy of the residual functions, the inner Wegstein loops, the ideal starting guesses, the literal
# tolerances, iteration limits and bracket constants.  It uses ONLY chemical.Psat, chemical.Psat.Tmin/Tmax, fresh
# thermo.Gamma/Phi/PCF instances and flexsolve — never an attribute of the BubblePoint/DewPoint object under test — so
# that any change inside those objects (tolerances, maxiter, residual functions, brackets) makes the code's answer
# differ from the reference's.
# --------------------------------------------------------------------------
F_MAXITER, F_T_TOL, F_P_TOL = 50, 1e-9, 1e-3


class Frozen:
    def __init__(self, ids, pkg):
        import flexsolve as flx
        self.flx = flx
        th = thermo_for(ids, pkg)
        chems = [CH[i] for i in ids]
        self.psat = [c.Psat for c in chems]
        self.gamma = th.Gamma(chems)
        self.phi = th.Phi(chems)
        self.pcf = th.PCF(chems)
        self.ideal_phi = isinstance(self.phi, tmo.equilibrium.IdealFugacityCoefficients)
        # vle_domain
        self.Tmax = min(max(p.Tmax for p in self.psat), 1000.) - 1e-2
        self.Tmin = max(min(p.Tmin for p in self.psat), 50.) + 1e-2
        self.Pmin = min(p(self.Tmin) for p in self.psat)
        self.Pmax = max(p(self.Tmax) for p in self.psat)

    # -- functional.normalize
    @staticmethod
    def normalize(a):
        s = a.sum()
        if s < 1e-16: return np.ones(a.size) / a.size
        return a / s

    # -- bubble_point.solve_y / y_iter
    def solve_y(self, y_phi, T, P):
        if self.ideal_phi: return y_phi
        phi = self.phi
        def y_iter(y, y_phi, phi, T, P):
            return y_phi / phi(self.normalize(y), T, P)
        return self.flx.wegstein(y_iter, y_phi, 1e-9, args=(y_phi, phi, T, P), checkiter=False,
                                 checkconvergence=False, convergenceiter=5, maxiter=F_MAXITER)

    # -- dew_point.solve_x / gamma_iter
    def solve_x(self, x_guess, x_gamma, T, P):
        f_gamma, gamma_args = self.gamma.f, self.gamma.args
        normalize = self.normalize
        def gamma_iter(gamma, x_gamma, T, P, f_gamma, gamma_args):
            x = x_gamma / gamma
            x[x < 1e-32] = 1e-32
            return f_gamma(normalize(x), T, *gamma_args)
        x_guess[x_guess < 1e-32] = 1e-32
        gamma = f_gamma(normalize(x_guess), T, *gamma_args)
        args = (x_gamma, T, P, f_gamma, gamma_args)
        gamma = self.flx.wegstein(gamma_iter, gamma, 1e-12, args=args, checkiter=False,
                                  checkconvergence=False, convergenceiter=5, maxiter=F_MAXITER)
        try:
            return x_gamma / gamma
        except Exception:
            return x_gamma / gamma_iter(gamma, *args)

    # -- residuals
    def bub_T_error(self, T, P, z_over_P, z_norm, y):
        if T <= 0: raise RuntimeError('negative temperature')
        ps = np.array([i(T) for i in self.psat], dtype=float)
        y_phi = (z_over_P * ps * self.gamma(z_norm, T) * self.pcf(T, P, ps))
        y[:] = self.solve_y(y_phi, T, P)
        return 1. - y.sum()

    def bub_P_error(self, P, T, z_Psat_gamma, ps, y):
        if P <= 0: raise RuntimeError('negative pressure')
        y_phi = z_Psat_gamma * self.pcf(T, P, ps) / P
        y[:] = self.solve_y(y_phi, T, P)
        return 1. - y.sum()

    def bub_T_error_ideal(self, T, z_over_P, y):
        y[:] = z_over_P * np.array([i(T) for i in self.psat], dtype=float)
        return 1 - y.sum()

    def dew_T_error(self, T, P, z_norm, zP, x):
        if T <= 0: raise RuntimeError('negative temperature')
        ps = np.array([i(T) for i in self.psat])
        ps[ps < 1e-16] = 1e-16
        phi = self.phi(z_norm, T, P)
        pcf = self.pcf(T, P, ps)
        x_gamma = phi * zP / ps / pcf
        x[:] = self.solve_x(x, x_gamma, T, P)
        return 1 - x.sum()

    def dew_T_error_ideal(self, T, zP, x):
        ps = np.array([i(T) for i in self.psat])
        ps[ps < 1e-16] = 1e-16
        x[:] = zP / ps
        return 1 - x.sum()

    def dew_P_error(self, P, T, z_norm, z_over_Psats, ps, x):
        if P <= 0: raise RuntimeError('negative pressure')
        x_gamma = z_over_Psats * P * self.phi(z_norm, T, P) / self.pcf(T, P, ps)
        x[:] = self.solve_x(x, x_gamma, T, P)
        return 1 - x.sum()

    # -- the four solve methods (N ≥ 2, non-reactive); returns (value, ideal T guess stalled)
    def solve(self, method, zn, spec, force_fallback=False):
        flx = self.flx
        IQ = flx.IQ_interpolation
        if force_fallback:
            # the primary (open) solver fails at once with RuntimeError — what the adapter injects into the real call
            def AS(*a, **k): raise RuntimeError('primary solver failed')
        else:
            AS = flx.aitken_secant
        stalled = False
        if method == 'bubT':
            P = spec; a = zn / P
            f = self.bub_T_error_ideal; y = a.copy()
            lo, hi = self.Tmin + 10, self.Tmax - 10
            fmax = f(lo, a, y)
            if fmax < 0.: Tg = lo
            else:
                fmin = f(hi, a, y)
                if fmin > 0.: Tg = hi
                else:
                    Tg = IQ(f, lo, hi, fmax, fmin, None, F_T_TOL, 5e-12, (a, y), checkiter=False, checkbounds=False,
                            maxiter=F_MAXITER)
                    stalled = abs(f(Tg, a, y.copy())) > 1e-6
            g = self.bub_T_error; args = (P, a, zn, y); buf = y
            try:
                v = AS(g, Tg, Tg + 1e-3, F_T_TOL, 5e-12, args, checkiter=False, maxiter=F_MAXITER)
            except RuntimeError:
                v = IQ(g, self.Tmin, self.Tmax, g(self.Tmin, *args), g(self.Tmax, *args), Tg, F_T_TOL, 5e-12, args,
                       checkiter=False, checkbounds=False, maxiter=F_MAXITER)
        elif method == 'dewT':
            P = spec; a = zn * P
            f = self.dew_T_error_ideal; x = a.copy()
            lo, hi = self.Tmin + 10., self.Tmax - 10.
            fmin = f(lo, a, x)
            if fmin > 0.: Tg = lo
            else:
                fmax = f(hi, a, x)
                if fmax < 0.: Tg = hi
                else:
                    Tg = IQ(f, lo, hi, fmin, fmax, None, F_T_TOL, 5e-12, (a, x), checkiter=False, checkbounds=False,
                            maxiter=F_MAXITER)
                    stalled = abs(f(Tg, a, x.copy())) > 1e-6
            g = self.dew_T_error; args = (P, zn, a, x); buf = x
            try:
                v = AS(g, Tg, Tg + 1e-3, F_T_TOL, 5e-12, args, maxiter=F_MAXITER, checkiter=False)
            except RuntimeError:
                v = IQ(g, self.Tmin, self.Tmax, g(self.Tmin, *args), g(self.Tmax, *args), Tg, F_T_TOL, 5e-12, args,
                       checkiter=False, checkbounds=False, maxiter=F_MAXITER)
        elif method == 'bubP':
            T = min(max(spec, self.Tmin), self.Tmax)
            ps = np.array([q(T) for q in self.psat])
            zpg = zn * ps * self.gamma(zn, T)
            Pg = zpg.sum(); y = zpg / Pg
            g = self.bub_P_error; args = (T, zpg, ps, y); buf = y
            try:
                v = AS(g, Pg, Pg - 1, F_P_TOL, 1e-9, args, checkiter=False, maxiter=F_MAXITER)
            except RuntimeError:
                v = IQ(g, self.Pmin, self.Pmax, g(self.Pmin, *args), g(self.Pmax, *args), Pg, F_P_TOL, 5e-12, args,
                       checkiter=False, checkbounds=False, maxiter=F_MAXITER)
        else:
            T = spec
            ps = np.array([q(T) for q in self.psat], dtype=float)
            a = zn / ps
            Pg = 1. / a.sum(); x = a * Pg
            g = self.dew_P_error; args = (T, zn, a, ps, x); buf = x
            try:
                v = AS(g, Pg, Pg - 10, F_P_TOL, 5e-12, args, checkiter=False, maxiter=F_MAXITER)
            except RuntimeError:
                v = IQ(g, self.Pmin, self.Pmax, g(self.Pmin, *args), g(self.Pmax, *args), Pg, F_P_TOL, 5e-12, args,
                       checkiter=False, checkbounds=False, maxiter=F_MAXITER)
        return float(v), stalled, self.normalize(np.array(buf, float))


_FROZEN = {}


def vec(x, n):
    a = np.asarray(x, float)
    return a * np.ones(n) if a.ndim == 0 else a


def record(ids, pkg, T, P, xliq, yvap):
    """Psat, γ, φ, pcf at (T, P) from chemical.Psat and fresh coefficient objects (independent of the solver's own)."""
    th = thermo_for(ids, pkg)
    chems = [CH[i] for i in ids]
    n = len(ids)
    psat = np.array([float(c.Psat(T)) for c in chems])
    g = vec(th.Gamma(chems)(np.asarray(xliq, float), T), n)
    f = vec(th.Phi(chems)(np.asarray(yvap, float), T, P), n)
    c = vec(th.PCF(chems)(T, P, psat), n)
    return psat, g, f, c


def fl(xs):
    return ','.join(fbits(float(x)) for x in xs)


def uniq_flag(ids, pkg, z):
    if pkg == 0: return True
    present = [i for i, v in zip(ids, z) if v > 0]
    return not any(frozenset(p) in IMMISCIBLE for p in itertools.combinations(present, 2))


class Run:
    """Executes one case on the real code, collecting protocol lines, answers and oracle failures."""

    def __init__(self, ids, pkg):
        self.ids, self.pkg = list(ids), pkg
        self.model_in, self.outs, self.failures, self.tags = [], [], [], set()
        self.seen = {'B': [], 'D': []}     # instances in order of first appearance (id-classes)
        self.multi = False
        self.inject = False      # True while a `fallback` op makes the primary (open) solver fail
        self.kept = []           # (returned fractions array itself, its content when returned, T, P, result object, label)

    def emit(self, line, ans):
        self.model_in.append(line); self.outs.append(ans)

    def fail(self, sig, what):
        self.failures.append({'signature': sig, 'op_index': len(self.model_in) - 1, 'what': what})

    # -- instance cache -----------------------------------------------------
    def instance(self, which, ids, pkg):
        th = thermo_for(ids, pkg)
        chems = [CH[i] for i in ids]
        cls = tmo.equilibrium.BubblePoint if which == 'B' else tmo.equilibrium.DewPoint
        obj = cls(chems, th)
        seen = self.seen[which]
        for n, o in enumerate(seen):
            if o is obj: break
        else:
            seen.append(obj); n = len(seen) - 1
        g, f, c = PKG_KEY[pkg]
        self.emit(f'inst {which} {g} {f} {c} {",".join(str(ALL_NAMES.index(i)) for i in ids)}', f'id {n}')
        ok = (tuple(obj.chemicals) == tuple(chems) and tuple(obj.IDs) == tuple(ids)
              and type(obj.gamma) is type(th.Gamma(chems)) and type(obj.phi) is type(th.Phi(chems))
              and type(obj.pcf) is type(th.PCF(chems)))
        if not ok:
            self.fail('cache:wrong-instance',
                      f'{cls.__name__}({ids}, {PKG_NAMES[pkg]}) returned an instance built for {obj.IDs} / '
                      f'{type(obj.gamma).__name__}')
        return obj

    def recheck_kept(self, after):
        for arr, was, T, P, res, what in self.kept:
            now = np.asarray(arr, float)
            same = now.shape == was.shape and np.array_equal(now, was) and float(res.T) == T and float(res.P) == P
            if not same:
                self.fail('result-overwritten-by-later-call',
                          f'the result kept from {what} (fractions {was.tolist()}, T={T!r}, P={P!r}) reads {now.tolist()}, '
                          f'T={float(res.T)!r}, P={float(res.P)!r} after the later call {after}: the returned array is shared '
                          f'with the cached solver object')
                self.kept = [k for k in self.kept if k[0] is not arr]
                self.tags.add('kept-result-changed')
                return
        if self.kept: self.tags.add('kept-results-rechecked')

    # -- one solve ------------------------------------------------------------
    def solve(self, method, spec, z, ids=None, label='', pkg=None):
        """returns dict(val, frac, T, P, kappa, ok) or None when the call raised."""
        ids = self.ids if ids is None else ids
        pkg = self.pkg if pkg is None else pkg
        which = 'B' if method.startswith('bub') else 'D'
        obj = self.instance(which, ids, pkg)
        z = np.asarray(z, float)
        n = len(ids)
        N = int((z > 0).sum())
        z_before = z.copy()
        fired = [0]
        if self.inject:
            # fault injection at the boundary to flexsolve (a parameter of the model): the primary open solver raises
            # RuntimeError at once — as it does when the secant steps to T ≤ 0 / P ≤ 0 — so that the `except RuntimeError`
            # bracketing fallback of the real solve method runs.  (Chemical.Tsat binds its own name and is unaffected.)
            import flexsolve
            orig_as = flexsolve.aitken_secant
            def failing(*a, **k):
                fired[0] += 1
                raise RuntimeError('injected by the C08 harness: primary solver failed')
            flexsolve.aitken_secant = failing
        try:
            try:
                res = obj(z, T=spec) if method.endswith('P') else obj(z, P=spec)
            finally:
                if self.inject: flexsolve.aitken_secant = orig_as
        except ValueError as e:
            if N == 0:
                self.emit(self._pt_line(method, spec, spec, spec, 0., 0., 0., z, *[np.ones(n)] * 4), 'err noComponents')
                return None
            raise
        if fired[0]: self.tags.add('fallback-entered:' + method)
        if not np.array_equal(z_before, z):
            self.fail(f'{method}:mutates-input', f'{method}{label} {ids}: the call changed the caller\'s composition array '
                                                 f'from {z_before.tolist()} to {z.tolist()}')
        # results kept by the caller must stay what was returned: re-inspect every earlier result object of this case
        # (instances are cached per chemical list and package, so later calls run on the same solver object)
        self.recheck_kept(f'{method}{label} z={z.tolist()} spec={spec!r}')
        returned = res.y if which == 'B' else res.x
        frac = np.array(returned, float)
        T, P = float(res.T), float(res.P)
        if isinstance(returned, np.ndarray):
            self.kept.append((returned, frac.copy(), T, P, res, f'{method}{label} {ids} z={z.tolist()} spec={spec!r}'))
            if len(self.kept) > 12: self.kept.pop(0)
        val = P if method.endswith('P') else T
        zs = z.sum(); zn = z / zs
        single = N == 1
        tagN = 'N1' if single else 'N2+'
        self.tags.update({method, tagN, 'pkg:' + PKG_NAMES[pkg]})
        if abs(zs - 1) > 1e-9: self.tags.add('unnormalised-z')
        if ((z > 0) & (zn < 1e-3)).any(): self.tags.add('trace')
        if (z == 0).any(): self.tags.add('zero-component')
        bad_val = not (math.isfinite(val) and val > 0)
        if bad_val:
            self.fail(f'{method}:non-finite', f'{method}{label} z={z.tolist()} spec={spec}: returned {val}')
            Tq, Pq = (spec, 1e5) if method.endswith('P') else (300., spec)
        else:
            Tq, Pq = T, P
        # liquid / vapour compositions at the returned point
        xliq, yvap = (zn, frac) if which == 'B' else (frac, zn)
        psat, g, f, c = record(ids, pkg, Tq, Pq, xliq, yvap)
        K = g * c * psat / (f * Pq)
        rv = zn * K if which == 'B' else zn / K
        resid = 1. - rv.sum()
        # single-component reference through the public Chemical API
        sat = cs = cr = 0.
        if single:
            chem = CH[ids[int(np.argmax(z > 0))]]
            if method.endswith('T'):
                sat, cs, cr = chem.Tsat(spec, check_validity=False), chem.Pc, chem.Tc
            else:
                sat, cs, cr = chem.Psat(spec), chem.Tc, chem.Pc
        else:
            self.multi = True
        imm = '' if uniq_flag(ids, pkg, z) else ':immiscible-liquid'
        where = f'{method}{label} {PKG_NAMES[pkg]} {ids} z={z.tolist()} spec={spec!r} -> T={T!r} P={P!r}'
        # ---- oracle on the real result
        ok = not bad_val
        status = 'ok'          # 'ok' | 'documented' (a listed, documented non-root) | 'bad'
        if single:
            supercrit = spec > cs
            if supercrit: self.tags.add('single-beyond-critical:' + method)
            expect = cr if supercrit else sat
            if not (val == expect or abs(val - expect) <= 1e-12 * abs(expect)):
                ok = False
                self.fail(f'{method}:single-component', f'{where}: Chemical.{"Tsat" if method.endswith("T") else "Psat"} gives {expect!r}')
            elif not supercrit and abs(resid) > RES_TOL_SINGLE:
                ok = False
                if method.endswith('T') and spec == 101325:
                    # Chemical.Tsat returns the tabulated Tb at exactly 1 atm instead of inverting Psat
                    status = 'documented'
                    self.fail('single:Tb-shortcut', f'{where}: Psat(T)/P − 1 = {-resid:.3e}')
                else:
                    self.fail(f'{method}:not-a-root:single', f'{where}: Psat(T)/P − 1 = {-resid:.3e}')
            ref = np.where(z > 0, 1., 0.)
            if np.abs(frac - ref).max() > 1e-12:
                ok = False
                self.fail(f'{method}:fractions', f'{where}: returned fractions {frac.tolist()} for a single component')
        elif not bad_val:
            if not abs(resid) <= RES_TOL_MULTI:
                ok = False
                # diagnosis (for the signature only)
                rv_raw = z * K if which == 'B' else z / K
                negative = bool((frac < 0).any())
                if abs(zs - 1) > 1e-9 and abs(1. - rv_raw.sum()) <= RES_TOL_MULTI * max(1., zs):
                    cause = ':solves-unnormalised-equation'      # root of the equation written with the raw z
                else:
                    # A non-root is a LISTED finding only when (1) the FROZEN reference implementation of the documented
                    # algorithm (class Frozen: own residual functions from chemical.Psat and fresh Gamma/Phi/PCF, literal
                    # tolerances, iteration limits and brackets — nothing taken from the object under test) ends at the
                    # very value the call returned, and (2) the input is in one of the documented classes.  Anything
                    # else — a solver that fails where the documented one converges, changed tolerances, a changed
                    # residual function, with or without an immiscible pair — is `:undocumented` / `:wrong-equation`.
                    ref, stalled, ref_frac = self.reference_path(ids, pkg, method, zn, spec, self.inject)
                    # "documented" = the frozen documented algorithm ITSELF fails on this input: it ends at a point that
                    # is not a root either (judged by the same independent recomputation).  Deliberately NOT "ends at
                    # the same bits": a diverging secant amplifies a last-bit difference between the code's njit kernel
                    # and the frozen Python copy (other numba/LLVM versions), which must not turn a listed finding into
                    # an unlisted one.  The distance between the two end points is printed and tagged.
                    documented = False
                    if ref is not None:
                        if not (math.isfinite(ref) and ref > 0):
                            documented = True
                        else:
                            Tr, Pr = (spec, ref) if method.endswith('P') else (ref, spec)
                            try:
                                rr = self.raoult_residual(ids, pkg, method, zn, Tr, Pr, ref_frac)
                            except Exception:
                                rr = float('nan')
                            documented = not abs(rr) <= RES_TOL_MULTI
                            d = abs(ref - val) / abs(val)
                            self.tags.add('frozen-vs-real:' + ('bitwise' if d == 0 else 'within-1e-9' if d <= 1e-9 else 'differs'))
                            where += f' [frozen reference algorithm ends at {ref!r}, residual there {rr:.3g}, relative distance to the returned value {d:.2g}]'
                    trace = bool(zn[zn > 0].min() < 1e-8)
                    if documented:
                        status = 'documented'
                        kind = ':negative-fraction' if (negative and not imm) else ':unconverged'
                        if self.inject: cause = ':unconverged:documented-path:fallback'
                        elif imm: cause = kind + ':documented-path' + imm
                        elif negative: cause = kind + ':documented-path' + (':trace-component' if trace else ':no-trace-component')
                        elif stalled: cause = kind + ':documented-path:ideal-guess-stalled'
                        else: cause = kind + ':documented-path:secant-diverges'
                    else:
                        own = self.own_residual_diagnosis(obj, method, zn, T, P, frac)
                        cause = (own if own == ':wrong-equation' else own + ':undocumented') + imm
                self.fail(f'{method}:not-a-root{cause}',
                          f'{where}: 1 − Σ {"z·K" if which == "B" else "z/K"} = {resid:.6g} with z/Σz and K recomputed '
                          f'from chemical.Psat, thermo.Gamma/Phi/PCF (tolerance {RES_TOL_MULTI})')
            else:
                nv = rv / rv.sum()
                if not np.abs(frac - nv).max() <= FRAC_TOL:
                    ok = False
                    # Σ = 1 at the returned point, but the returned fractions are not the modified-Raoult ones (for a dew point:
                    # x is not a fixed point of x_i = z_i/K_i(x); typically a negative fraction offsets the others).  This is the
                    # same documented defect as a plain non-root when the FROZEN reference algorithm ends at fractions that are
                    # inconsistent in the same way and the input is in a documented class; otherwise it stays `:fractions`.
                    negative = bool((frac < 0).any())
                    ref, stalled, ref_frac = self.reference_path(ids, pkg, method, zn, spec, self.inject)
                    documented = False
                    if ref is not None and ref_frac is not None and math.isfinite(ref) and ref > 0:
                        Tr, Pr = (spec, ref) if method.endswith('P') else (ref, spec)
                        try:
                            rr, fe = self.raoult_residual(ids, pkg, method, zn, Tr, Pr, ref_frac, with_fracerr=True)
                        except Exception:
                            rr, fe = float('nan'), float('nan')
                        documented = (not abs(rr) <= RES_TOL_MULTI) or (not fe <= FRAC_TOL) or bool((ref_frac < 0).any())
                        d = abs(ref - val) / abs(val)
                        self.tags.add('frozen-vs-real:' + ('bitwise' if d == 0 else 'within-1e-9' if d <= 1e-9 else 'differs'))
                        where += (f' [frozen reference algorithm ends at {ref!r} with fractions {ref_frac.tolist()}: residual {rr:.3g}, '
                                  f'fraction error {fe:.3g}; relative distance to the returned value {d:.2g}]')
                    trace = bool(zn[zn > 0].min() < 1e-8)
                    if documented and (imm or (negative and trace) or self.inject):
                        status = 'documented'
                        if self.inject: cause = ':unconverged:documented-path:fallback'
                        elif imm: cause = ':unconverged:documented-path' + imm
                        else: cause = ':negative-fraction:documented-path:trace-component'
                        self.fail(f'{method}:not-a-root{cause}',
                                  f'{where}: Σ = 1 (residual {resid:.3g}) but the returned fractions {frac.tolist()} are not the '
                                  f'modified-Raoult ones {nv.tolist()}')
                    else:
                        self.fail(f'{method}:fractions', f'{where}: returned {frac.tolist()} but normalised Raoult vector is {nv.tolist()}')
        if ok and (abs(frac.sum() - 1) > 1e-12 or (frac < 0).any()):
            ok = False
            self.fail(f'{method}:not-normalised', f'{where}: fractions {frac.tolist()} sum to {frac.sum()!r}')
        # ---- model line
        if not ok and status == 'ok': status = 'bad'
        line = self._pt_line(method, Pq, spec, val, sat, cs, cr, z, psat, g, f, c)
        # what the CODE claims: the returned point is a root (residual 0).  Only for a listed, documented non-root
        # (frozen reference reproduces it) is the recomputed residual reported instead; beyond the critical point of
        # a single component there is no equation (the model reports 0 there as well).
        claimed = resid if status == 'documented' else 0.
        ans = f'ok {"single" if single else "multi"} val={fbits(val)} res={fbits(claimed)} afres=* frac={fl(frac)}'
        if status == 'documented': ans += ' doc=1'      # a listed, documented non-solution: neither residual nor fractions are a claim
        self.emit(line, ans)
        kappa = g * c * psat / f
        self.tags.update({f'n={n}', f'N={min(N, 5)}', 'T:%d-%d' % (int(Tq // 40) * 40, int(Tq // 40) * 40 + 40),
                          'P:1e%d' % int(math.floor(math.log10(max(Pq, 1.)))), 'status:' + status})
        return dict(val=val, frac=frac, T=T, P=P, kappa=kappa, ok=ok, status=status, single=single,
                    uniq=uniq_flag(ids, pkg, z), z=z.copy(), zn=zn, psat=psat, method=method)

    @staticmethod
    def reference_path(ids, pkg, method, zn, spec, force_fallback=False):
        """signature detail only: the FROZEN reference implementation (class Frozen) of the documented algorithm.
        Returns (value it ends at | None, ideal T guess did not converge, fractions at its end point | None)."""
        key = (tuple(ids), pkg)
        fz = _FROZEN.get(key)
        if fz is None:
            if len(_FROZEN) > 2000: _FROZEN.clear()
            fz = _FROZEN[key] = Frozen(ids, pkg)
        try:
            return fz.solve(method, zn.copy(), spec, force_fallback)
        except Exception:
            return None, False, None

    @staticmethod
    def raoult_residual(ids, pkg, method, zn, T, P, frac, with_fracerr=False):
        """1 − Σ z·K (bubble) resp. 1 − Σ z/K (dew) at (T, P) with K recomputed from chemical.Psat and fresh γ/φ/pcf
        (and, on request, the largest deviation of `frac` from the normalised modified-Raoult vector)."""
        bub = method.startswith('bub')
        xliq, yvap = (zn, frac) if bub else (frac, zn)
        psat, g, f, c = record(ids, pkg, T, P, xliq, yvap)
        K = g * c * psat / (f * P)
        rv = (zn * K) if bub else (zn / K)
        r = float(1. - rv.sum())
        if not with_fracerr: return r
        return r, float(np.abs(np.asarray(frac, float) - rv / rv.sum()).max())

    @staticmethod
    def own_residual_diagnosis(obj, method, zn, T, P, frac):
        """signature detail only: evaluate the solver's OWN residual function at the point it returned.
        Non-zero ⇒ the root finder stopped without converging (all calls pass checkiter=False) → `:unconverged`;
        zero ⇒ the code solved its equation, but that equation is not the modified-Raoult one → `:wrong-equation`."""
        try:
            w = frac.copy()
            if method == 'bubT':
                r = obj._T_error(T, P, zn / P, zn, w)
            elif method == 'bubP':
                ps = np.array([f(T) for f in obj.Psats])
                r = obj._P_error(P, T, zn * ps * obj.gamma(zn, T), ps, w)
            elif method == 'dewT':
                r = obj._T_error(T, P, zn, zn * P, w)
            else:
                ps = np.array([f(T) for f in obj.Psats], dtype=float)
                r = obj._P_error(P, T, zn, zn / ps, ps, w)
            return ':unconverged' if abs(r) > RES_TOL_MULTI / 2 else ':wrong-equation'
        except Exception:
            return ':undiagnosed'

    @staticmethod
    def _pt_line(method, P, spec, ret, sat, cs, cr, z, psat, g, f, c):
        return (f'pt {method} {fbits(P)} {fbits(spec)} {fbits(ret)} {fbits(sat)} {fbits(cs)} {fbits(cr)} '
                f'{fl(z)} {fl(psat)} {fl(g)} {fl(f)} {fl(c)}')

    # -- relations between two solves ----------------------------------------------
    # The oracle judges the RETURNED values; the model line recomputes the same relation from independent recorded
    # quantities (vapour pressures at the returned temperatures, κ_i = γ·pcf·Psat/φ, the returned fractions), so a wrong
    # returned value shows as a disagreement as well.  A relation is claimed unless the pair is outside the uniqueness
    # hypothesis (immiscible pair under an activity package) or one side is a listed, documented non-root; a side that
    # failed for any other reason does NOT switch the claim off.
    def same(self, kind, a, b, what, sig, perm=None):
        """a, b: results that must be the same root (kind 'T' or 'P')."""
        if a is None or b is None: return
        pm = (lambda v: v) if perm is None else (lambda v: v[perm])
        claim = a['uniq'] and b['uniq'] and a['status'] != 'documented' and b['status'] != 'documented'
        hyp = claim and a['ok'] and b['ok']
        va, vb = a['val'], b['val']
        tol = T_SAME if kind == 'T' else P_SAME * abs(va)
        same = bool(abs(va - vb) <= tol)
        fb = pm(b['frac'])
        same_frac = bool(np.abs(a['frac'] - fb).max() <= FRAC_TOL)
        if kind == 'T':
            self.emit(f'sameT {int(hyp)} {fl(a["psat"])} {fl(pm(b["psat"]))} {fl(a["frac"])} {fl(fb)}',
                      f'hyp=1 same={int(same and same_frac)}')
        else:
            which = a['method'][:3]
            self.emit(f'sameP {which} {int(hyp)} {fl(a["z"])} {fl(a["kappa"])} {fl(pm(b["z"]))} {fl(pm(b["kappa"]))} '
                      f'{fl(a["frac"])} {fl(fb)}', f'hyp=1 pa={fbits(va)} pb={fbits(vb)} same={int(same and same_frac)}')
        if claim and not (same and same_frac):
            self.fail(sig, f'{what}: {va!r} vs {vb!r} (tolerance {tol:.3g}); fractions {a["frac"].tolist()} vs {fb.tolist()}')
        self.tags.add('claim=1' if claim else 'claim=0')

    def order(self, kind, bub, dew, what):
        if bub is None or dew is None: return
        claim = bub['uniq'] and dew['uniq'] and bub['status'] != 'documented' and dew['status'] != 'documented'
        hyp = claim and bub['ok'] and dew['ok']
        if kind == 'T':
            le = bool(bub['val'] <= dew['val'] + T_SAME)
            self.emit(f'ordT {int(hyp)} {fbits(bub["P"])} {fl(bub["z"])} {fl(bub["psat"])} {fl(dew["psat"])} '
                      f'{fl(bub["kappa"])} {fl(dew["kappa"])}', f'hyp=1 le={int(le)}')
        else:
            le = bool(dew['val'] <= bub['val'] * (1 + P_SAME))
            self.emit(f'ordP {int(hyp)} {fl(bub["z"])} {fl(bub["kappa"])} {fl(dew["kappa"])}',
                      f'hyp=1 pb={fbits(bub["val"])} pd={fbits(dew["val"])} le={int(le)}')
        if claim and not le:
            self.fail(f'order-{kind}', f'{what}: bubble {bub["val"]!r} vs dew {dew["val"]!r} '
                                       f'({"T_bubble ≤ T_dew" if kind == "T" else "P_dew ≤ P_bubble"} violated)')
        self.tags.add('claim=1' if claim else 'claim=0')


def parse_z(s):
    return [float(x) for x in s.split(',')]


def run_impl(case: Case) -> ImplResult:
    head = case.ops[0].split(' ')
    assert head[0] == 'sys', case.ops[0]
    pkg, ids = int(head[1]), head[2].split(',')
    # every case starts from empty instance caches, so that a replayed case sees the state it was found in
    try:
        tmo.equilibrium.BubblePoint._cached.clear(); tmo.equilibrium.DewPoint._cached.clear()
    except Exception:
        pass
    r = Run(ids, pkg)
    if case.meta.get('edge'): r.tags.add('psat-range-edge:' + case.meta['edge'])
    if case.meta.get('domain-end'): r.tags.add('domain-lower-end')
    if case.meta.get('groupless'): r.tags.add('groupless-chemical:' + case.meta['groupless'])
    if case.meta.get('critical'): r.tags.add('single-critical-guard:' + case.meta['critical'])
    if 'neighbour' in case.meta: r.tags.add('known-witness-neighbourhood')
    for line in case.ops[1:]:
        t = line.split(' ')
        op = t[0]
        if op == 'pt':
            method, spec, k, z = t[1], float(t[2]), float(t[3]), np.array(parse_z(t[4]))
            r.solve(method, spec, z * k)
        elif op == 'rt':
            which, start, spec, z = t[1], t[2], float(t[3]), np.array(parse_z(t[4]))
            mT, mP = which + 'T', which + 'P'
            if start == 'T':
                a = r.solve(mP, spec, z)
                if a is None or a['status'] == 'documented' or not (5e2 <= a['val'] <= 3e7): continue
                b = r.solve(mT, a['val'], z)
                if b is not None:
                    a2 = dict(a); a2['val'] = spec
                    r.same('T', a2, b, f'{which} T→P→T from T={spec!r} via P={a["val"]!r}', f'roundtrip:{which}:T-P-T')
            else:
                a = r.solve(mT, spec, z)
                if a is None or a['status'] == 'documented' or not (150. <= a['val'] <= 700.): continue
                b = r.solve(mP, a['val'], z)
                if b is not None:
                    a2 = dict(a); a2['val'] = spec; a2['T'] = b['T']
                    r.same('P', a2, b, f'{which} P→T→P from P={spec!r} via T={a["val"]!r}', f'roundtrip:{which}:P-T-P')
        elif op == 'ord':
            kind, spec, z = t[1], float(t[2]), np.array(parse_z(t[3]))
            bub = r.solve('bub' + kind, spec, z)
            dew = r.solve('dew' + kind, spec, z)
            r.order(kind, bub, dew, f'{PKG_NAMES[pkg]} {ids} z={z.tolist()} at {"P" if kind == "T" else "T"}={spec!r}')
        elif op == 'scale':
            method, spec, k, z = t[1], float(t[2]), float(t[3]), np.array(parse_z(t[4]))
            a = r.solve(method, spec, z)
            b = r.solve(method, spec, z * k, label=f'[k={k:g}]')
            r.same(method[-1], a, b, f'{method} {ids} z={z.tolist()} spec={spec!r}: z vs {k:g}·z', f'scale:{method}')
            r.tags.add(f'k={k:g}' if 1e-4 < k < 1e4 else ('k<1e-16' if k < 1e-16 else 'k>1e16' if k > 1e16 else 'k-far'))
        elif op == 'buf':
            # a history on ONE BubblePoint / DewPoint object pair in which the caller reuses ONE float ndarray as the
            # composition buffer, updating it in place between calls.  step = method:spec:<z,…> (overwrite in place) |
            # method:spec:*k (scale in place) | method:spec:= (leave as is).  Every call is judged for the CURRENT
            # content of the buffer; `*k` must return the previous root, `=` on the bubble/dew counterpart is ordered.
            b = None
            prev = None         # (method, spec, result)
            for st in t[1].split('/'):
                m, spec, zt = st.split(':')
                spec = float(spec)
                if zt == '=' and b is not None:
                    how = 'keep'
                elif zt.startswith('*') and b is not None:
                    b *= float(zt[1:]); how = 'scale'
                else:
                    zv = parse_z(zt)
                    if b is None or len(zv) != len(b): b = np.array(zv, float)
                    else: b[:] = zv
                    how = 'write'
                res = r.solve(m, spec, b, label=f'[buffer:{how}]')
                if res is not None and prev is not None and prev[2] is not None and prev[1] == spec:
                    if (how == 'write' and prev[0] == m and not res['ok'] and prev[2]['ok'] and not res['single']
                            and res['val'] == prev[2]['val'] and not np.allclose(res['zn'], prev[2]['zn'])):
                        # diagnosis: bit-identical to the answer given for the buffer's previous content
                        r.fail(f'history:{m}:returns-previous-result',
                               f'{m} {ids} spec={spec!r}: after the composition buffer was overwritten in place with '
                               f'{b.tolist()} the same object returned {res["val"]!r}, bit-identical to its answer for the '
                               f'previous content {prev[2]["z"].tolist()} (a result remembered against an aliased array)')
                    if how == 'scale' and prev[0] == m:
                        r.same(m[-1], prev[2], res, f'{m} {ids} spec={spec!r}: buffer scaled in place by {zt[1:]}',
                               f'scale:{m}')
                    elif how == 'keep' and prev[0][-1] == m[-1] and prev[0][:3] != m[:3]:
                        bub, dew = (prev[2], res) if m.startswith('dew') else (res, prev[2])
                        r.order(m[-1], bub, dew, f'{PKG_NAMES[pkg]} {ids} z={b.tolist()} (shared buffer) at spec={spec!r}')
                prev = (m, spec, res)
            r.tags.add('buffer-history')
        elif op == 'fallback':
            # the bracketing fallback of the solve method (reached in the real code when the primary solver raises):
            # its result is judged like any other
            method, spec, z = t[1], float(t[2]), np.array(parse_z(t[3]))
            r.inject = True
            try:
                r.solve(method, spec, z, label='[fallback]')
            finally:
                r.inject = False
        elif op == 'trace':
            # zero level vs trace level: the call with absent chemicals (for one chemical present: the N = 1 shortcut
            # through Chemical.Tsat/Psat) and the call with those chemicals at a trace `eps·Σz` (the general solver) must
            # give the same point
            method, spec, eps, z = t[1], float(t[2]), float(t[3]), np.array(parse_z(t[4]))
            a = r.solve(method, spec, z)
            zt = np.where(z > 0, z, eps * z.sum())
            b = r.solve(method, spec, zt, label=f'[trace={eps:g}]')
            r.same(method[-1], a, b, f'{method} {ids} spec={spec!r}: z={z.tolist()} vs the same with absent chemicals at {eps:g}',
                   f'trace-continuity:{method}')
            r.tags.add('zero-vs-trace')
        elif op == 'xpkg':
            # the same chemicals under two packages inside one case: each must satisfy ITS package's equation
            method, spec, other, z = t[1], float(t[2]), int(t[3]), np.array(parse_z(t[4]))
            r.solve(method, spec, z)
            r.solve(method, spec, z, pkg=other, label=f'[pkg={PKG_NAMES[other]}]')
            r.solve(method, spec, z, label='[again]')
            r.tags.add('xpkg')
        elif op == 'perm':
            method, spec, p, z = t[1], float(t[2]), [int(x) for x in t[3].split(',')], np.array(parse_z(t[4]))
            a = r.solve(method, spec, z)
            ids2 = [ids[i] for i in p]
            b = r.solve(method, spec, z[p], ids=ids2, label=f'[perm={p}]')
            if a is not None and b is not None:
                inv = np.argsort(p)            # b[inv] is in the original order
                r.same(method[-1], a, b, f'{method} {ids} z={z.tolist()} spec={spec!r}: chemicals listed as {ids2}',
                       f'perm:{method}', perm=inv)
            r.tags.add('perm')
        else:
            raise ValueError('unknown op ' + line)
    r.recheck_kept('the end of the case')
    return ImplResult(model_in=r.model_in, outs=r.outs, failures=r.failures, tags=sorted(r.tags),
                      nontrivial=(tuple(case.ops) if r.multi else None))


# --------------------------------------------------------------------------
# comparison of answer lines (tolerance mode)
# --------------------------------------------------------------------------

def _kv(line):
    d = {}
    for tok in line.split(' '):
        if '=' in tok:
            k, v = tok.split('=', 1); d[k] = v
    return d


def _close(a, b, rtol, atol):
    if a != a or b != b: return (a != a) and (b != b)
    return a == b or abs(a - b) <= atol + rtol * max(abs(a), abs(b))


def compare(impl, model):
    if impl == model: return True
    if model.startswith('hyp=0'): return True           # hypothesis not met: the model claims nothing
    a, b = _kv(impl), _kv(model)
    if impl.startswith('ok ') and model.startswith('ok '):
        if impl.split(' ')[1] != model.split(' ')[1]: return False
        if not _close(from_fbits(a['val']), from_fbits(b['val']), 1e-12, 0): return False
        if a.get('doc') == '1': return True
        # impl: what the code claims (0: "this is a root"); model: residual recomputed from the recorded parameters
        tol = RES_TOL_SINGLE if impl.startswith('ok single') else RES_TOL_MULTI
        ra, rb = from_fbits(a['res']), from_fbits(b['res'])
        if not (_close(ra, rb, 1e-9, tol)): return False
        fa, fb = a['frac'].split(','), b['frac'].split(',')
        if len(fa) != len(fb): return False
        if abs(ra) <= tol:      # (a listed, documented non-root carries its recomputed residual: its fractions are not a claim)
            for x, y in zip(fa, fb):
                if not _close(from_fbits(x), from_fbits(y), 0, FRAC_TOL): return False
        return True
    if impl.startswith('hyp=1') and model.startswith('hyp=1'):
        for k in ('le', 'same'):
            if (k in a or k in b) and a.get(k) != b.get(k): return False
        for k in ('pb', 'pd', 'pa'):
            if k in a and k in b and not _close(from_fbits(a[k]), from_fbits(b[k]), 3e-5, 0): return False
        return True
    return False


def model_tags(line):
    if line.startswith('hyp='):
        d = _kv(line)
        t = ['hyp-met' if d['hyp'] == '1' else 'hyp-unmet']
        if 'mono' in d: t.append('kappa-monotone=' + d['mono'])
        return t
    if line.startswith('ok single'): return ['single']
    if line.startswith('ok multi'):
        d = _kv(line)
        try:
            af = abs(from_fbits(d['afres']))
            return ['multi', 'asfound-residual-' + ('zero' if af <= RES_TOL_MULTI else 'nonzero')]
        except Exception:
            return ['multi']
    if line.startswith('err'): return [line.replace(' ', ':')]
    return []


def protect_prefix(case):
    return 1


# --------------------------------------------------------------------------
# generation
# --------------------------------------------------------------------------

def psat(name, T):
    return float(CH[name].Psat(T))


def t_range(ids):
    lo = max([260.] + [CH[i].Psat.Tmin for i in ids] + [TSAT5K[i] for i in ids]) + 0.5
    return lo, 480.


def p_range(ids):
    lo_T = max([260.] + [CH[i].Psat.Tmin for i in ids]) + 5.
    lo = max([5e3] + [psat(i, lo_T) for i in ids])
    hi = min([3e6] + [psat(i, 480.) for i in ids])
    return lo * 1.02, hi * 0.98


def gen_domain_end_case(rng):
    """N ≥ 2 chemicals whose Psat models all start within a few K of each other, T-specified between the highest lower limit
    and ~14 K above the lowest one: inside every chemical's range, at the lower end of the solvers' temperature domain"""
    for _ in range(200):
        n = rng.choice([2, 2, 3])
        ids = rng.sample(LOWEND, n)
        tmins = [CH[i].Psat.Tmin for i in ids]
        lo, hi = max(tmins) + 0.05, min(tmins) + 14.
        if hi - lo >= 3. and all(psat(i, lo) >= 5e3 for i in ids): break
    else:
        return None
    pkg = rng.choice([0, 0, 0, 1, 1, 2])
    ops = [f'sys {pkg} {",".join(ids)}']
    for _ in range(rng.randrange(5, 9)):
        z = [round(rng.uniform(0.05, 1.0), 3) for _ in ids]
        if rng.random() < 0.5: s_ = sum(z); z = [v / s_ for v in z]
        T = round(rng.uniform(lo, min(hi, min(tmins) + 10.)) if rng.random() < 0.65 else rng.uniform(min(tmins) + 10., hi), 3)
        r = rng.random()
        if pkg == 0 and rng.random() < 0.45:
            # (ideal package only: there the true bubble/dew temperature IS T, inside every chemical's Psat range; with an
            #  activity package it can fall below the range, outside the quantifier)
            # the P-specified twin: a pressure whose (ideal) bubble resp. dew temperature is T, i.e. a true bubble/dew
            # temperature inside the window, where the ideal starting guess `_Ty_ideal` / `_Tx_ideal` is clipped at Tmin + 10
            zn = [v / sum(z) for v in z]
            pb = sum(a * psat(i, T) for a, i in zip(zn, ids))
            pd = 1. / sum(a / psat(i, T) for a, i in zip(zn, ids))
            if min(pb, pd) < 5e3: continue
            if r < 0.35: ops.append(f'pt bubT {round(pb, 2)!r} 1.0 {zs(z)}')
            elif r < 0.55: ops.append(f'pt dewT {round(pd, 2)!r} 1.0 {zs(z)}')
            # (bubble ops at the bubble pressure of T, dew ops at its dew pressure, so that the temperature solved for is T
            #  itself; at p_bubble the dew temperature lies above T, still inside the range)
            elif r < 0.75: ops.append(f'ord T {round(pb, 2)!r} {zs(z)}')
            elif r < 0.88: ops.append(f'rt bub P {round(pb, 2)!r} {zs(z)}')
            else: ops.append(f'rt dew P {round(pd, 2)!r} {zs(z)}')
            continue
        if r < 0.3: ops.append(f'pt {rng.choice(["bubP", "dewP"])} {T!r} 1.0 {zs(z)}')
        elif r < 0.55: ops.append(f'rt {rng.choice(["bub", "dew"])} T {T!r} {zs(z)}')
        elif r < 0.75: ops.append(f'ord P {T!r} {zs(z)}')
        elif r < 0.9:
            p = list(range(n)); rng.shuffle(p)
            ops.append(f'perm {rng.choice(["bubP", "dewP"])} {T!r} {",".join(map(str, p))} {zs(z)}')
        else: ops.append(f'scale bubP {T!r} 1000.0 {zs(z)}')
    return Case(ops, {'domain-end': True})


def gen_groupless_case(rng, which, tier):
    """a chemical without UNIFAC groups listed with 2–3 chemicals that have them, under the activity-coefficient packages:
    every ordering of the list (n = 3) or a sample (n = 4), T-specified (the mixtures are wide-boiling: a common pressure
    specification inside every Psat range rarely exists), plus round trip and ordering on one ordering"""
    g = GROUPLESS[which]
    while True:
        n = rng.choice([3, 3, 4])
        others = rng.sample(GROUPED, n - 1)
        ids = others[:]
        ids.insert(rng.randrange(n), g)
        z = [round(rng.uniform(0.1, 1.0), 3) for _ in ids]
        if uniq_flag(ids, 1, z): break                  # no liquid–liquid immiscible pair
    s_ = sum(z); z = [v / s_ for v in z]
    pkg = rng.choice([1, 1, 2])
    lo = max([262.] + [CH[i].Psat.Tmin + 2 for i in ids])
    hi = min([CH[g].Psat.Tmax - 15., 420.])
    # keep every pure vapour pressure ≤ 3e6 Pa
    while hi > lo + 5 and psat(g, hi) > 2.5e6: hi -= 5.
    ops = [f'sys {pkg} {",".join(ids)}']
    perms = list(itertools.permutations(range(n)))
    if n == 4 or tier == 'quick': perms = rng.sample(perms, min(len(perms), 6 if n == 3 else 8))
    for m in ('bubP', 'dewP'):
        T = round(rng.uniform(lo, hi), 2)
        for p in perms:
            if list(p) != list(range(n)): ops.append(f'perm {m} {T!r} {",".join(map(str, p))} {zs(z)}')
    T = round(rng.uniform(lo, hi), 2)
    ops += [f'ord P {T!r} {zs(z)}', f'rt bub T {T!r} {zs(z)}', f'scale dewP {T!r} 1000.0 {zs(z)}']
    return Case(ops, {'groupless': g})


def gen_z(rng, n, normalised=None):
    while True:
        z = []
        for _ in range(n):
            r = rng.random()
            if r < 0.12: z.append(0.)
            elif r < 0.22: z.append(rng.choice([1e-9, 1e-7, 1e-6, 1e-4]))
            else: z.append(round(rng.uniform(0.02, 1.), 4))
        if sum(1 for v in z if v > 0) >= 1: break
    s = sum(z)
    if normalised is None: normalised = rng.random() < 0.5
    if normalised:
        z = [v / s for v in z]
    else:
        m = rng.choice([1., 2.5, 10., 0.1, 37.])
        z = [v * m for v in z]
    return z


def zs(z):
    return ','.join(repr(float(v)) for v in z)


def gen_spec(rng, ids, kind):
    """kind 'T': a temperature specification; 'P': a pressure specification."""
    if kind == 'T':
        lo, hi = t_range(ids)
        return round(rng.uniform(lo, hi), 3)
    lo, hi = p_range(ids)
    if lo >= hi: return None
    return round(math.exp(rng.uniform(math.log(lo), math.log(hi))), 2)


def gen_case(rng, tier, force=None):
    n = rng.choice([1, 2, 2, 3, 3, 4, 5])
    ids = rng.sample(NAMES, n)
    pkg = rng.choice([0, 0, 1, 1, 2])
    ops = [f'sys {pkg} {",".join(ids)}']
    nops = rng.randrange(3, 7)
    for _ in range(nops):
        r = rng.random() if force is None else force
        z = gen_z(rng, n)
        if r < 0.25:
            m = rng.choice(METHODS)
            spec = gen_spec(rng, ids, 'P' if m.endswith('T') else 'T')
            if spec is None: continue
            k = rng.choice(KS)
            if rng.random() < 0.15 and sum(1 for v in z if v > 0) >= 2: k = extreme_k(rng)
            ops.append(f'pt {m} {spec!r} {k!r} {zs(z)}')
        elif r < 0.45:
            start = rng.choice('TP')
            spec = gen_spec(rng, ids, start)
            if spec is None: continue
            ops.append(f'rt {rng.choice(["bub", "dew"])} {start} {spec!r} {zs(z)}')
        elif r < 0.65:
            kind = rng.choice('TP')
            spec = gen_spec(rng, ids, 'P' if kind == 'T' else 'T')
            if spec is None: continue
            ops.append(f'ord {kind} {spec!r} {zs(z)}')
        elif r < 0.72:
            m = rng.choice(METHODS)
            spec = gen_spec(rng, ids, 'P' if m.endswith('T') else 'T')
            if spec is None: continue
            k = rng.choice([1e-3, 1e3, 1e-3, 1e3, 2.0, 0.5])
            if rng.random() < 0.25 and sum(1 for v in z if v > 0) >= 2: k = extreme_k(rng)
            ops.append(f'scale {m} {spec!r} {k!r} {zs(z)}')
        elif r < 0.77 and n > 1:
            b = gen_buf(rng, ids)
            if b: ops.append(b)
        elif r < 0.80 and n > 1:
            m = rng.choice(METHODS)
            spec = gen_spec(rng, ids, 'P' if m.endswith('T') else 'T')
            if spec is None: continue
            ops.append(f'fallback {m} {spec!r} {zs(z)}')
        elif r < 0.88:
            m = rng.choice(METHODS)
            spec = gen_spec(rng, ids, 'P' if m.endswith('T') else 'T')
            if spec is None: continue
            ops.append(f'xpkg {m} {spec!r} {rng.choice([q for q in (0, 1, 2) if q != pkg])} {zs(z)}')
        else:
            if n == 1: continue
            m = rng.choice(METHODS)
            spec = gen_spec(rng, ids, 'P' if m.endswith('T') else 'T')
            if spec is None: continue
            p = list(range(n)); rng.shuffle(p)
            ops.append(f'perm {m} {spec!r} {",".join(map(str, p))} {zs(z)}')
    return Case(ops, {})


def gen_buf(rng, ids, length=None):
    """one `buf` op: a call history through one reused composition buffer"""
    n = len(ids)
    length = length or rng.randrange(3, 7)
    steps = []
    m = rng.choice(METHODS)
    spec = gen_spec(rng, ids, 'P' if m.endswith('T') else 'T')
    if spec is None: return None
    specs = {m[-1]: spec}           # one specification per kind, so that repeated calls share it exactly
    steps.append(f'{m}:{spec!r}:{zs(gen_z(rng, n))}')
    while len(steps) < length:
        r = rng.random()
        if r < 0.5:                  # same method, same specification, new content (the memo-on-alias pattern)
            steps.append(f'{m}:{spec!r}:{zs(gen_z(rng, n))}')
        elif r < 0.65:               # the bubble/dew counterpart on the untouched buffer
            m = ('dew' if m.startswith('bub') else 'bub') + m[-1]
            steps.append(f'{m}:{spec!r}:=')
        elif r < 0.78:               # scale in place
            steps.append(f'{m}:{spec!r}:*{rng.choice([2.0, 0.5, 1000.0, 0.001])!r}')
        else:                        # switch method / kind of specification
            m = rng.choice(METHODS)
            if m[-1] not in specs:
                sp = gen_spec(rng, ids, 'P' if m.endswith('T') else 'T')
                if sp is None: continue
                specs[m[-1]] = sp
            spec = specs[m[-1]]
            steps.append(f'{m}:{spec!r}:{zs(gen_z(rng, n))}')
    return 'buf ' + '/'.join(steps)


def gen_buf_case(rng):
    n = rng.choice([2, 2, 3, 4])
    ids = rng.sample(NAMES, n)
    pkg = rng.choice([0, 1, 1, 2])
    ops = [f'sys {pkg} {",".join(ids)}']
    for _ in range(rng.randrange(1, 4)):
        b = gen_buf(rng, ids)
        if b: ops.append(b)
    return Case(ops, {'buffer': True}) if len(ops) > 1 else None


# miscible binaries with a pressure-maximum azeotrope under the activity-coefficient packages: the dew/bubble pressure
# lies OUTSIDE the interval of the pure-component vapour pressures near the azeotrope
AZEOTROPES = [(('Water', 'Propanol'), (0.1, 0.9)), (('Water', 'Ethanol'), (0.8, 0.99)), (('Ethanol', 'Toluene'), (0.1, 0.7)),
              (('Ethanol', 'Benzene'), (0.3, 0.8)), (('Propanol', 'Toluene'), (0.2, 0.8)), (('Methanol', 'Benzene'), (0.2, 0.8))]


def gen_azeo_case(rng, which=None):
    (a, b), (lo, hi) = AZEOTROPES[rng.randrange(len(AZEOTROPES)) if which is None else which]
    ids = [a, b] if rng.random() < 0.5 else [b, a]
    pkg = rng.choice([1, 1, 2])
    ops = [f'sys {pkg} {",".join(ids)}']
    for _ in range(rng.randrange(3, 6)):
        xb = round(rng.uniform(lo, hi), 3)            # fraction of the second-named chemical of the pair
        z = [1 - xb, xb] if ids[0] == a else [xb, 1 - xb]
        if rng.random() < 0.3: z = [v * rng.choice([2.0, 10.0, 0.1]) for v in z]
        T = round(rng.uniform(335., 375.), 2)
        r = rng.random()
        if r < 0.3: ops.append(f'rt dew T {T!r} {zs(z)}')
        elif r < 0.45: ops.append(f'rt bub T {T!r} {zs(z)}')
        elif r < 0.65: ops.append(f'ord P {T!r} {zs(z)}')
        elif r < 0.8: ops.append(f'pt {rng.choice(["dewP", "bubP"])} {T!r} 1.0 {zs(z)}')
        else:
            P = gen_spec(rng, ids, 'P')
            if P is not None: ops.append(f'ord T {min(P, 3e5)!r} {zs(z)}')
    return Case(ops, {'azeotrope': True})


def gen_edge_case(rng, which):
    """single component at the ends of its vapour-pressure model: P-specified (Chemical.Tsat) and T-specified calls within
    a few K of Psat.Tmin / Psat.Tmax, on both sides of the `± 1 K` margin Chemical.Tsat brackets with, round trips, and the
    same call with the absent chemical at a trace (general solver)."""
    chem, partner, end = EDGES[which]
    three = rng.random() < 0.3
    ids = [partner, chem] if rng.random() < 0.5 else [chem, partner]
    if three: ids.insert(rng.randrange(3), rng.choice([n for n in ('Toluene', 'Ethanol', 'Hexane') if n not in ids]))
    pkg = rng.choice([0, 1, 1, 2])
    z = [1.0 if i == chem else 0.0 for i in ids]
    if rng.random() < 0.3: z = [v * rng.choice([2.5, 1e-3, 40.0]) for v in z]
    ps = CH[chem].Psat
    ops = [f'sys {pkg} {",".join(ids)}']
    for _ in range(rng.randrange(3, 6)):
        u = rng.choice([rng.uniform(0.03, 0.97), rng.uniform(0.03, 0.97), rng.uniform(1.03, 4.0)])
        T0 = round(ps.Tmin + u if end == 'lower' else ps.Tmax - u, 3)
        P0 = float(ps(T0))
        if not 5e3 <= P0 <= 3e6: continue
        P = round(P0, 2)
        r = rng.random()
        w = rng.choice(['bub', 'dew'])
        if r < 0.3: ops.append(f'rt {w} T {T0!r} {zs(z)}')
        elif r < 0.5: ops.append(f'rt {w} P {P!r} {zs(z)}')
        elif r < 0.8: ops.append(f'trace {w}T {P!r} {rng.choice([1e-10, 1e-9])!r} {zs(z)}')
        elif r < 0.9: ops.append(f'trace {w}P {T0!r} 1e-10 {zs(z)}')
        else: ops.append(f'ord T {P!r} {zs(z)}')
    return Case(ops, {'edge': end}) if len(ops) > 1 else None


def gen_crit_case(rng, which):
    """one chemical present, specification around / beyond its critical value"""
    chem, partner, kind = CRITICAL[which]
    ids = [partner, chem] if rng.random() < 0.5 else [chem, partner]
    pkg = rng.choice([0, 1, 2])
    z = [rng.choice([1.0, 1.0, 3.5, 1e-3]) if i == chem else 0.0 for i in ids]
    c = CH[chem]
    ops = [f'sys {pkg} {",".join(ids)}']
    for _ in range(rng.randrange(2, 5)):
        w = rng.choice(['bub', 'dew'])
        if kind == 'T':
            T = round(rng.choice([rng.uniform(c.Tc + 0.01, 480.), rng.uniform(c.Tc - 3., c.Tc - 0.01), c.Tc]), 3)
            ops.append(f'pt {w}P {T!r} 1.0 {zs(z)}')
        else:
            P = round(rng.choice([rng.uniform(c.Pc + 1., 3e6), rng.uniform(0.97 * c.Pc, c.Pc - 1.), c.Pc]), 2)
            ops.append(f'pt {w}T {P!r} 1.0 {zs(z)}')
    return Case(ops, {'critical': kind})


def gen_neighbour_case(rng, which):
    pkg, ids, m, spec, z = NEIGHBOURS[which]
    ops = [f'sys {pkg} {ids}']
    for _ in range(4):
        zz = [v * (10 ** rng.uniform(-0.7, 0.7) if v < 1e-6 else 1 + rng.uniform(-0.04, 0.04)) for v in z]
        sp = round(spec * (1 + rng.uniform(-0.004, 0.004)), 3)
        ops.append(f'pt {m} {sp!r} 1.0 {zs(zz)}')
    return Case(ops, {'neighbour': which})


def gen_extreme_k_case(rng):
    """N ≥ 2 compositions scaled by 1e-25 … 1e25, all four methods (bubble and dew alike)"""
    n = rng.choice([2, 2, 3, 4])
    ids = rng.sample(NAMES, n)
    pkg = rng.choice([0, 1, 1, 2])
    while True:
        z = gen_z(rng, n)
        if sum(1 for v in z if v > 0) >= 2: break
    ops = [f'sys {pkg} {",".join(ids)}']
    for m in METHODS:
        spec = gen_spec(rng, ids, 'P' if m.endswith('T') else 'T')
        if spec is not None: ops.append(f'scale {m} {spec!r} {extreme_k(rng)!r} {zs(z)}')
    return Case(ops, {'extreme-k': True}) if len(ops) > 1 else None


def gen_fallback_case(rng):
    n = rng.choice([2, 2, 3, 4])
    ids = rng.sample(NAMES, n)
    pkg = rng.choice([0, 1, 1, 2])
    ops = [f'sys {pkg} {",".join(ids)}']
    for m in rng.sample(METHODS, 3):
        spec = gen_spec(rng, ids, 'P' if m.endswith('T') else 'T')
        if spec is not None: ops.append(f'fallback {m} {spec!r} {zs(gen_z(rng, n))}')
    return Case(ops, {'fallback': True}) if len(ops) > 1 else None


def gen_perm_sweep(rng, n):
    """all permutations (n ≤ 4) or a sample of 24 (n = 5; all 120 in the thorough tier's sweep) of one system,
    each for one method, plus the three k values."""
    ids = rng.sample(NAMES, n)
    pkg = rng.choice([0, 1, 2])
    z = gen_z(rng, n)
    ops = [f'sys {pkg} {",".join(ids)}']
    m = rng.choice(METHODS)
    spec = gen_spec(rng, ids, 'P' if m.endswith('T') else 'T')
    if spec is None: return None
    perms = list(itertools.permutations(range(n)))
    return ids, pkg, z, m, spec, perms, ops


def _run_seed():
    """the run's seed (the framework hands a per-worker rng only): --seed on the command line, else VERIF_SEED, else the default"""
    import os, sys
    a = sys.argv
    for i, t in enumerate(a):
        if t == '--seed' and i + 1 < len(a):
            try: return int(a[i + 1])
            except ValueError: pass
        if t.startswith('--seed='):
            try: return int(t.split('=', 1)[1])
            except ValueError: pass
    return int(os.environ.get('VERIF_SEED', '20260927'))


def gen_share(rng, tier, v):
    """one of the VSHARES seed-derived shares of the case space"""
    q = tier == 'quick'
    n = max(1, budget(tier)['cases'] // VSHARES)
    # permutation / scaling sweeps first (a fixed share), then the targeted classes, then random cases
    for s in range(1 if q else 3):
        nn = rng.choice([2, 3, 4] if q else [3, 4, 5, 5])
        g = gen_perm_sweep(rng, nn)
        if g is None: continue
        ids, pkg, z, m, spec, perms, ops = g
        if len(perms) > 24 and q: perms = rng.sample(perms, 24)
        for p in perms:
            ops.append(f'perm {m} {spec!r} {",".join(map(str, p))} {zs(z)}')
        for k in KS + ([extreme_k(rng), extreme_k(rng)] if sum(1 for v in z if v > 0) >= 2 else []):
            for mm in METHODS:
                sp = gen_spec(rng, ids, 'P' if mm.endswith('T') else 'T')
                if sp is not None: ops.append(f'scale {mm} {sp!r} {k!r} {zs(z)}')
        yield Case(ops, {'sweep': True})
    # single component at the ends of its vapour-pressure model (each listed chemical ≥ 8 times per quick run)
    for i in range(4 if q else 2 * len(EDGES)):
        c = gen_edge_case(rng, (4 * v + i) % len(EDGES))
        if c is not None: yield c
    # single component around / beyond its critical point
    for i in range(2 if q else len(CRITICAL)):
        yield gen_crit_case(rng, (2 * v + i) % len(CRITICAL))
    # near-azeotropic miscible binaries
    for i in range(3 if q else 2 * len(AZEOTROPES)):
        yield gen_azeo_case(rng, (3 * v + i) % len(AZEOTROPES))
    # histories through one reused composition buffer
    for _ in range(3 if q else 20):
        c = gen_buf_case(rng)
        if c is not None: yield c
    # the bracketing fallbacks of the four solve methods (primary solver made to fail)
    for _ in range(2 if q else 12):
        c = gen_fallback_case(rng)
        if c is not None: yield c
    # T-specified calls at the lower end of the union of the listed chemicals' Psat ranges
    for _ in range(2 if q else 8):
        c = gen_domain_end_case(rng)
        if c is not None: yield c
    # a chemical without UNIFAC groups among chemicals that have them, every listing order
    for i in range(1 if q else len(GROUPLESS)):
        yield gen_groupless_case(rng, (v + i) % len(GROUPLESS), tier)
    # totals far outside {1e-3, 1, 1e3}·Σz
    for _ in range(2 if q else 10):
        c = gen_extreme_k_case(rng)
        if c is not None: yield c
    # neighbourhoods of the witnesses of listed findings
    for i in range(2 if q else len(NEIGHBOURS)):
        yield gen_neighbour_case(rng, (2 * v + i) % len(NEIGHBOURS))
    for _ in range(n):
        yield gen_case(rng, tier)


def generate(rng, tier, index, nworkers):
    """The cases depend on (seed, tier) only: VSHARES shares, each with its own generator derived from the run's seed;
    worker `index` of `nworkers` takes the shares ≡ index (mod nworkers).  (`rng` — seeded per worker by the framework —
    is not used, so --jobs does not change the case set.)"""
    seed = _run_seed()
    for v in range(VSHARES):
        if v % nworkers != index: continue
        yield from gen_share(random.Random((seed * 1000003 + 7919 * (v + 1)) ^ 0xC08), tier, v)


def corpus():
    W = 'Water,Ethanol'
    return [
        # the doctest compositions
        Case([f'sys 1 {W}', 'pt bubP 355.0 1.0 0.5,0.5', 'pt bubT 101325.0 1.0 0.5,0.5', 'pt bubT 101325.0 1.0 0.6,0.4',
              'pt bubP 352.28 1.0 0.703,0.297', 'pt dewP 355.0 1.0 0.5,0.5', 'pt dewT 202648.0 1.0 0.5,0.5',
              'pt dewT 101325.0 1.0 0.5,0.5', 'pt dewP 352.28 1.0 0.5,0.5']),
        # DESIGN.md §8 #17: unnormalised z (moles) and k·z in the three methods that use the raw z
        Case([f'sys 1 {W}', 'pt bubT 101325.0 1.0 1.0,1.0', 'pt dewT 101325.0 1.0 1.0,1.0', 'pt dewP 355.0 1.0 1.0,1.0',
              'pt bubP 355.0 1.0 1.0,1.0']),
        Case([f'sys 0 {W}', 'scale bubT 101325.0 1000.0 0.5,0.5', 'scale dewT 101325.0 0.001 0.5,0.5',
              'scale dewP 355.0 1000.0 0.5,0.5', 'scale bubP 355.0 0.001 0.5,0.5']),
        # single component: present alone, present among absent ones, above the critical pressure
        Case(['sys 1 Octane', 'pt bubT 50000.0 1.0 1.0', 'pt dewT 50000.0 1000.0 1.0', 'pt bubP 400.0 0.001 1.0',
              'pt dewP 400.0 1.0 2.0', 'pt bubT 2600000.0 1.0 1.0', 'pt dewT 2600000.0 1.0 1.0',
              'rt bub T 400.0 1.0', 'rt dew P 50000.0 1.0', 'ord T 50000.0 1.0', 'ord P 400.0 1.0']),
        Case(['sys 1 Water,Hexane,Ethanol', 'pt bubT 60000.0 1.0 0.0,0.0,3.0', 'pt dewP 350.0 1.0 0.0,2.0,0.0',
              'pt dewT 60000.0 1.0 0.0,0.0,0.0', 'pt bubP 350.0 1.0 0.0,0.0,0.0', 'perm dewP 350.0 2,0,1 0.0,2.0,0.0']),
        # ordering, round trips, permutation on the ideal package (closed forms)
        Case(['sys 0 Benzene,Toluene,Hexane', 'ord P 360.0 0.3,0.3,0.4', 'ord T 101325.0 0.3,0.3,0.4',
              'rt bub T 360.0 0.3,0.3,0.4', 'rt dew P 101325.0 0.3,0.3,0.4', 'perm bubT 101325.0 2,0,1 0.3,0.3,0.4',
              'perm dewP 360.0 1,2,0 1e-09,0.5,0.5']),
        # one chemical present, within 1 K of the lower end of its Psat model (P-specified → Chemical.Tsat) and its trace twin
        Case(['sys 1 Hexane,Cyclohexane', 'rt bub T 280.26 0.0,1.0', 'rt dew T 280.26 0.0,1.0', 'trace bubT 5461.84 1e-10 0.0,1.0',
              'trace dewT 5461.84 1e-10 0.0,1.0', 'pt bubT 5400.0 1.0 0.0,2.0', 'rt bub P 5600.0 0.0,1.0'], {'edge': 'lower'}),
        Case(['sys 0 tert-Butanol,Ethanol', 'rt bub T 299.37 1.0,0.0', 'trace dewT 6051.7 1e-10 1.0,0.0', 'pt dewT 6200.0 1.0 1.0,0.0'],
             {'edge': 'lower'}),
        Case(['sys 1 Octane,Toluene', 'rt bub T 568.24 1.0,0.0', 'pt dewT 2466095.8 1.0 1.0,0.0', 'trace bubT 2430000.0 1e-10 1.0,0.0'],
             {'edge': 'upper'}),
        # T within 10 K of the lower end of the union of the Psat ranges (vle_domain's Tmin, which solve_Py clamps to)
        Case(['sys 1 Benzene,Cyclohexane', 'pt bubP 280.0 1.0 0.5,0.5', 'rt bub T 284.0 0.5,0.5', 'rt dew T 281.5 0.3,0.7',
              'ord P 286.0 0.6,0.4', 'pt bubP 288.0 1.0 0.2,0.8', 'pt bubP 290.0 1.0 0.2,0.8'], {'domain-end': True}),
        # … and P-specified: the true bubble / dew temperature lies within 10 K of that lower end (ideal package)
        Case(['sys 0 Benzene,Cyclohexane', 'pt bubT 6000.0 1.0 0.5,0.5', 'pt dewT 6000.0 1.0 0.5,0.5', 'ord T 6500.0 0.3,0.7',
              'rt bub P 7000.0 0.6,0.4', 'pt bubT 9500.0 1.0 0.5,0.5'], {'domain-end': True}),

        # a chemical without Dortmund groups (γ = 1) listed first / in the middle / last among chemicals with groups
        Case(['sys 1 Ethanol,Methanol,SO2', 'perm bubP 300.0 2,0,1 0.35,0.45,0.2', 'perm bubP 300.0 0,2,1 0.35,0.45,0.2',
              'perm dewP 300.0 2,1,0 0.35,0.45,0.2', 'perm bubP 300.0 1,0,2 0.35,0.45,0.2', 'ord P 300.0 0.35,0.45,0.2',
              'rt bub T 300.0 0.35,0.45,0.2'], {'groupless': 'SO2'}),
        Case(['sys 2 Benzene,Ammonia,Toluene,Propanol', 'perm dewP 320.0 1,0,2,3 0.3,0.2,0.3,0.2', 'perm bubP 320.0 3,2,1,0 0.3,0.2,0.3,0.2',
              'perm bubP 320.0 0,2,3,1 0.3,0.2,0.3,0.2'], {'groupless': 'Ammonia'}),
        # totals far outside the usual scale: Σz = 1e-20 and 1e20 (N ≥ 2)
        Case(['sys 1 Water,Ethanol', 'scale bubT 101325.0 1e-20 0.5,0.5', 'scale dewT 101325.0 1e-20 0.5,0.5',
              'scale dewP 355.0 3e-17 0.2,0.8', 'scale bubP 355.0 1e-25 0.2,0.8', 'scale dewT 101325.0 1e+20 0.3,0.7',
              'scale bubT 101325.0 1e+20 0.3,0.7'], {'extreme-k': True}),
        # specification beyond the critical point of the only chemical present
        Case(['sys 1 Hexane,Pentane', 'pt bubP 475.0 1.0 0.0,1.0', 'pt dewP 475.0 1.0 0.0,2.0', 'pt bubP 469.0 1.0 0.0,1.0',
              'pt dewP 469.7 1.0 0.0,1.0'], {'critical': 'T'}),
        Case(['sys 0 Heptane,Toluene', 'pt bubT 2900000.0 1.0 1.0,0.0', 'pt dewT 2900000.0 1.0 1.0,0.0', 'pt bubT 2700000.0 1.0 1.0,0.0'],
             {'critical': 'P'}),
        # the bracketing fallbacks (primary solver made to fail)
        Case(['sys 1 Water,Ethanol', 'fallback bubT 101325.0 0.5,0.5', 'fallback bubP 355.0 0.5,0.5', 'fallback dewT 101325.0 0.5,0.5',
              'fallback dewP 355.0 0.5,0.5'], {'fallback': True}),
        Case(['sys 0 Benzene,Toluene,Hexane', 'fallback bubT 80000.0 0.2,0.3,0.5', 'fallback bubP 350.0 0.2,0.3,0.5',
              'fallback dewT 80000.0 1e-09,0.3,0.7', 'fallback dewP 350.0 0.2,0.3,0.5'], {'fallback': True}),
        # near a pressure-maximum azeotrope the dew/bubble pressure is outside [min Psat, max Psat]
        Case(['sys 1 Water,Propanol'] + [f'rt dew T 360.0 {1 - x:.1f},{x:.1f}' for x in (0.1, 0.3, 0.5, 0.7, 0.9)]
             + ['ord P 360.0 0.6,0.4', 'rt bub T 360.0 0.6,0.4'], {'azeotrope': True}),
        Case(['sys 1 Water,Ethanol', 'rt dew T 351.0 0.15,0.85', 'rt dew T 351.0 0.08,0.92', 'rt dew T 351.0 0.02,0.98',
              'ord P 351.0 0.1,0.9'], {'azeotrope': True}),
        Case(['sys 2 Ethanol,Toluene', 'rt dew T 350.0 0.8,0.2', 'rt dew T 350.0 0.7,0.3', 'ord P 350.0 0.8,0.2',
              'rt bub T 350.0 0.8,0.2'], {'azeotrope': True}),
        # one composition buffer reused across calls on the same objects (T-x-y sweep, in-place scaling, both objects)
        Case([f'sys 1 {W}', 'buf bubT:101325.0:0.95,0.05/bubT:101325.0:0.1,0.9/bubT:101325.0:*2.0/dewT:101325.0:=/'
                            'dewT:101325.0:0.6,0.4/bubT:101325.0:=',
              'buf bubT:101325.0:0.8,0.2/bubT:101325.0:0.6,0.4/bubT:101325.0:0.4,0.6/bubT:101325.0:0.2,0.8',
              'buf dewP:355.0:0.8,0.2/dewP:355.0:0.3,0.7/bubP:355.0:=/bubP:355.0:0.5,0.5/bubP:355.0:*1000.0/'
              'bubT:101325.0:0.5,0.5/bubP:355.0:0.9,0.1/bubT:101325.0:0.9,0.1/dewT:101325.0:='],
             {'buffer': True}),
        Case(['sys 0 Benzene,Toluene,Hexane',
              'buf bubT:80000.0:0.2,0.3,0.5/bubT:80000.0:0.6,0.3,0.1/dewT:80000.0:=/dewT:80000.0:0.1,0.1,0.8/'
              'bubT:80000.0:=/bubT:80000.0:*0.001/dewP:350.0:0.3,0.3,0.4/dewP:350.0:0.7,0.2,0.1/bubP:350.0:=']),
        Case(['sys 0 Water,Ethanol,Methanol', 'xpkg bubP 350.0 1 0.3,0.3,0.4', 'xpkg dewT 101325.0 2 0.3,0.3,0.4',
              'xpkg bubT 101325.0 1 0.0,1.0,0.0']),
        Case(['sys 2 Methanol,Ethanol,Propanol', 'ord P 350.0 0.2,0.3,0.5', 'ord T 80000.0 0.2,0.3,0.5',
              'rt dew T 350.0 0.2,0.3,0.5', 'rt bub P 80000.0 0.2,0.3,0.5', 'perm dewT 80000.0 2,1,0 0.2,0.3,0.5']),
    ]
