"""
C03 — phase equilibrium never creates, destroys or makes negative any material.

What is compared
----------------
The Lean model (lean/ThermoVerif/Model/EqWriteback.lean) is the *write-back layer* of every
equilibrium path of thermosteam: VLE._setup, VLE._solve_v's clip, set_flows, the all-vapour /
all-liquid shortcuts, the single-component setters, VLE._lever_rule, the H/S correction steps,
LLE.get_liquid_mol_data + the write-back of LLE.__call__ (solver path, cached-K path, top-chemical
swap, renormalisation by F_mol), SLE._update_solubility and the pure-solute setters, and the
pool / normalise / alternate / swap / merge / rescale skeleton of Stream.vlle.  Whatever the numerical
solvers return is an unconstrained parameter of those steps.

The adapter drives the real code through the public API (Stream/MultiStream .vle/.lle/.sle/.vlle) and
instruments the solver boundaries at run time (no source edits): every write-back step the real code
performs becomes one protocol line carrying the recorded solver output; the answer of the line is the
real `imol.data` right after the step.  The driver recomputes each post-state from the recorded
parameters (Float) and the two are compared with rtol 1e-9.

The property oracle looks at the real stream only: per-chemical totals over all phases before vs after
every call that returns normally, min flow, gas-only chemicals entirely in g, liquid/solid-only never in g.
"""
from __future__ import annotations
import math, random, warnings, itertools
from harness.core import Case, ImplResult, fbits, from_fbits, close

PID = 'C03'
LEAN_MODULES = ['ThermoVerif.Props.C03']
RULE = ('1–4 equilibrium calls on one real (Multi)Stream, 40% of the random cases (and a grid per package and family) being '
        'REUSE HISTORIES: 2–4 calls through the stream\'s cached VLE/LLE/SLE objects (and vlle) with flows edited in between '
        '(material added to the phase where it does not belong without changing the set of chemicals, amounts changed, '
        'chemicals added / removed, re-distribution), every call judged by the oracle and mirrored by the model incl. '
        '`_setup`\'s reuse-or-rebuild decision; otherwise: a grid over chemical packages (volatile only; LLE-capable; '
        'with gas-locked N2/O2/CO2 and liquid/solid-locked Glucose/NaCl; a solute/solvent package) x non-empty subsets x '
        'initial distribution over phases x operation (VLE with T-P, P-V, T-V, P-H, P-S, T-H, T-S, T-x, P-x, T-y, P-y; '
        'LLE with/without top chemical and on the cached-K path; SLE at T, H, given solubility; vlle), then random '
        'cases with log-uniform flows 1e-3..1e3, T 250-500 K, P 1e4-5e6 Pa, V in [0,1] incl. 0 and 1, H/S from inside and '
        'outside the two-phase range.  Non-trivial = at least one call returned normally and moved material between '
        'phases; distinct = distinct (package, subset, op kinds, write-back branches taken).')
ASSUMPTIONS = [
    'solver outputs are parameters: VLE._solve_v_fixed_point (raw v), bubble/dew compositions in the lever rule, '
    'LLE.solve_lle_liquid_mol (mol_L), binary_phase_fraction.phase_fraction on the cached-K path, SLE._solve_x, '
    'the fraction f of the H/S correction step (recovered from the donor row), single-component vapor fraction V',
    'hypothesis monitors (evaluated by the driver on the recorded values, tolerance 1e-12*scale; an unmet one is '
    'reported as a broken correspondence naming it): un-clipped vapour flows passed to set_flows satisfy '
    '0 <= v <= mol; lever-rule compositions y >= 0 and F_mol >= 0; single-component / melting fraction in [0,1]; LLE '
    'optimiser output 0 <= mol_L <= z; cached path 0 <= phi and 0 <= phi*K; SLE solute is a member of the index and '
    'its register is fresh; vlle fixed-point iterate carries the same per-chemical totals as the current data; '
    'no chemical is classified both gas-only and non-volatile',
    'VLE._lever_rule is modelled with the repair of fixes_proposed/C03-1.md (vapour flow limited to what is there); '
    'on the tree as found the check reports negative-flow:vle:lever-rule',
    'reactive flashes themselves are excluded (below), but ORDINARY calls after one on the same cached VLE object are inside '
    'the property: the generator draws reactive-then-plain histories (package E, esterification; ops `rvle`), the reactive '
    'call runs un-recorded and un-judged, the model is told what its `_setup` stored (`vle.reactive`, theorem '
    'vle_history_reactive_independent) and every later ordinary call is compared step by step and judged by the oracle '
    '(non-negativity only when the flows before the call were non-negative)',
    'EXCLUDED ENTRY POINTS (reactive flash; they change per-chemical totals by design): VLE.__call__ / Stream.vle / '
    'MultiStream.vle with gas_conversion= or liquid_conversion= (Reaction, ReactionItem, KineticReaction or handle), hence '
    'the conversion branches of set_thermal_condition, set_TV, set_PV, set_PH (the `+ dz*F_mol_vle`, `_dmol_vle`, `_dF_mol` '
    'paths), of _solve_v_fixed_point / xVlogK_iter / xVlogK_iter_2n, and BubblePoint.solve_Ty/solve_Py / '
    'DewPoint.solve_Tx/solve_Px called with a conversion; also not exercised: LLE.method = "shgo", LLE.__call__(update=False), the separate '
    'thermosteam.equilibrium.vlle.VLLE class',
    'the bubble- / dew-limited branches of set_TV / set_PV are recognised by recomputing them from the recorded bubble / '
    'dew composition bit for bit; the per-chemical cap is part of the model (theorem limited_cap), monitored: 0 <= V <= 1, '
    'composition >= 0, F_mol >= 0',
    'object identity of the cached solver objects is part of the protocol (`vle.begin <obj>`, `sle.begin <obj>`): the driver '
    'keeps `_nonzero`/`_index` (VLE) and `_nonzero`/`_index`/`_chemical is set` (SLE) per object, and `vle.setup` / `sle.setup` '
    'compare the reuse decision and the index with the real object',
    'for a stream that also has s/L rows, a VLE call only owns the l and g rows; the placement clauses are evaluated on those',
    'the placement clauses are judged against the DECLARED phase locks (Chemical(..., phase=)), not against the '
    '_light_indices/_heavy_indices the code compiled (a difference is itself reported: misclassified-phase-lock); the model is '
    'given the compiled lists because it mirrors the code',
    'SLE._setup is modelled as of 6d30f81 (the index re-use path checks that the solute is a member, fixes_proposed/C03-3.md), '
    '899e590 (a single-chemical setup stores key set and index too; a multi-chemical setup leaves pure-solute mode) and f93a1e5 '
    '(re-use with a one-element index: pure-solute mode for the current solute, no membership check)',
    'packages: NaCl and Glucose carry N_solutes 2 and 1 (so `_heavy_solutes`, `_F_mol_heavy` and the sites they guard are live); '
    'package F has un-locked Propane and CO2 for the single-component branch at and above Tc; LLE single_loop=True is drawn (sl=1)',
    'unexpected-raise is not reported for a correlation evaluated outside its range or a solver that did not converge '
    '(message-based: extrapolat*, could not be solved, tolerance reached, ...): such calls do not return normally and are '
    'outside the quantifier; the numba cache race (ReferenceError) can still occur when several processes share '
    'NUMBA_CACHE_DIR: it is excused and counted (`raise:...:ReferenceError`)',
    'the conversion Stream -> MultiStream / phase re-labelling done by the `.vle/.lle/.sle` property access happens before the '
    '`before` snapshot (C12\'s subject): it is not judged here',
    'LLE remembered-coefficients branch: the adapter records the RAW Rachford-Rice root inside phase_fraction (both root '
    'functions of binary_phase_fraction are wrapped) and the model applies as_valid_fraction itself (path cacheRaw, theorem '
    'lle_cached_nonneg_for_every_root); the generator draws binary pairs whose composition drifts across the edge of the '
    'remembered two-liquid envelope between cached calls (edit `edge`, tags lle:cache:raw-root:outside), under the default and '
    'under a raised public composition_cache_tolerance (`ctol=`)',
    'oracle tolerances are PER CHEMICAL: totals rtol 1e-9 of the chemical\'s own total (exact when absent); a phase flow of '
    'chemical i must be >= -1e-12 * (total of chemical i): clip / set_flows / correction steps are sign-exact in binary64, only '
    '(z - mol_L)*F_mol, m - F*x/(1-x) and x/total*total round by a few ulp of the chemical\'s own flow',
    'parameters RECOVERED from the result (tautological for one entry, real comparison for all other entries / the other row): '
    'correction fraction f from the arg-max donor entry, single-component V = g/mol, SLE melting fraction L = l/m; the bubble- / '
    'dew-limited recognition recomputes the branch bit for bit (a re-ordering of that arithmetic in vle.py would re-classify the '
    'step as an un-clipped set_flows with its monitored hypothesis, not a false alarm; that class does not occur on the current tree)',
    'a call that RAISES: vle / lle / sle calls are judged for conservation, non-negativity and placement on the stream they '
    'leave behind (signatures `...:after-<Exception>`; Stream.vlle is not: an exception inside its loop leaves the data '
    'normalised); T-P, P-V and T-V, which have no documented way to raise, report `unexpected-raise` unless the exception is '
    'numerical (FloatingPointError, ZeroDivisionError, OverflowError, numba ReferenceError); raise rates per specification are in '
    'the evidence histogram (`raise:<spec>:<Exception>`)',
    'vlle: conservation is conditional on the iteration scheme (flexsolve.fixed_point is un-accelerated, so the iterate written '
    'back by data[:] = x is the data itself; monitored `vlle-iterate-keeps-totals`); the merge branch (|liq - LIQ|.sum() < 1e-6) '
    'is modelled and proved but was never reached by the real code in any run (tag vlle-merged)',
    'VLE.method = "shgo" (public attribute) is exercised in both tiers (6 / 8 histories with and without non-partitioning '
    'chemicals, all on one worker because the objective compiles for ~25 s per process): `_solve_v` stores the optimiser result '
    'un-clipped (event solveRaw, hypothesis 0 <= v <= mol monitored as `unclipped-solver-result-bounded`); LLE.method = '
    '"differential evolution" in both tiers; LLE.method = "shgo" and the separate equilibrium/vlle.py VLLE class are not exercised',
]
TRUSTED = ['Lean 4.33 kernel', 'harness/props/c03.py (instrumentation of solver boundaries) + Driver/C03.lean',
           'generator reach (see histogram)', 'field-vs-binary64 gap: theorems over an ordered field, driver in Float, '
           'compared at rtol 1e-9']

tmo = None
np = None
# dissociating non-volatiles: `_heavy_solutes` non-zero, so that `_F_mol_heavy` and every site guarded by it are exercised
N_SOLUTES = {'NaCl': 2, 'Glucose': 1}
PKG = {}          # name -> dict(thermo, ids, light, heavy, vle, lle, hs, mw)
ROWS = 'glLs'     # order of rows on the protocol

# --------------------------------------------------------------------------
# instrumentation
# --------------------------------------------------------------------------
_REC = None       # active recorder (only while an equilibrium call of a case runs)


class Rec:
    """Collects one protocol line per write-back step performed by the real code."""
    def __init__(self, stream, pkg):
        self.s = stream
        self.pkg = pkg
        self.n = len(pkg['ids'])
        self.lines = []          # (model line, impl answer)
        self.tags = []
        self.vle = None          # current VLE object
        self.ctx = []            # context stack: 'setup', 'setflows', 'lever', 'single', 'sleupd', 'lle', 'llesolve'
        self.pending = []        # in-line writes not yet paired: (row, key, old, new)
        self.raw_v = None
        self.lle_info = None
        self.sle = None
        self.vlle = None         # dict while inside Stream.vlle
        self.depth = 0
        self.single = False
        self.objs = None         # per-case list of equilibrium objects (index+1 = object id on the protocol)
        self.specV = None; self.y_bubble = None; self.x_dew = None

    # ---- state -----------------------------------------------------------
    def dense(self):
        """phase x chemical image of the real stream, rows in ROWS order (absent phase -> zeros)"""
        imol = self.s._imol
        out = {}
        phases = imol._phases if hasattr(imol, '_phases') else (imol._phase.phase,)
        data = imol.data
        for r in ROWS: out[r] = [0.0] * self.n
        if hasattr(imol, '_phases'):
            for ph, row in zip(phases, data.rows if hasattr(data, 'rows') else data):
                out[ph] = [float(x) for x in row.to_array()]
        else:
            ph = imol._phase.phase
            out[ph if ph in ROWS else 'l'] = [float(x) for x in data.to_array()]
        return out

    def state_ans(self, extra=''):
        d = self.dense()
        return 'st ' + ' '.join(r + '=' + ','.join(fbits(x) for x in d[r]) for r in ROWS) + extra

    def emit(self, line, ans=None):
        self.lines.append((line, self.state_ans() if ans is None else ans))

    def tag(self, t):
        self.tags.append(t)

    def oid(self, obj):
        objs = self.objs if self.objs is not None else []
        for k, o in enumerate(objs):
            if o is obj: return k + 1
        objs.append(obj)
        return len(objs)

    # ---- helpers ---------------------------------------------------------
    def expand(self, index, vals):
        """idx-space vector -> chemical-space list (zeros elsewhere)"""
        out = [0.0] * self.n
        if isinstance(index, slice):
            vals = list(np.asarray(vals, float).ravel())
            for i, v in enumerate(vals): out[i] = float(v)
            return out
        vals = np.asarray(vals, float).ravel()
        if vals.size == 1 and len(index) != 1:
            vals = np.full(len(index), float(vals[0]))
        for i, v in zip(index, vals): out[int(i)] = float(v)
        return out

    def fl(self, xs):
        return ','.join(fbits(x) for x in xs)


def _vec(x):
    return np.array(x.to_array() if hasattr(x, 'to_array') else x, float).ravel()


class RowProxy:
    """Stands for VLE._vapor_mol / VLE._liquid_mol (SLE._liquid_mol / _solid_mol) while recording:
    every item assignment through it is logged (old and new values of the addressed entries)."""
    __slots__ = ('_v', '_row', '_owner')

    def __init__(self, v, row, owner):
        object.__setattr__(self, '_v', v); object.__setattr__(self, '_row', row); object.__setattr__(self, '_owner', owner)

    def __getitem__(self, k): return self._v[k]

    def __setitem__(self, k, val):
        rec = _REC
        if rec is None or rec.ctx:
            self._v[k] = val
            return
        old = _vec(self._v[k]) if not isinstance(k, (int, np.integer)) else np.array([float(self._v[k])])
        self._v[k] = val
        new = _vec(self._v[k]) if not isinstance(k, (int, np.integer)) else np.array([float(self._v[k])])
        rec.pending.append((self._row, k, old, new))
        _flush_pairs(rec, self._owner)

    def __getattr__(self, a): return getattr(self._v, a)
    def __iter__(self): return iter(self._v)
    def __len__(self): return len(self._v)
    def __add__(self, o): return self._v + o
    def __radd__(self, o): return o + self._v
    def __sub__(self, o): return self._v - o
    def __rsub__(self, o): return o - self._v
    def __mul__(self, o): return self._v * o
    def __rmul__(self, o): return o * self._v
    def __truediv__(self, o): return self._v / o
    def __array__(self, *a, **k): return np.asarray(self._v.to_array() if hasattr(self._v, 'to_array') else self._v)


def _same(a, b):
    a = np.asarray(a, float).ravel(); b = np.asarray(b, float).ravel()
    if a.size == 1 and b.size != 1: a = np.full(b.size, a[0])
    if b.size == 1 and a.size != 1: b = np.full(a.size, b[0])
    return a.shape == b.shape and bool((a == b).all())


def _flush_pairs(rec, owner):
    """Two consecutive in-line writes (one per row) form one write-back step; classify it."""
    if len(rec.pending) < 2: return
    (r1, k1, o1, n1), (r2, k2, o2, n2) = rec.pending[:2]
    del rec.pending[:2]
    if isinstance(owner, tmo.equilibrium.VLE):
        w = {r1: (o1, n1), r2: (o2, n2)}
        if set(w) != {'g', 'l'}:
            rec.emit('vle.unmodelled'); return
        mol = _vec(owner._mol_vle)
        gn, ln = w['g'][1], w['l'][1]
        go, lo = w['g'][0], w['l'][0]
        if _same(gn, mol) and _same(ln, 0.0):
            rec.tag('vle:allvap'); rec.emit('vle.allvap')
        elif _same(ln, mol) and _same(gn, 0.0):
            rec.tag('vle:allliq'); rec.emit('vle.allliq')
        elif rec.single:
            V = float(gn[0] / mol[0]) if mol[0] else 0.0
            rec.tag('vle:frac'); rec.emit(f'vle.frac {fbits(V)}')
        elif r1 == 'l':      # liquid_mol[index] += condensed ; vapor_mol[index] -= condensed
            j = int(np.argmax(go)); f = float((go[j] - gn[j]) / go[j]) if go[j] else 0.0
            rec.tag('vle:condense'); rec.emit(f'vle.condense {fbits(f)}')
        else:                # vapor_mol[index] += vaporised ; liquid_mol[index] -= vaporised
            j = int(np.argmax(lo)); f = float((lo[j] - ln[j]) / lo[j]) if lo[j] else 0.0
            rec.tag('vle:vaporise'); rec.emit(f'vle.vaporise {fbits(f)}')
    else:   # SLE
        w = {r1: (o1, n1), r2: (o2, n2)}
        if set(w) != {'l', 's'}:
            rec.emit('sle.unmodelled'); return
        m = float(owner._mol_solute)
        j = int(owner._solute_index)
        ln, sn = float(w['l'][1][0]), float(w['s'][1][0])
        if ln == m and sn == 0.0:
            rec.tag('sle:allliq'); rec.emit(f'sle.allliq {j}')
        elif ln == 0.0 and sn == m:
            rec.tag('sle:allsol'); rec.emit(f'sle.allsol {j}')
        else:
            L = ln / m if m else 0.0
            rec.tag('sle:frac'); rec.emit(f'sle.frac {j} {fbits(L)}')


def _limited(rec, vle, vapor_data, total_data):
    """Is this `set_flows(v, mol)` the bubble- or dew-limited branch of set_TV / set_PV?  Recomputed from the recorded
    bubble / dew composition exactly as the code does; accepted only on a bit-for-bit match."""
    if rec.specV is None: return None
    v = np.asarray(vapor_data, float); mol = np.asarray(total_data, float); F = float(vle._F_mol)
    for V in (float(rec.specV), 1. - 1e-3, 1e-3):
        if rec.y_bubble is not None and rec.y_bubble.shape == v.shape:
            c = rec.y_bubble * (F * V)
            c = np.where(c > mol, mol, c)
            if (c == v).all(): return ('bublim', V, rec.y_bubble)
        if rec.x_dew is not None and rec.x_dew.shape == v.shape:
            l = rec.x_dew * F * (1. - V)
            l = np.where(l > mol, mol, l)
            if ((mol - l) == v).all(): return ('dewlim', V, rec.x_dew)
    return None


def _install():
    """Wrap the solver boundaries.  Wrappers are transparent when no recorder is active."""
    eq = tmo.equilibrium
    from thermosteam.equilibrium import vle as vle_mod, lle as lle_mod, sle as sle_mod
    import flexsolve as flx
    VLE, LLE, SLE = eq.VLE, eq.LLE, eq.SLE
    if getattr(VLE, '_verif_c03', False): return
    VLE._verif_c03 = True

    # -- slot proxies ---------------------------------------------------------
    def proxied(cls, name, row):
        d = cls.__dict__[name]
        def get(self):
            v = d.__get__(self, cls)
            if _REC is not None and not isinstance(v, RowProxy): return RowProxy(v, row, self)
            return v
        def set_(self, v):
            d.__set__(self, v._v if isinstance(v, RowProxy) else v)
        setattr(cls, name, property(get, set_))
    proxied(VLE, '_vapor_mol', 'g'); proxied(VLE, '_liquid_mol', 'l')
    proxied(SLE, '_liquid_mol', 'l'); proxied(SLE, '_solid_mol', 's')

    # -- VLE --------------------------------------------------------------------
    o_setup = VLE._setup
    def _setup(self, gas_conversion=None, liquid_conversion=None):
        rec = _REC
        if rec is None: return o_setup(self, gas_conversion, liquid_conversion)
        rec.ctx.append('setup'); rec.vle = self; rec.pending.clear(); rec.single = False
        old_nz = self._nonzero
        try:
            return o_setup(self, gas_conversion, liquid_conversion)
        finally:
            rec.ctx.pop()
            # `_setup` raises NoEquilibrium before touching `_nonzero` / `_index` when there is no l+g material at all
            empty = not (self._imol['l'] + self._imol['g']).any()
            idx = '' if empty else ','.join(str(int(i)) for i in self._index)
            reuse = '-' if empty else str(int(self._nonzero is old_nz))
            rec.tag('vle:setup' + (':reuse' if reuse == '1' else ''))
            rec.emit('vle.setup', rec.state_ans(f' idx={idx} reuse={reuse}'))
    VLE._setup = _setup

    o_fp = VLE._solve_v_fixed_point
    def _solve_v_fixed_point(self, *a, **k):
        v = o_fp(self, *a, **k)
        if _REC is not None: _REC.raw_v = np.array(v, float)
        return v
    VLE._solve_v_fixed_point = _solve_v_fixed_point

    o_sv = VLE._solve_v
    def _solve_v(self, T, P, gas_conversion=None, liquid_conversion=None):
        rec = _REC
        if rec is None: return o_sv(self, T, P, gas_conversion, liquid_conversion)
        rec.raw_v = None
        v = o_sv(self, T, P, gas_conversion, liquid_conversion)
        if self.method == 'shgo':     # no clip in the code: the optimiser's result is stored as it is
            rec.tag('vle:solve:unclipped')
            ev = rec.fl(rec.expand(self._index, v))
            rec.emit('vle.solveu ' + ev, 'v ' + ev)
            return v
        raw = rec.raw_v if rec.raw_v is not None else np.array(v, float)
        rec.tag('vle:solve' + (':clipped' if not _same(raw, v) else ''))
        rec.emit('vle.solve ' + rec.fl(rec.expand(self._index, raw)), 'v ' + rec.fl(rec.expand(self._index, v)))
        return v
    VLE._solve_v = _solve_v

    def set_flows(vapor_mol, liquid_mol, index, vapor_data, total_data):
        rec = _REC
        if rec is None:
            vapor_mol[index] = vapor_data; liquid_mol[index] = total_data - vapor_data
            return
        rec.ctx.append('setflows')
        try:
            o_set_flows(vapor_mol, liquid_mol, index, vapor_data, total_data)
        finally:
            rec.ctx.pop()
        vle = rec.vle
        if vle is not None and vapor_data is getattr(vle, '_v', None):
            rec.tag('vle:setflows:reg'); rec.emit('vle.setflows reg')
        else:
            lim = _limited(rec, vle, vapor_data, total_data) if vle is not None else None
            if lim is not None:
                kind, V, comp = lim
                rec.tag('vle:' + kind); rec.emit(f'vle.{kind} {fbits(V)} ' + rec.fl(rec.expand(index, comp)))
            else:
                rec.tag('vle:setflows:lit'); rec.emit('vle.setflows ' + rec.fl(rec.expand(index, vapor_data)))
    o_set_flows = vle_mod.set_flows
    vle_mod.set_flows = set_flows

    # bubble / dew point results (needed to recognise the bubble- / dew-limited branches of set_TV / set_PV)
    for cls, names, attr in ((vle_mod.BubblePoint, ('solve_Ty', 'solve_Py'), 'y_bubble'),
                             (vle_mod.DewPoint, ('solve_Tx', 'solve_Px'), 'x_dew')):
        for nm in names:
            def mk(orig, attr):
                def f(self, *a, **k):
                    r = orig(self, *a, **k)
                    rec = _REC
                    if rec is not None and isinstance(r, tuple) and len(r) == 2:
                        try: setattr(rec, attr, np.array(r[1], float))
                        except Exception: pass
                    return r
                return f
            setattr(cls, nm, mk(getattr(cls, nm), attr))

    o_lever = VLE._lever_rule
    def _lever_rule(self, x, y):
        rec = _REC
        if rec is None: return o_lever(self, x, y)
        rec.ctx.append('lever')
        line = 'vle.lever ' + rec.fl([float(x[0])]) + ' ' + rec.fl(rec.expand(self._index, y))
        try:
            r = o_lever(self, x, y)
        except tmo.exceptions.InfeasibleRegion:
            rec.ctx.pop(); rec.tag('vle:lever:infeasible'); rec.emit(line, 'err infeasible'); raise
        except BaseException:
            rec.ctx.pop(); raise
        rec.ctx.pop(); rec.tag('vle:lever'); rec.emit(line)
        return r
    VLE._lever_rule = _lever_rule

    for nm in ('_set_TV_chemical', '_set_PV_chemical'):
        def mk(nm, orig):
            def f(self, X, V):
                rec = _REC
                if rec is None: return orig(self, X, V)
                rec.ctx.append('single')
                try: r = orig(self, X, V)
                finally: rec.ctx.pop()
                rec.tag('vle:frac:given'); rec.emit(f'vle.frac {fbits(float(V))}')
                return r
            return f
        setattr(VLE, nm, mk(nm, getattr(VLE, nm)))
    for nm in ('_set_PH_chemical', '_set_TH_chemical', '_set_PS_chemical', '_set_TS_chemical',
               '_set_thermal_condition_chemical'):
        def mk(nm, orig):
            def f(self, A, B):
                rec = _REC
                if rec is None: return orig(self, A, B)
                rec.single = True
                try: return orig(self, A, B)
                finally: rec.single = False
            return f
        setattr(VLE, nm, mk(nm, getattr(VLE, nm)))

    o_vcall = VLE.__call__
    def vcall(self, **kw):
        rec = _REC
        if rec is None: return o_vcall(self, **kw)
        if rec.vlle is not None: _vlle_before_vle(rec)
        rec.specV = kw.get('V'); rec.y_bubble = rec.x_dew = None
        rec.emit(f'vle.begin {rec.oid(self)}')
        try:
            return o_vcall(self, **kw)
        finally:
            if rec.pending:
                rec.pending.clear(); rec.emit('vle.unmodelled')
            rec.emit('vle.end')
    VLE.__call__ = vcall

    # -- LLE --------------------------------------------------------------------
    o_pool = LLE.get_liquid_mol_data
    def get_liquid_mol_data(self):
        rec = _REC
        r = o_pool(self)
        if rec is not None and rec.lle_info is not None:
            mol, index, chems = r
            rec.lle_info['index'] = [int(i) for i in index]
            rec.tag('lle:pool')
            rec.emit('lle.pool', rec.state_ans(' idx=' + ','.join(str(int(i)) for i in index)))
        return r
    LLE.get_liquid_mol_data = get_liquid_mol_data

    o_solve = LLE.solve_lle_liquid_mol
    def solve_lle_liquid_mol(self, mol, T, lle_chemicals, single_loop):
        rec = _REC
        if rec is None or rec.lle_info is None: return o_solve(self, mol, T, lle_chemicals, single_loop)
        rec.ctx.append('llesolve')
        try:
            r = o_solve(self, mol, T, lle_chemicals, single_loop)
        finally:
            rec.ctx.pop()
        rec.lle_info['molL'] = np.array(r, float)
        return r
    LLE.solve_lle_liquid_mol = solve_lle_liquid_mol

    # the raw Rachford-Rice root, before `as_valid_fraction`: `phase_fraction` is plain Python and looks both root
    # functions up in its module at call time
    from thermosteam.equilibrium import binary_phase_fraction as bpf
    for nm in ('compute_phase_fraction_2N', 'solve_phase_fraction_Rashford_Rice'):
        def mk(orig):
            def f(*a, **k):
                r = orig(*a, **k)
                rec = _REC
                if rec is not None and rec.lle_info is not None and rec.lle_info.get('in_pf'):
                    try: rec.lle_info['raw'] = float(r)
                    except Exception: pass
                return r
            return f
        setattr(bpf, nm, mk(getattr(bpf, nm)))

    o_pf = lle_mod.phase_fraction
    def phase_fraction(zs, Ks, guess=None, za=0., zb=0.):
        rec = _REC
        top = rec is not None and rec.lle_info is not None and 'llesolve' not in rec.ctx
        if top: rec.lle_info['in_pf'] = True; rec.lle_info.pop('raw', None)
        try:
            r = o_pf(zs, Ks, guess, za, zb)
        finally:
            if top: rec.lle_info['in_pf'] = False
        if top:
            rec.lle_info['phi'] = float(r); rec.lle_info['K'] = np.array(Ks, float)
        return r
    lle_mod.phase_fraction = phase_fraction

    o_lcall = LLE.__call__
    def lcall(self, T, P=None, top_chemical=None, update=True, use_cache=True, single_loop=False):
        rec = _REC
        if rec is None or not update:
            return o_lcall(self, T, P, top_chemical, update, use_cache, single_loop)
        if rec.vlle is not None: _vlle_before_lle(rec)
        rec.lle_info = info = {}
        rec.emit('lle.begin')
        try:
            r = o_lcall(self, T, P, top_chemical, update, use_cache, single_loop)
        except BaseException:
            rec.lle_info = None; rec.emit('lle.end'); raise
        rec.lle_info = None
        idx = info.get('index', [])
        top = '-'
        if top_chemical:
            ids = [rec.pkg['ids'][i] for i in idx]
            if top_chemical in ids: top = str(idx[ids.index(top_chemical)])
        if 'molL' in info:
            rec.tag('lle:solve'); rec.emit(f'lle.write solve top={top} ' + rec.fl(rec.expand(idx, info['molL'])))
        elif 'phi' in info and 'raw' in info:
            # the model clips the raw root itself (`as_valid_fraction`); the value the code used is never shown to it
            rec.tag('lle:cache:raw-root' + (':outside' if not 0.0 <= info['raw'] <= 1.0 else ''))
            rec.emit(f'lle.write cacheraw top={top} {fbits(info["raw"])} ' + rec.fl(rec.expand(idx, info['K'])))
        elif 'phi' in info:
            rec.tag('lle:cache'); rec.emit(f'lle.write cache top={top} {fbits(info["phi"])} ' + rec.fl(rec.expand(idx, info['K'])))
        else:
            rec.tag('lle:none'); rec.emit('lle.write none')
        rec.emit('lle.end')
        return r
    LLE.__call__ = lcall

    # -- SLE --------------------------------------------------------------------
    o_upd = SLE._update_solubility
    def _update_solubility(self, x, *a, **k):
        rec = _REC
        if rec is None: return o_upd(self, x, *a, **k)
        rec.ctx.append('sleupd')
        try: r = o_upd(self, x, *a, **k)
        finally: rec.ctx.pop()
        index = a[0] if a else k.get('index')       # (explicit index since a9c296c; `None` -> self._index)
        idx = 'reg' if index is None else 'all' if isinstance(index, slice) else ','.join(str(int(i)) for i in index)
        rec.tag('sle:update')
        rec.emit(f'sle.update {int(self._solute_index)} {idx} {fbits(float(x))} {fbits(float(self._mol_solute))}')
        return r
    SLE._update_solubility = _update_solubility

    o_ssetup = SLE._setup
    def s_setup(self):
        rec = _REC
        if rec is None: return o_ssetup(self)
        res = 'ok'
        try:
            return o_ssetup(self)
        except RuntimeError as e:
            res = 'err nosolute' if 'no solute' in str(e) else 'err other'; raise
        except ValueError:
            res = 'err notindexed'; raise
        except BaseException:
            res = 'err other'; raise
        finally:
            index = self._index
            idx = 'all' if isinstance(index, slice) else ','.join(str(int(i)) for i in index)
            rec.tag('sle:setup:' + res.replace(' ', '-'))
            rec.emit(f'sle.setup {int(self._solute_index)}', f'{res} idx={idx} pure={int(bool(self._chemical))}')
    SLE._setup = s_setup

    o_scall = SLE.__call__
    def scall(self, solute, T=None, P=None, H=None, solubility=None):
        rec = _REC
        if rec is None: return o_scall(self, solute, T, P, H, solubility)
        rec.pending.clear()
        rec.emit(f'sle.begin {rec.oid(self)}')
        try:
            return o_scall(self, solute, T, P, H, solubility)
        finally:
            if rec.pending:
                rec.pending.clear(); rec.emit('sle.unmodelled')
            rec.emit('sle.end')
    SLE.__call__ = scall

    # -- vlle skeleton ------------------------------------------------------------
    o_fixed = flx.fixed_point
    def fixed_point(f, x, *a, **k):
        rec = _REC
        if rec is None or rec.vlle is None or rec.vlle.get('in_fp'):
            return o_fixed(f, x, *a, **k)
        V = rec.vlle
        V['in_fp'] = True
        def g(x):
            V['phase'] = 'assign'; V['x'] = np.array(x, float)
            r = f(x)
            # after the second swap
            rec.tag('vlle:iter'); rec.emit('vlle.swap')
            V['phase'] = 'done-iter'
            return r
        try:
            return o_fixed(g, x, *a, **k)
        finally:
            V['in_fp'] = False; V['phase'] = 'after-fp'
    flx.fixed_point = fixed_point


def _vlle_before_vle(rec):
    V = rec.vlle
    ph = V.get('phase')
    if ph == 'start':            # liq += LIQ ; LIQ[:] = 0 happened
        rec.tag('vlle:pool'); rec.emit('vlle.pool'); V['phase'] = 'vle0'
    elif ph == 'iter-lle':       # inside f: lle done, first vle follows
        V['phase'] = 'iter-vle1'
    elif ph == 'iter-vle1':      # swap happened between the two vle calls
        rec.emit('vlle.swap'); V['phase'] = 'iter-vle2'


def _vlle_before_lle(rec):
    V = rec.vlle
    ph = V.get('phase')
    if ph == 'assign':           # data[:] = x happened
        x = V['x']
        rows = V['rows']         # phase letters of the data rows, in data order
        n = rec.n
        d = {r: [0.0] * n for r in ROWS}
        for k, r in enumerate(rows): d[r] = [float(t) for t in x[k]]
        first = not V.get('normalised')
        V['normalised'] = True
        rec.emit(('vlle.normalise ' if first else 'vlle.assign ') + ' '.join(r + '=' + rec.fl(d[r]) for r in ROWS))
        V['phase'] = 'iter-lle'
    # otherwise: the plain lle calls before the loop need no skeleton event


# --------------------------------------------------------------------------
# fixtures
# --------------------------------------------------------------------------

def setup():
    global tmo, np
    import numpy as np_
    import thermosteam as tmo_
    tmo, np = tmo_, np_
    warnings.simplefilter('ignore')
    # NumPy's error state is left as thermosteam's import leaves it (divide/invalid raise)
    C = tmo.Chemical
    def pkg(name, items):
        for it in items:
            if not isinstance(it, str) and it.ID in N_SOLUTES: it.N_solutes = N_SOLUTES[it.ID]
        chems = tmo.Chemicals(items)
        th = tmo.Thermo(chems, cache=True) if False else tmo.Thermo(chems)
        chems = th.chemicals
        decl = {it.ID: it.locked_state for it in items if not isinstance(it, str)}
        PKG[name] = dict(thermo=th, ids=list(chems.IDs), light=list(chems._light_indices),
                         decl_light=[i for i, ID in enumerate(chems.IDs) if decl.get(ID) == 'g'],
                         decl_heavy=[i for i, ID in enumerate(chems.IDs) if decl.get(ID) in ('l', 's')],
                         heavy=list(chems._heavy_indices), vle=list(chems._vle_index), lle=list(chems._lle_index),
                         hs=[float(x) for x in chems._heavy_solutes], mw=[float(x) for x in chems.MW])
    pkg('A', ['Water', 'Ethanol', 'Methanol', 'Propanol'])
    pkg('B', ['Water', 'Ethanol', 'Octane', 'Hexane', 'Butanol'])
    pkg('C', ['Water', 'Ethanol', 'Octane', C('N2', phase='g'), C('CO2', phase='g'),
              C('Glucose', phase='l', default=True), C('NaCl', phase='s', default=True)])
    pkg('D', ['Water', 'Tetradecanol', 'Ethanol', 'Glycerol', C('O2', phase='g')])
    pkg('F', ['Propane', 'CO2', 'Water', 'Ethanol'])      # un-locked Propane (Tc 370 K) and CO2 (Tc 304 K): super-critical branch
    pkg('E', ['EthylLactate', 'LacticAcid', 'Water', 'Ethanol'])      # esterification: reactive-flash histories
    tmo.settings.set_thermo(PKG['A']['thermo'])
    _install()


def budget(tier):
    return {'quick': dict(seconds=75, cases=600, shrink_s=20, search_s=5),
            'thorough': dict(seconds=480, cases=16000, shrink_s=60, search_s=20)}[tier]


# --------------------------------------------------------------------------
# running a case on the real code
# --------------------------------------------------------------------------

def _parse_rows(tok, n):
    """g:1,2,0|l:0,0,3"""
    d = {}
    for part in tok.split('|'):
        r, vals = part.split(':')
        xs = [float(v) for v in vals.split(',')]
        assert len(xs) == n, (tok, n)
        d[r] = xs
    return d


def _kw(tokens):
    d = {}
    for t in tokens:
        k, v = t.split('=', 1)
        d[k] = v
    return d


def _set_rows(s, rows):
    for r, xs in rows.items():
        s.imol[r] = xs


def _totals(d):
    n = len(d['g'])
    return [sum(d[r][i] for r in ROWS) for i in range(n)]


def _ref_energy(s, kind, q, P=None, T=None):
    """an H or S value relative to the two-phase range of this material: q in [0,1] -> the value at vapour
    fraction q (at the given P or T); q<0 / q>1 -> sub-cooled / super-heated by 30 K*|excess|"""
    c = s.copy()
    V = min(1.0, max(0.0, q))
    if P is not None: c.vle(V=V, P=P)
    else: c.vle(V=V, T=T)
    if q < 0 and P is not None: c.T = c.T + 30.0 * q
    if q > 1 and P is not None: c.T = c.T + 30.0 * (q - 1)
    return float(c.H if kind == 'H' else c.S)


# specification pairs that return normally whatever the material (NoEquilibrium is handled inside VLE.__call__) ...
# (the H / S specifications end in a temperature solve that can fail to converge on the unchanged tree: not listed)
EXPECTED_TO_RETURN = {'vle:P-T', 'vle:P-V', 'vle:T-V'}
# ... numerical overflow / domain errors of the correlations far outside their range, and the numba cache race, apart
EXCUSED_RAISES = (FloatingPointError, ZeroDivisionError, OverflowError, ReferenceError)


def _range_error(exc):
    """a property correlation evaluated outside its range, or a solver that did not converge: such a call does not
    return normally and is outside the quantifier (e.g. pure Tetradecanol at P just above its critical pressure:
    'Failed to extrapolate vapor pressure method WAGNER_POLING at T=-741 K')"""
    msg = str(exc).lower()
    return isinstance(exc, (RuntimeError, ValueError, ArithmeticError)) and any(
        k in msg for k in ('extrapolat', 'could not be solved', 'tolerance reached', 'not converge', 'tmin', 'tmax',
                           'valid', 'out of range', 'domain', 'complex', 'nan', 'infeasible'))


def run_ops(ops):
    global _REC
    model_in, outs, failures, tags = [], [], [], []
    s = None; pkg = None
    moved = False; normal = 0
    objs = []       # equilibrium objects met in this case (kept alive so that identities stay distinct)
    sig_parts = []
    for oi, line in enumerate(ops):
        t = line.split(' ')
        op = t[0]
        if op == 'new':
            # new <pkg> <kind> <phases> T P rows
            pkg = PKG[t[1]]; n = len(pkg['ids'])
            kind, phases, T, P = t[2], t[3], float(t[4]), float(t[5])
            rows = _parse_rows(t[6], n)
            if kind == 'single':
                s = tmo.Stream(None, T=T, P=P, phase=phases, thermo=pkg['thermo'])
                s.imol.data[:] = rows[phases]
            else:
                s = tmo.MultiStream(None, T=T, P=P, phases=tuple(phases), thermo=pkg['thermo'])
                _set_rows(s, rows)
            rec = Rec(s, pkg)
            cfg = (f'cfg {n} light={",".join(map(str, pkg["light"]))} heavy={",".join(map(str, pkg["heavy"]))} '
                   f'hs={",".join(fbits(x) for x in pkg["hs"])} vle={",".join(map(str, pkg["vle"]))} '
                   f'lle={",".join(map(str, pkg["lle"]))} mw={",".join(fbits(x) for x in pkg["mw"])}')
            model_in.append(cfg); outs.append('ok')
            # the DECLARED phase locks (Chemical(..., phase=)) decide what the placement clauses are judged against; the
            # model is given the lists the code compiled (it mirrors the code), so a mis-classification shows here and
            # as a placement failure of the real stream
            if sorted(pkg['light']) != sorted(pkg['decl_light']) or sorted(pkg['heavy']) != sorted(pkg['decl_heavy']):
                failures.append({'signature': 'misclassified-phase-lock', 'op_index': oi,
                                 'what': f'package {t[1]}: declared gas-only {pkg["decl_light"]} / liquid-solid-only '
                                         f'{pkg["decl_heavy"]}, compiled _light_indices {pkg["light"]} / _heavy_indices {pkg["heavy"]}'})
            d = rec.dense()
            model_in.append('state ' + ' '.join(r + '=' + ','.join(fbits(x) for x in d[r]) for r in ROWS))
            outs.append(rec.state_ans())
            sig_parts.append(t[1] + ':' + ''.join('1' if x else '0' for x in _totals(d)))
            continue
        if op == 'setrows':
            rows = _parse_rows(t[1], len(pkg['ids']))
            if not isinstance(s, tmo.MultiStream): s.phases = tuple(rows)
            for r in s.phases: s.imol[r] = 0.
            if set(rows) - set(s.phases): s.phases = tuple(sorted(set(s.phases) | set(rows)))
            _set_rows(s, rows)
            rec = Rec(s, pkg)
            d = rec.dense()
            model_in.append('state ' + ' '.join(r + '=' + ','.join(fbits(x) for x in d[r]) for r in ROWS))
            outs.append(rec.state_ans())
            continue
        if s is None: continue
        if op == 'edge':
            kw = _kw(t[1:])
            # edit for binary LLE histories: move the composition to the edge of the two-liquid envelope that the stream's
            # LLE object REMEMBERS (phi = 0 or phi = 1 of the Rachford-Rice equation with its `_K`), plus `eps` in mole
            # fraction of the first LLE chemical, by adding or removing that chemical only.  An input-construction helper:
            # nothing of it reaches the oracle.
            try:
                eqo = s.lle
                K = np.asarray(eqo._K, float)
                chems = [c.ID for c in eqo._lle_chemicals]
                if K.size != 2 or len(chems) != 2: tags.append('skip:edge-not-binary'); continue
                if not (np.isfinite(K).all() and K[0] > 0 and K[1] > 0 and K[0] != K[1] and K.max() < 1e15):
                    tags.append('skip:edge-single-liquid'); continue      # the remembered K describe one liquid only
                side, eps = kw['side'], float(kw['eps'])
                z1 = (1 - K[1]) / (K[0] - K[1]) if side == '0' else (1 / K[1] - 1) / (1 / K[1] - 1 / K[0])
                z1 = z1 + eps
                if not 0 < z1 < 1: tags.append('skip:edge-outside'); continue
                tot = {c: sum(float(s.imol[ph, c]) for ph in s.phases) for c in chems}
                target = z1 / (1 - z1) * tot[chems[1]]
                f = target / tot[chems[0]]
                for ph in s.phases: s.imol[ph, chems[0]] = float(s.imol[ph, chems[0]]) * f
                tags.append('edit:edge')
            except Exception as e:
                tags.append('skip:edge:' + type(e).__name__)
            continue
        if op in ('add', 'zero', 'scale'):
            # edits between two calls of a history; they go through `imol` only, so the stream keeps its cached
            # VLE / LLE / SLE objects (and what those remember: `_nonzero`, `_index`, `_chemical`, `_K`, ...)
            try:
                if not isinstance(s, tmo.MultiStream):
                    tags.append('skip:edit-single-phase'); continue
                if op == 'add':          # add ph:i:amount,ph:i:amount
                    for item in t[1].split(','):
                        ph, i, amt = item.split(':')
                        if ph in s.phases:
                            ID = pkg['ids'][int(i)]
                            s.imol[ph, ID] = float(s.imol[ph, ID]) + float(amt)
                elif op == 'zero':       # zero i,j : remove chemicals from every phase
                    for i in t[1].split(','):
                        for ph in s.phases: s.imol[ph, pkg['ids'][int(i)]] = 0.
                else:
                    s.imol.data *= float(t[1])
                tags.append('edit:' + op)
            except Exception as e:
                tags.append('skip:edit:' + type(e).__name__)
            continue
        kw = _kw(t[1:])
        if op == 'rvle':
            # A REACTIVE flash on the stream's cached VLE object.  It is outside the property (it converts material by
            # design) and outside the model: it runs un-recorded, and the model is only told what `_setup` stored in the
            # object (`vle.reactive`).  What matters is the ORDINARY calls that follow on the same object: they are
            # inside the property and must not see the reaction delta the flash left behind (`_dmol_vle`, `_dF_mol`).
            try:
                rxn = tmo.Reaction('LacticAcid + Ethanol -> Water + EthylLactate', reactant='LacticAcid',
                                   X=float(kw.get('X', 0.2)), chemicals=pkg['thermo'].chemicals)
                eqo = s.vle
                args = {k: float(kw[k]) for k in ('T', 'P', 'V') if k in kw}
                args['gas_conversion' if kw.get('in') == 'g' else 'liquid_conversion'] = rxn
                try:
                    eqo(**args); tags.append('reactive:returned')
                except Exception as e:
                    tags.append('reactive:raise:' + type(e).__name__)
                rec = Rec(s, pkg); rec.objs = objs
                nz = sorted(int(i) for i in (eqo._nonzero or ()))
                idx = list(eqo._index) if not isinstance(eqo._index, slice) else []
                dm = getattr(eqo, '_dmol_vle', None)
                try: dmol = rec.expand(idx, dm) if dm is not None and np.ndim(dm) else [0.0] * rec.n
                except Exception: dmol = [0.0] * rec.n
                try: dF = float(getattr(eqo, '_dF_mol', 0.0) or 0.0)
                except Exception: dF = 0.0
                if any(dmol): tags.append('reactive:leftover-delta')
                model_in.append(f'vle.reactive {rec.oid(eqo)} {",".join(map(str, nz))} {rec.fl(dmol)} {fbits(dF)}')
                outs.append('ok')
            except Exception as e:
                tags.append('skip:rvle:' + type(e).__name__)
            continue
        rec = Rec(s, pkg)
        before = rec.dense()
        exc = None
        call = None
        try:
            if op == 'vle':
                args = {}
                for k in ('T', 'P', 'V'):
                    if k in kw: args[k] = float(kw[k])
                if 'Hq' in kw: args['H'] = _ref_energy(s, 'H', float(kw['Hq']), P=args.get('P'), T=args.get('T'))
                if 'Sq' in kw: args['S'] = _ref_energy(s, 'S', float(kw['Sq']), P=args.get('P'), T=args.get('T'))
                if 'x' in kw: args['x'] = np.array([float(kw['x']), 1 - float(kw['x'])])
                if 'y' in kw: args['y'] = np.array([float(kw['y']), 1 - float(kw['y'])])
                eqo = s.vle
                eqo.method = 'shgo' if kw.get('method') == 'shgo' else eqo.default_method
                call = lambda: eqo(**args)
            elif op == 'lle':
                args = dict(T=float(kw['T']))
                if 'P' in kw: args['P'] = float(kw['P'])
                if 'top' in kw: args['top_chemical'] = kw['top']
                if kw.get('cache') == '0': args['use_cache'] = False
                if kw.get('sl') == '1': args['single_loop'] = True       # public option: one pass of the inner loop
                eqo = s.lle
                eqo.method = {'de': 'differential evolution', 'shgo': 'shgo'}.get(kw.get('method'), eqo.default_method)
                if 'ctol' in kw: eqo.composition_cache_tolerance = float(kw['ctol'])      # public option of LLE
                call = lambda: eqo(**args)
            elif op == 'sle':
                args = {}
                if 'T' in kw: args['T'] = float(kw['T'])
                if 'solubility' in kw: args['solubility'] = float(kw['solubility'])
                if 'Hq' in kw:
                    c = s.copy(); args['H'] = float(c.H) * float(kw['Hq'])
                if 'Hm' in kw:
                    # enthalpy relative to the melting range of the solute at its Tm: 0 = all solid, 1 = all liquid
                    j = pkg['ids'].index(kw['solute']); Tm = float(pkg['thermo'].chemicals.tuple[j].Tm)
                    tot = [sum(x) for x in zip(*[[float(v) for v in s.imol[ph]] for ph in s.phases])]
                    def Hat(ph_sol):
                        c = s.copy(); c.T = Tm
                        lrow = [float(v) for v in c.imol['l']]; srow = [float(v) for v in c.imol['s']]
                        m = lrow[j] + srow[j]
                        lrow[j], srow[j] = (0.0, m) if ph_sol == 's' else (m, 0.0)
                        c.imol['l'] = lrow; c.imol['s'] = srow
                        return float(c.H)
                    Hs, Hl = Hat('s'), Hat('l')
                    args['H'] = Hs + float(kw['Hm']) * (Hl - Hs)
                eqo = s.sle
                call = lambda: eqo(kw['solute'], **args)
            elif op == 'vlle':
                T, P = float(kw['T']), float(kw['P'])
                s.phases = ('L', 'g', 'l')      # what vlle does first (C12's subject); see the note below
                def call():
                    rec.vlle = {'phase': 'start', 'rows': None}
                    try:
                        # the phases setter runs first inside vlle; row order of data is fixed by it
                        rec.vlle['rows'] = ('L', 'g', 'l')
                        s.vlle(T, P)
                    finally:
                        V = rec.vlle; rec.vlle = None
                        rec._vlle_final = V
            else:
                raise ValueError('unknown op ' + line)
        except Exception as e:     # preparing the call failed (e.g. reference flash for H): skip the op
            tags.append('skip:prep:' + type(e).__name__)
            continue
        rec.s = s      # (Stream.vle may have re-classed the stream object in place)
        rec.objs = objs
        # reaching the equilibrium object through the public property may re-label / re-shape the phases
        # (Stream.vle: 's' -> 'l'; Stream.sle: 'g' -> 'l'; MultiStream: rows added): that is C12's subject, the
        # model is told the state the equilibrium call starts from
        before = rec.dense()
        model_in.append('state ' + ' '.join(r + '=' + ','.join(fbits(x) for x in before[r]) for r in ROWS))
        outs.append(rec.state_ans())
        model_in.append('begin'); outs.append('ok')
        _REC = rec
        try:
            call()
        except Exception as e:
            exc = e
        except (RuntimeError, ValueError, AssertionError, NotImplementedError, ZeroDivisionError, FloatingPointError,
                ArithmeticError, IndexError, KeyError, TypeError, AttributeError, tmo.exceptions.InfeasibleRegion,
                tmo.exceptions.NoEquilibrium, tmo.exceptions.UndefinedPhase) as e:
            exc = e
        finally:
            _REC = None
        if op == 'vlle':
            V = getattr(rec, '_vlle_final', None)
            if exc is None and V is not None and V.get('normalised'):
                rec.tag('vlle:finish'); rec.emit('vlle.finish')
        for ml, ans in rec.lines:
            model_in.append(ml); outs.append(ans)
        tags.extend(rec.tags)
        after = rec.dense()
        # ------------------------------------------------------------ oracle (real objects only)
        # Tolerances are PER CHEMICAL (a trace chemical of 1e-3 kmol/hr next to 1e3 of another is judged on its own
        # scale): totals rtol 1e-9 of the chemical's own total, exact when it is absent; a phase flow of chemical i
        # must be >= -1e-12 * (total of chemical i).  Every write-back step is sign-exact in binary64 except
        # (z - mol_L) * F_mol, m - F*x/(1-x) and x / total * total, whose error is a few ulp of the chemical's own flow.
        tb, ta = _totals(before), _totals(after)
        nchem = len(tb)
        cons_i = [close(ta[i], tb[i], rtol=1e-9, atol=0.0) for i in range(nchem)]
        cons = all(cons_i)
        tol_i = [1e-12 * abs(tb[i]) for i in range(nchem)]
        neg = [(r, i) for r in ROWS for i in range(nchem) if not after[r][i] >= -tol_i[i]]      # (a NaN flow fails too)
        nonneg = not neg
        light_ok = heavy_ok = True
        if op in ('vle', 'vlle'):
            # judged against the DECLARED phase locks, not against the lists the code compiled; Stream.vlle pools the second
            # liquid first, so a gas-only chemical must be absent from `L` too
            light_ok = all(after['l'][i] == 0.0 and (op != 'vlle' or after['L'][i] == 0.0) for i in pkg['decl_light'])
            heavy_ok = all(after['g'][i] == 0.0 for i in pkg['decl_heavy'])
        flags = f'cons={int(cons)} nonneg={int(nonneg)} light={int(light_ok)} heavy={int(heavy_ok)}'
        spec = op + ':' + '-'.join(sorted(k for k in kw if k not in ('solute', 'top', 'cache', 'method', 'ctol', 'sl')))
        pre_ok = all(before[r][i] >= -tol_i[i] for r in ROWS for i in range(nchem))
        if not pre_ok:
            # the property quantifies over non-negative flows; a reactive flash (excluded) can leave a negative
            # flow of its limiting reactant behind: the call is then judged for conservation and placement only
            tags.append('pre-state-negative')
        # A call that RAISES is outside the property text ("for which the call returns normally"), but the stream it
        # leaves behind is not: `_setup` moves phase-locked material before it can raise NoEquilibrium, set_TH / set_TS
        # probe all-vapour / all-liquid before NotImplementedError, LLE pools before the solver runs.  Single
        # equilibrium calls are therefore judged after a raise too (own signatures); Stream.vlle is not (an exception
        # inside its loop leaves the data normalised by design of that loop).
        judged = exc is None or op in ('vle', 'lle', 'sle')
        sfx = '' if exc is None else ':after-' + type(exc).__name__
        if exc is None:
            normal += 1
            if any(not close(after[r][i], before[r][i], rtol=1e-12, atol=0.0) for r in ROWS for i in range(nchem)):
                moved = True
            tags.append('ret:' + spec)
        else:
            tags.append('raise:' + spec + ':' + type(exc).__name__)
            if judged: tags.append('judged-after-raise')
            # the domain "returns normally" must not shrink silently: these specification pairs have no documented
            # way to raise (NoEquilibrium is handled inside VLE.__call__), numerical overflow apart
            if op == 'vle' and spec in EXPECTED_TO_RETURN and not isinstance(exc, EXCUSED_RAISES) and not _range_error(exc):
                failures.append({'signature': f'unexpected-raise:{spec}:{type(exc).__name__}', 'op_index': oi,
                                 'what': f'`{line}` raised {type(exc).__name__}: {str(exc)[:120]} (this specification pair '
                                         f'returns normally on the tree the check was validated on)'})
        if judged:
            if not cons:
                bad = [(pkg['ids'][i], tb[i], ta[i]) for i in range(nchem) if not cons_i[i]]
                failures.append({'signature': f'not-conserved:{spec}{sfx}', 'op_index': oi,
                                 'what': f'`{line}`: per-chemical totals over all phases changed: ' +
                                         '; '.join(f'{c}: {b!r} -> {a!r}' for c, b, a in bad[:4])})
            if not nonneg and pre_ok:
                r_, i_ = min(neg, key=lambda ri: (after[ri[0]][ri[1]] if after[ri[0]][ri[1]] == after[ri[0]][ri[1]] else -math.inf))
                branch = (op + ':lever-rule' if any(t.startswith('vle:lever') for t in rec.tags) else spec)
                failures.append({'signature': f'negative-flow:{branch}{sfx}', 'op_index': oi,
                                 'what': f'`{line}`: flow of {pkg["ids"][i_]} in phase {r_!r} is {after[r_][i_]!r} '
                                         f'(tolerance -{tol_i[i_]:.3g} = 1e-12 of its total {tb[i_]!r})'})
            if not light_ok:
                bad = [pkg['ids'][i] for i in pkg['decl_light'] if after['l'][i] != 0.0 or after['L'][i] != 0.0]
                failures.append({'signature': f'gas-only-in-liquid:{spec}{sfx}', 'op_index': oi,
                                 'what': f'`{line}`: gas-only chemical(s) {bad} left in the liquid phase'})
            if not heavy_ok:
                bad = [pkg['ids'][i] for i in pkg['decl_heavy'] if after['g'][i] != 0.0]
                failures.append({'signature': f'nonvolatile-in-gas:{spec}{sfx}', 'op_index': oi,
                                 'what': f'`{line}`: liquid/solid-only chemical(s) {bad} present in the gas phase'})
        model_in.append('end ' + op); outs.append(rec.state_ans(' ' + flags))
        sig_parts.append(op + ':' + ','.join(sorted(set(x for x in rec.tags))))
    return model_in, outs, failures, tags, (tuple(sig_parts) if (normal and moved) else None)


def run_impl(case: Case) -> ImplResult:
    model_in, outs, failures, tags, nt = run_ops(case.ops)
    return ImplResult(model_in=model_in, outs=outs, failures=failures, tags=sorted(set(tags)), nontrivial=nt)


# --------------------------------------------------------------------------
# comparison of an implementation answer with the model's answer
# --------------------------------------------------------------------------

def _split(line):
    toks = line.split(' ')
    core = [t for t in toks if not (t.startswith('tag:') or t.startswith('unmet:'))]
    unmet = [t for t in toks if t.startswith('unmet:')]
    return core, unmet


def _vals(tok):
    return [from_fbits(x) for x in tok.split(',')] if tok else []


def compare(impl_line, model_line):
    a, _ = _split(impl_line)
    b, unmet = _split(model_line)
    if unmet: return False
    if len(a) != len(b) or a[0] != b[0]: return False
    if a[0] in ('st', 'v'):
        floats_a, floats_b = [], []
        for ta, tb in zip(a[1:], b[1:]):
            if '=' in ta or '=' in tb:
                ka, va = ta.split('=', 1); kb, vb = tb.split('=', 1)
                if ka != kb: return False
                if ka in ('g', 'l', 'L', 's'):
                    xa, xb = _vals(va), _vals(vb)
                    if len(xa) != len(xb): return False
                    floats_a += xa; floats_b += xb
                elif va != vb: return False
            else:
                xa, xb = _vals(ta), _vals(tb)
                if len(xa) != len(xb): return False
                floats_a += xa; floats_b += xb
        scale = max([1.0] + [abs(x) for x in floats_a if x == x and abs(x) != math.inf])
        return all(close(x, y, rtol=1e-9, atol=1e-12 * scale) for x, y in zip(floats_a, floats_b))
    return a == b


def protect_prefix(case):
    return 1        # the `new` line


def disagree_signature(case, res, first):
    ml = res.model_in[first] if first < len(res.model_in) else 'length'
    return 'disagree:' + ml.split(' ')[0]


def model_tags(line):
    return [t for t in line.split(' ') if t.startswith('tag:') or t.startswith('unmet:')]


# --------------------------------------------------------------------------
# generation
# --------------------------------------------------------------------------
PKG_IDS = {
    'A': ['Water', 'Ethanol', 'Methanol', 'Propanol'],
    'B': ['Water', 'Ethanol', 'Octane', 'Hexane', 'Butanol'],
    'C': ['Water', 'Ethanol', 'Octane', 'N2', 'CO2', 'Glucose', 'NaCl'],
    'D': ['Water', 'Tetradecanol', 'Ethanol', 'Glycerol', 'O2'],
    'E': ['EthylLactate', 'LacticAcid', 'Water', 'Ethanol'],
    'F': ['Propane', 'CO2', 'Water', 'Ethanol'],
}
PKG_LIGHT = {'A': [], 'B': [], 'C': [3, 4], 'D': [4], 'E': [], 'F': []}
PKG_VLE = {'A': [0, 1, 2, 3], 'B': [0, 1, 2, 3, 4], 'C': [0, 1, 2], 'D': [0, 1, 2, 3], 'E': [0, 1, 2, 3], 'F': [0, 1, 2, 3]}
SUBSETS = {
    'A': [[0, 1, 2, 3], [0, 1], [0], [1, 2, 3], [2, 3]],
    'B': [[0, 1, 2, 3, 4], [0, 2], [0, 1, 2], [2, 3], [0, 4], [0, 1]],
    'C': [[0, 1, 2, 3, 4, 5, 6], [0, 1, 3, 4], [0, 1, 5, 6], [3, 5, 6], [0, 3], [1, 5], [0, 6], [0, 1, 2], [3, 4], [0, 1, 2, 3, 5]],
    'D': [[0, 1, 2, 3, 4], [0, 1], [1], [0, 1, 4], [1, 2], [0, 2, 3]],
    'E': [[0, 1, 2, 3], [1, 2, 3], [2, 3]],
    'F': [[0, 1, 2, 3], [0], [1], [0, 2], [1, 3]],
}


def _flow(rng):
    return float(f'{10 ** rng.uniform(-3, 3):.6g}')


def _fmt_rows(rows):
    return '|'.join(r + ':' + ','.join(repr(float(x)) for x in xs) for r, xs in rows.items())


def _distribute(rng, n, subset, phases, mode):
    """totals for the chemicals of `subset`, spread over `phases` according to `mode`"""
    rows = {p: [0.0] * n for p in phases}
    for k, i in enumerate(subset):
        f = _flow(rng)
        if mode == 'first': rows[phases[0]][i] = f
        elif mode == 'last': rows[phases[-1]][i] = f
        elif mode == 'alternate': rows[phases[k % len(phases)]][i] = f
        else:
            w = [rng.random() if rng.random() < 0.8 else 0.0 for _ in phases]
            if not any(w): w[rng.randrange(len(w))] = 1.0
            tot = sum(w)
            for p, wi in zip(phases, w): rows[p][i] = f * wi / tot
    return rows


def _binary_z0(pkgname, rows):
    """z of the first of exactly two volatile chemicals present (for x / y specifications), else None"""
    n = len(PKG_IDS[pkgname])
    tot = [sum(rows[p][i] for p in rows) for i in range(n)]
    present = [i for i in PKG_VLE[pkgname] if tot[i] > 0]
    if len(present) != 2: return None
    if any(tot[i] > 0 for i in PKG_LIGHT[pkgname]): return None     # `_N` counts the light gases as one more species
    return tot[present[0]] / (tot[present[0]] + tot[present[1]])


def _vle_op(rng, kind, z0=None):
    T = round(rng.uniform(250, 500), 2)
    P = float(f'{10 ** rng.uniform(4, math.log10(5e6)):.6g}')
    if rng.random() < 0.5: T = round(rng.uniform(300, 400), 2); P = float(f'{10 ** rng.uniform(4.5, 5.7):.6g}')
    V = rng.choice([0.0, 1.0, 0.5, round(rng.random(), 3), round(rng.random(), 3), 1e-3, 0.999])
    q = rng.choice([round(rng.uniform(0, 1), 3)] * 4 + [0.0, 1.0, round(rng.uniform(-1, 0), 2), round(rng.uniform(1, 2), 2)])
    if z0 is None: z0 = rng.random()
    def near(z):
        r = rng.random()
        if r < 0.25: c = z
        elif r < 0.5: c = z * (1 + rng.choice([-1, 1]) * 10 ** rng.uniform(-9, -4))
        elif r < 0.8: c = z + rng.uniform(-0.3, 0.3)
        else: c = rng.random()
        return min(0.999, max(0.001, c))
    return {
        'TP': f'vle T={T} P={P}', 'PV': f'vle P={P} V={V}', 'TV': f'vle T={T} V={V}',
        'PH': f'vle P={P} Hq={q}', 'PS': f'vle P={P} Sq={q}', 'TH': f'vle T={T} Hq={q if rng.random() < 0.3 else min(0.98, max(0.02, abs(q)))}',
        'TS': f'vle T={T} Sq={q if rng.random() < 0.3 else min(0.98, max(0.02, abs(q)))}',
        'Tx': f'vle T={T} x={near(z0)!r}', 'Px': f'vle P={P} x={near(z0)!r}',
        'Ty': f'vle T={T} y={near(z0)!r}', 'Py': f'vle P={P} y={near(z0)!r}',
    }[kind]


VLE_KINDS = ['TP', 'PV', 'TV', 'PH', 'PS', 'TH', 'TS', 'Tx', 'Px', 'Ty', 'Py']


def _lle_ops(rng, pkgname, k=1):
    T = round(rng.uniform(280, 360), 2)
    ops = []
    for j in range(k):
        top = rng.choice([None, None] + PKG_IDS[pkgname])
        Tj = T if j == 0 else round(T + rng.choice([0.0, 1e-4, -1e-4, 5e-4, -5.0, 2.0]), 4)
        ops.append(f'lle T={Tj}' + (f' P={rng.choice([101325.0, 2e5])}' if rng.random() < 0.3 else '')
                   + (f' top={top}' if top else '') + (' cache=0' if rng.random() < 0.15 else '')
                   + (' sl=1' if rng.random() < 0.25 else ''))
    return ops


def _sle_op(rng, pkgname, only_solubility=False):   # (second argument kept for callers; unused since a9c296c)
    solute = 'Tetradecanol' if pkgname == 'D' and rng.random() < 0.8 else rng.choice(PKG_IDS[pkgname])
    r = rng.random()
    if r < 0.55: return f'sle solute={solute} T={round(rng.uniform(270, 340), 2)}'
    if r < 0.85:
        x = rng.choice([-0.1, 0.0, 1e-6, round(rng.random(), 4), round(rng.random() * 0.2, 4), 0.999999, 1.0, 1.5])
        return f'sle solute={solute} T={round(rng.uniform(270, 340), 2)} solubility={x}'
    return f'sle solute={solute} Hq={round(rng.uniform(0.5, 1.5), 3)}'


def _vlle_op(rng):
    return f'vlle T={round(rng.uniform(290, 400), 2)} P={float(f"{10 ** rng.uniform(4.5, 5.7):.6g}")}'


def _new(rng, pkgname, subset, phases, mode, single=False):
    n = len(PKG_IDS[pkgname])
    T = round(rng.uniform(280, 380), 2); P = 101325.0
    if single:
        rows = _distribute(rng, n, subset, [phases], 'first')
        return f'new {pkgname} single {phases} {T} {P} {_fmt_rows(rows)}', rows
    rows = _distribute(rng, n, subset, list(phases), mode)
    return f'new {pkgname} multi {phases} {T} {P} {_fmt_rows(rows)}', rows


def grid_cases(rng):
    """every (package, subset) x initial distribution x operation kind at least once"""
    out = []
    modes = ['first', 'last', 'alternate', 'random']
    for pkgname in 'ABCDEF':
        for si, subset in enumerate(SUBSETS[pkgname]):
            nvol = len([i for i in subset if i in PKG_VLE[pkgname]])
            for ki, kind in enumerate(VLE_KINDS):
                if kind[1] in 'xy' and (nvol != 2 or any(i in subset for i in PKG_LIGHT[pkgname])): continue      # x / y specifications need exactly two equilibrium chemicals
                mode = modes[(si + ki) % 4]
                single = (si + ki) % 5 == 0
                new, rows = _new(rng, pkgname, subset, rng.choice('lg') if single else 'gl', mode, single)
                ops = [new, _vle_op(rng, kind, _binary_z0(pkgname, rows))]
                if kind in ('PV', 'TV'): ops.append(_vle_op(rng, rng.choice(['PH', 'PS']), None))
                out.append(Case(ops, {'grid': f'{pkgname}{si}:{kind}'}))
            # LLE (cached path needs a second call), SLE, vlle
            new, _ = _new(rng, pkgname, subset, 'lL', modes[si % 4])
            out.append(Case([new] + _lle_ops(rng, pkgname, 3), {'grid': f'{pkgname}{si}:lle'}))
            new, _ = _new(rng, pkgname, subset, 'ls', modes[(si + 1) % 4])
            o1 = _sle_op(rng, pkgname)
            out.append(Case([new, o1, _sle_op(rng, pkgname, 'solubility=' in o1)], {'grid': f'{pkgname}{si}:sle'}))
            new, _ = _new(rng, pkgname, subset, 'Lgl', modes[(si + 2) % 4])
            out.append(Case([new, _vlle_op(rng)], {'grid': f'{pkgname}{si}:vlle'}))
    return out


def random_case(rng):
    pkgname = rng.choice('AABBCCCDEF')
    n = len(PKG_IDS[pkgname])
    subset = [i for i in range(n) if rng.random() < 0.6] or [rng.randrange(n)]
    fam = rng.choice(['vle'] * 6 + ['lle', 'lle', 'sle', 'vlle', 'mixed'])
    phases = {'vle': rng.choice(['gl', 'gl', 'gl', 'Lgl', 'gls']), 'lle': rng.choice(['lL', 'lL', 'Lgl']),
              'sle': rng.choice(['ls', 'ls', 'gls']), 'vlle': 'Lgl', 'mixed': rng.choice(['gl', 'Lgl', 'glLs'])}[fam]
    single = fam in ('vle', 'mixed') and rng.random() < 0.2
    new, rows = _new(rng, pkgname, subset, rng.choice('lg') if single else phases,
                     rng.choice(['first', 'last', 'alternate', 'random', 'random']), single)
    ops = [new]
    z0 = _binary_z0(pkgname, rows)
    for _ in range(rng.randrange(1, 5)):
        f = fam if fam != 'mixed' else rng.choice(['vle', 'vle', 'lle', 'sle', 'vlle'])
        if f == 'vle':
            kinds = VLE_KINDS[:5] * 3 + VLE_KINDS[5:7] + (VLE_KINDS[7:] * 3 if z0 is not None else [])
            ops.append(_vle_op(rng, rng.choice(kinds), z0))
        elif f == 'lle': ops.extend(_lle_ops(rng, pkgname, rng.choice([1, 2, 3])))
        elif f == 'sle': ops.append(_sle_op(rng, pkgname, any('solubility=' in o for o in ops)))
        else: ops.append(_vlle_op(rng))
        if rng.random() < 0.15:
            # a fresh distribution of new material over the phases before the next call
            ph = list(phases) if not single else ['g', 'l']
            rows = _distribute(rng, n, subset, ph, 'random')
            ops.append('setrows ' + _fmt_rows(rows))
    return Case(ops, {})


def _edit(rng, pkgname, phases, present):
    """an edit between two calls of a history; most keep the set of present chemicals (so `_setup` re-uses its
    index) and put material into the phase where the previous call cannot have left it"""
    n = len(PKG_IDS[pkgname])
    pk = {'A': ([], []), 'B': ([], []), 'C': ([3, 4], [5, 6]), 'D': ([4], []), 'E': ([], []), 'F': ([], [])}[pkgname]
    light = [i for i in pk[0] if i in present]; heavy = [i for i in pk[1] if i in present]
    vol = [i for i in PKG_VLE[pkgname] if i in present]
    r = rng.random()
    amt = lambda: repr(_flow(rng))
    if r < 0.30 and (light or heavy):                       # non-partitioning chemical into the "wrong" phase
        items = [f'l:{i}:{amt()}' for i in light if 'l' in phases and rng.random() < 0.8]
        items += [f'g:{i}:{amt()}' for i in heavy if 'g' in phases and rng.random() < 0.8]
        items += [f'{rng.choice(phases)}:{i}:{amt()}' for i in light + heavy if rng.random() < 0.3]
        if items: return 'add ' + ','.join(items)
    if r < 0.55 and present:                                # more of some present chemicals, any phase
        ks = rng.sample(sorted(present), rng.randrange(1, min(3, len(present)) + 1))
        return 'add ' + ','.join(f'{rng.choice(phases)}:{i}:{amt()}' for i in ks)
    if r < 0.65: return f'scale {rng.choice([0.5, 2.0, 10.0, 0.125, 3.0])}'
    if r < 0.78:                                            # a chemical that was absent appears: index must be rebuilt
        absent = [i for i in range(n) if i not in present]
        if absent:
            i = rng.choice(absent); present.add(i)
            return f'add {rng.choice(phases)}:{i}:{amt()}'
    if r < 0.88 and len(present) > 1:                       # a chemical disappears
        i = rng.choice(sorted(present)); present.discard(i)
        return f'zero {i}'
    if r < 0.94 and vol:                                    # same chemicals, everything re-distributed
        rows = _distribute(rng, n, sorted(present), list(phases), 'random')
        return 'setrows ' + _fmt_rows(rows)
    return None


def envelope_history(rng):
    """Binary liquid-liquid pair, cached `lle` calls whose composition drifts across the edge of the two-liquid envelope
    the LLE object remembers: just inside -> just outside by less than the composition cache tolerance (both edges, both
    directions), and far outside with a raised `composition_cache_tolerance` (public option)."""
    pkgname, pair = rng.choice([('B', [0, 4]), ('B', [0, 4]), ('B', [0, 4]), ('B', [0, 2]), ('B', [0, 3]), ('D', [0, 1])])
    n = len(PKG_IDS[pkgname])
    f = lambda x: float(f'{x:.6g}')
    tot = f(10 ** rng.uniform(-1, 3)); a = rng.uniform(0.6, 0.95)       # inside the two-liquid envelope of these pairs
    rows = {'l': [0.0] * n, 'L': [0.0] * n}
    rows[rng.choice('lL')][pair[0]] = f(tot * a); rows[rng.choice('lL')][pair[1]] = f(tot * (1 - a))
    T = round(rng.uniform(285, 340), 2)
    top = rng.choice(['', '', f' top={PKG_IDS[pkgname][pair[0]]}', f' top={PKG_IDS[pkgname][pair[1]]}'])
    ops = [f'new {pkgname} multi lL {T} 101325.0 {_fmt_rows(rows)}', f'lle T={T}{top}']
    if rng.random() < 0.6:
        for _ in range(rng.randrange(1, 4)):
            side = rng.choice('01'); inside = 1 if side == '0' else -1      # direction into the envelope
            if rng.random() < 0.5:
                d1, d2 = 10 ** rng.uniform(-6.5, -5.5), 10 ** rng.uniform(-6.5, -5.5)     # d1 + d2 < default tolerance 1e-5
                opt = ''
            else:       # a wider drift under a raised (public) composition_cache_tolerance
                d1, d2 = 10 ** rng.uniform(-4, -2.5), 10 ** rng.uniform(-4, -2.3)
                opt = f' ctol={rng.choice([0.01, 0.05, 0.1])}'
            first, second = (inside * d1, -inside * d2) if rng.random() < 0.8 else (-inside * d1, inside * d2)
            ops += [f'edge side={side} eps={first!r}', f'lle T={T}{top}{opt}',        # just inside the envelope (solver or cache)
                    f'edge side={side} eps={second!r}', f'lle T={T}{top}{opt}']       # just outside: answered from the cache
    else:
        ctol = rng.choice([0.1, 0.05, 0.5, 1e-3])
        for _ in range(rng.randrange(1, 4)):
            i = rng.choice(pair)
            e = f'add {rng.choice("lL")}:{i}:{f(tot * 10 ** rng.uniform(-2, 1.2))!r}' if rng.random() < 0.8 else f'scale {rng.choice([0.5, 3.0])}'
            ops += [e, f'lle T={T}{top} ctol={ctol}']
    return Case(ops, {'history': 'lle-envelope-edge'})


def _rvle_op(rng):
    T = round(rng.uniform(352, 372), 2); P = float(f'{10 ** rng.uniform(4.85, 5.1):.6g}')
    spec = f'T={T} P={P}' if rng.random() < 0.8 else rng.choice([f'T={T} V={round(rng.uniform(0.2, 0.8), 2)}',
                                                                 f'P={P} V={round(rng.uniform(0.2, 0.8), 2)}'])
    return f'rvle {spec} X={rng.choice([0.2, 0.5, 0.05, 0.8, 0.2])}' + (' in=g' if rng.random() < 0.25 else '')


def reactive_history(rng):
    """ordinary VLE calls on a stream whose cached VLE object ran a reactive flash earlier (package E)"""
    n = 4
    rows = {'g': [0.0] * n, 'l': [0.0] * n}
    s = rng.choice([1.0, 1.0, 100.0, _flow(rng)])
    for i, f in ((1, 1.0), (2, rng.choice([1.0, 0.5, 3.0])), (3, rng.choice([5.0, 2.0, 8.0]))):
        rows[rng.choice('ll g'.replace(' ', ''))][i] = float(f'{f * s * rng.uniform(0.7, 1.3):.6g}')
    if rng.random() < 0.4: rows['l'][0] = float(f'{0.3 * s:.6g}')
    ops = [f'new E multi gl {round(rng.uniform(300, 360), 2)} 101325.0 {_fmt_rows(rows)}']
    if rng.random() < 0.4: ops.append(_vle_op(rng, rng.choice(['TP', 'PV'])))
    present = {i for i in range(n) if rows['g'][i] + rows['l'][i] > 0}
    for k in range(rng.randrange(2, 6)):
        if k == 0 or rng.random() < 0.2: ops.append(_rvle_op(rng))
        T = round(rng.uniform(352, 372), 2); P = float(f'{10 ** rng.uniform(4.85, 5.1):.6g}'); V = round(rng.uniform(0.1, 0.9), 2)
        ops.append(rng.choice([f'vle T={T} P={P}', f'vle T={T} P={P}', f'vle T={T} V={V}', f'vle P={P} V={V}',
                               _vle_op(rng, rng.choice(['PH', 'PS', 'TP']))]))
        if rng.random() < 0.3:
            e = _edit(rng, 'E', 'gl', present)
            if e: ops.append(e)
    return Case(ops, {'history': 'reactive-then-plain'})


def history_case(rng, fam=None, pkgname=None):
    """2-4 calls on ONE stream through its cached solver objects, flows edited in between"""
    fam = fam or rng.choice(['vle'] * 5 + ['lle', 'lle', 'sle', 'sle', 'vlle', 'mixed', 'mixed'])
    if pkgname is None and fam in ('vle', 'mixed') and rng.random() < 0.25: return reactive_history(rng)
    if pkgname is None and fam == 'lle' and rng.random() < 0.5: return envelope_history(rng)
    pkgname = pkgname or (rng.choice('DDDCFF') if fam == 'sle' else rng.choice('ABBCCCDEF'))
    n = len(PKG_IDS[pkgname])
    subset = [i for i in range(n) if rng.random() < 0.7] or [rng.randrange(n)]
    if fam == 'sle' and pkgname == 'D' and 1 not in subset: subset.append(1)
    phases = {'vle': 'gl', 'lle': 'lL', 'sle': 'ls', 'vlle': 'Lgl', 'mixed': rng.choice(['Lgl', 'glLs', 'gls'])}[fam]
    new, rows = _new(rng, pkgname, sorted(subset), phases, rng.choice(['first', 'last', 'alternate', 'random']))
    ops = [new]
    present = set(subset)
    lleT = round(rng.uniform(290, 350), 2)
    for k in range(rng.randrange(2, 5)):
        f = fam if fam != 'mixed' else rng.choice(['vle', 'vle', 'lle', 'sle', 'vlle'])
        z0 = None
        if f == 'vle':
            kinds = VLE_KINDS[:5] * 3 + VLE_KINDS[5:7] + (VLE_KINDS[7:] * 2 if len([i for i in PKG_VLE[pkgname] if i in present]) == 2
                                                             and not any(i in present for i in PKG_LIGHT[pkgname]) else [])
            ops.append(_vle_op(rng, rng.choice(kinds), z0))
        elif f == 'lle':
            top = rng.choice([None, None] + PKG_IDS[pkgname])
            T = lleT if rng.random() < 0.7 else round(lleT + rng.choice([1e-4, -1e-4, 5e-4, -3.0, 2.0]), 4)
            ops.append(f'lle T={T}' + (f' top={top}' if top else ''))
        elif f == 'sle': ops.append(_sle_op(rng, pkgname))
        else: ops.append(_vlle_op(rng))
        e = _edit(rng, pkgname, phases, present)
        if e and f == 'lle' and rng.random() < 0.5:
            e = f'scale {1 + rng.choice([1e-7, -1e-7, 1e-3])}' if rng.random() < 0.5 else e   # stay inside / leave the cache tolerance
        if e: ops.append(e)
    return Case(ops, {'history': fam})


def grid_histories(rng):
    """for every package: a call, material put into the phase where it does not belong (same chemicals), the call
    again; then a chemical added / removed, and the call again -- for VLE, LLE, SLE and vlle"""
    out = []
    for pkgname in 'ABCD':
        for fam in ('vle', 'lle', 'sle', 'vlle', 'mixed'):
            for _ in range(2):
                out.append(history_case(rng, fam, pkgname))
    for _ in range(6): out.append(reactive_history(rng))
    for _ in range(30): out.append(envelope_history(rng))
    # the two shapes reported by the coordinator, spelled out
    out.append(Case(['new C multi gl 330.0 101325.0 g:0.0,0.0,0.0,2.0,1.0,0.0,0.0|l:10.0,5.0,1.0,0.0,0.0,1.0,0.5',
                     'vle T=350.0 P=101325.0', 'add l:3:0.75,l:4:0.25,g:5:0.5,g:6:0.125', 'vle T=350.0 P=101325.0',
                     'add l:3:2.0,g:5:1.0', 'vle P=101325.0 V=0.5', 'add l:4:1.0,g:6:1.0', 'vle P=101325.0 Hq=0.4'],
                    {'history': 'wrong-phase'}))
    out.append(Case(['new D multi ls 300.0 101325.0 l:10.0,5.0,0.0,0.0,0.0|s:0.0,1.0,0.0,0.0,0.0',
                     'sle solute=Tetradecanol T=300.0', 'add s:1:4.0', 'sle solute=Tetradecanol T=300.0',
                     'add l:1:7.5', 'sle solute=Tetradecanol Hq=0.9', 'scale 0.5', 'sle solute=Tetradecanol T=305.0'],
                    {'history': 'sle-amount'}))
    out.append(Case(['new D multi ls 300.0 101325.0 l:0.0,5.0,0.0,0.0,0.0|s:0.0,1.0,0.0,0.0,0.0',
                     'sle solute=Tetradecanol T=300.0', 'add l:0:10.0,l:2:1.0', 'sle solute=Tetradecanol T=300.0',
                     'add s:1:2.0', 'sle solute=Tetradecanol T=320.0'], {'history': 'sle-pure-then-solvent'}))
    return out


def grid_branches(rng, tier):
    """Deterministic entries for write-back branches that random drawing reaches only a few times per run:
    dew-limited and bubble-limited set_TV / set_PV, the lever rule with a clipped split fraction, the SLE
    melting-point setters and the H-specified melting fraction, the optimiser variants of LLE (and, thorough tier,
    of VLE)."""
    out = []
    f = lambda x: float(f'{x:.6g}')
    # dew-limited: a volatile bulk with a trace of a high boiler; bubble-limited: a liquid with dissolved light gas
    for k in range(10):
        W = f(10 ** rng.uniform(-1, 2.5)); t = f(W * 10 ** rng.uniform(-4, -2.3))
        ph = rng.choice(['g', 'l', 'gl'])
        rows = {'g': [0.0] * 5, 'l': [0.0] * 5}
        if ph == 'gl': rows['g'][0] = f(W * 0.5); rows['l'][0] = f(W * 0.5); rows[rng.choice('gl')][1] = t
        else: rows[ph][0] = W; rows[rng.choice('gl')][1] = t
        V = rng.choice([1e-4, 0.01, 0.1, 0.5, 0.5, 0.9, 0.99])
        op = f'vle T={round(rng.uniform(320, 420), 2)} V={V}' if k % 2 else f'vle P={f(10 ** rng.uniform(4.5, 5.6))} V={V}'
        out.append(Case([f'new D multi gl 330.0 101325.0 {_fmt_rows(rows)}', op, _vle_op(rng, rng.choice(['TV', 'PV']))],
                        {'grid': 'dew-limited'}))
    for k in range(4):
        new, _ = _new(rng, 'C', [0, 1, 3, 4] if k % 2 else [0, 2, 3, 5], 'gl', 'random')
        V = rng.choice([1e-6, 1e-4, 1e-3, 0.01])
        out.append(Case([new, f'vle P={f(10 ** rng.uniform(4.6, 5.5))} V={V}', f'vle T={round(rng.uniform(300, 380), 2)} V={V}'],
                        {'grid': 'bubble-limited'}))
    # lever rule with the split fraction a hair outside [0, 1] (accepted up to 1e-5, clipped)
    for pkgname, pair in (('A', [0, 1]), ('A', [2, 3]), ('B', [0, 1]), ('E', [2, 3]), ('B', [2, 3]), ('D', [0, 2])):
        new, rows = _new(rng, pkgname, pair, 'gl', 'random')
        z0 = _binary_z0(pkgname, rows)
        ops = [new]
        for spec in ('P', 'T'):
            val = f'P={f(10 ** rng.uniform(4.7, 5.3))}' if spec == 'P' else f'T={round(rng.uniform(330, 370), 2)}'
            for xy in 'yx':
                for sgn in (1, -1):
                    ops.append(f'vle {val} {xy}={min(0.999, max(0.001, z0 * (1 + sgn * 10 ** rng.uniform(-6.5, -5.2))))!r}')
        out.append(Case(ops, {'grid': 'lever-clipped'}))
    # SLE: pure solute (melting-point setters, H-specified melting fraction), and a solute with solvent
    for k in range(6):
        m = f(10 ** rng.uniform(-2, 2)); a = rng.random()
        rows = {'l': [0.0, f(m * a), 0.0, 0.0, 0.0], 's': [0.0, f(m * (1 - a)), 0.0, 0.0, 0.0]}
        ops = [f'new D multi ls 300.0 101325.0 {_fmt_rows(rows)}',
               f'sle solute=Tetradecanol T={round(rng.uniform(280, 311), 2)}', f'sle solute=Tetradecanol Hm={round(rng.uniform(0.05, 0.95), 3)}',
               f'sle solute=Tetradecanol T={round(rng.uniform(314, 340), 2)}', f'sle solute=Tetradecanol Hm={round(rng.uniform(0.05, 0.95), 3)}',
               f'sle solute=Tetradecanol Hm={rng.choice([-0.3, 1.4])}', f'sle solute=Tetradecanol T={round(rng.uniform(280, 311), 2)}']
        out.append(Case(ops, {'grid': 'sle-pure'}))
    # the solute changes between calls on one SLE object (same chemicals present, so `_setup` re-uses its index), including
    # a solute that is not LLE-capable and therefore not a member of that index (CO2: no UNIFAC groups)
    for k in range(8):
        rows = {'l': [0.0] * 4, 's': [0.0] * 4}
        for i in (0, 2, 3):
            if i == 0 or rng.random() < 0.7: rows['l'][i] = f(10 ** rng.uniform(-1, 1))
        rows['l'][1] = f(10 ** rng.uniform(-1, 2.5)); rows['s'][1] = f(10 ** rng.uniform(-2, 1))
        first = rng.choice(['Propane', 'Propane', 'Water'])
        ops = [f'new F multi ls 250.0 101325.0 {_fmt_rows(rows)}', f'sle solute={first} T={round(rng.uniform(200, 260), 2)}',
               f'sle solute=CO2 T={round(rng.uniform(180, 230), 2)}', f'sle solute={first} T={round(rng.uniform(200, 260), 2)}',
               f'sle solute=CO2 T={round(rng.uniform(180, 230), 2)}']
        out.append(Case(ops, {'grid': 'sle-solute-change'}))
    # optimiser variants: LLE by differential evolution (seeded by the library) -- same write-back, other solver
    for k in range(3 if tier == 'thorough' else 1):
        new, _ = _new(rng, 'B', [0, 1, 2, 3] if k else [0, 2], 'lL', 'random')
        out.append(Case([new, f'lle T={round(rng.uniform(300, 340), 2)} method=de cache=0',
                         f'lle T={round(rng.uniform(300, 340), 2)} method=de cache=0 top=Octane'], {'grid': 'lle-de'}))
    # single volatile chemical at / above its critical temperature (`_set_thermal_condition_chemical`: T >= Tc), and below
    for i, Tc in ((0, 369.89), (1, 304.13)):
        for T in (Tc + 30, Tc + 0.5, Tc - 20):
            rows = {'g': [0.0] * 4, 'l': [0.0] * 4}
            rows[rng.choice('gl')][i] = f(10 ** rng.uniform(-1, 2))
            if rng.random() < 0.5: rows['g' if rows['l'][i] else 'l'][i] = f(10 ** rng.uniform(-1, 1))
            out.append(Case([f'new F multi gl 300.0 101325.0 {_fmt_rows(rows)}',
                             f'vle T={round(T, 2)} P={f(10 ** rng.uniform(5, 6.6))}', f'vle T={round(T, 2)} P=101325.0',
                             f'vle T={round(T + 40, 2)} P={f(10 ** rng.uniform(5, 6.6))}'], {'grid': 'super-critical'}))
    return out


def shgo_cases(rng, tier):
    """VLE with the alternative solver (`vle.method = 'shgo'`, a public attribute): `_solve_v` normalises, optimises and
    scales back WITHOUT any clip, so conservation and non-negativity rest on that scaling alone.  Volatile mixtures with and
    without non-partitioning chemicals (gas-locked O2 / N2 / CO2, liquid/solid-locked Glucose / NaCl), specifications inside
    the two-phase region, followed by a call with the default solver on the same object.  The first shgo call of a process
    compiles the objective (about 25 s, not cached by numba): all these cases go to ONE worker."""
    out = []
    f = lambda x: float(f'{x:.6g}')
    table = [('D', [0, 2, 4]), ('C', [0, 1, 3]), ('C', [0, 1, 3, 4, 5, 6]), ('A', [0, 1]), ('D', [0, 2, 3, 4]), ('C', [0, 1, 5]),
             ('A', [0, 1, 2]), ('C', [0, 1, 2, 4])]
    for k, (pkgname, subset) in enumerate(table if tier == 'thorough' else table[:6]):
        n = len(PKG_IDS[pkgname]); sc = 10 ** rng.uniform(-2, 2)
        rows = {'g': [0.0] * n, 'l': [0.0] * n}
        for i in subset:
            ph = 'g' if i in PKG_LIGHT[pkgname] else rng.choice('lllg')
            rows[ph][i] = f(sc * rng.uniform(2, 15))
        T = round(rng.uniform(345, 368), 2); P = f(10 ** rng.uniform(4.9, 5.1))
        ops = [f'new {pkgname} multi gl {round(rng.uniform(300, 350), 2)} 101325.0 {_fmt_rows(rows)}',
               f'vle T={T} P={P} method=shgo', f'vle T={round(T + rng.uniform(-6, 6), 2)} P={P} method=shgo',
               rng.choice([f'vle P={P} V={round(rng.uniform(0.2, 0.8), 2)} method=shgo', f'vle T={T} V={round(rng.uniform(0.2, 0.8), 2)} method=shgo']),
               f'vle T={T} P={P}']
        out.append(Case(ops, {'grid': 'vle-shgo'}))
    return out


def generate(rng, tier, index, nworkers):
    b = budget(tier)
    grid = grid_cases(random.Random(rng.random()))
    # the same grid in every worker would need the same rng: derive it from the tier-level seed instead
    grid = grid + grid_histories(random.Random(rng.random()))
    grid = grid + grid_branches(random.Random(rng.random()), tier)
    if index == 0:
        for c in shgo_cases(random.Random(rng.random()), tier): yield c
    for k, c in enumerate(grid):
        if k % nworkers == index: yield c
    for _ in range(max(1, b['cases'] // nworkers)):
        yield history_case(rng) if rng.random() < 0.4 else random_case(rng)


def corpus():
    return [
        # the doctest mixtures of vle.py, with non-partitioning chemicals
        Case(['new C multi gl 298.15 101325.0 g:0.0,0.0,1.0,10.0,0.0,0.0,0.0|l:304.0,30.0,0.0,0.0,0.0,5.0,0.5',
              'vle T=363.88 P=101325.0', 'vle P=101325.0 V=0.5', 'vle P=101325.0 Hq=0.4', 'vle P=101325.0 Sq=0.4',
              'vle T=363.88 V=0.5']),
        # lever rule exactly at the dew / bubble composition (split fraction rounds to 1 / 0)
        Case(['new A multi gl 300.0 101325.0 g:0.0,0.0,0.0,0.0|l:10.0,5.0,0.0,0.0', 'vle P=101325.0 y=0.6666666666666666',
              'vle P=101325.0 x=0.6666666666666666', 'vle T=350.0 y=0.66666', 'vle T=350.0 x=0.66667']),
        # C03-1: dew composition a hair beyond z: split fraction 1.000004 is accepted and clipped to 1
        Case(['new A multi gl 300.0 101325.0 g:0.0,0.0,0.0,0.0|l:2.0,1.0,0.0,0.0', 'vle P=101325.0 y=0.666667666666']),
        # LLE: solver path, cached path, top-chemical swap; then vlle
        Case(['new B multi lL 300.0 101325.0 l:10.0,5.0,0.0,0.0,1.0|L:0.0,0.0,4.0,1.0,0.0', 'lle T=320.0',
              'lle T=320.0 top=Octane', 'lle T=320.0001 top=Water', 'vlle T=350.0 P=101325.0']),
        # SLE: solvent present (update_solubility), pure solute (melting-point setters)
        Case(['new D multi ls 300.0 101325.0 l:10.0,5.0,0.0,0.0,0.0|s:0.0,1.0,0.0,0.0,0.0', 'sle solute=Tetradecanol T=300.0',
              'sle solute=Tetradecanol T=320.0', 'sle solute=Tetradecanol T=300.0 solubility=0.1']),
        Case(['new D multi ls 300.0 101325.0 l:0.0,5.0,0.0,0.0,0.0|s:0.0,1.0,0.0,0.0,0.0', 'sle solute=Tetradecanol T=300.0',
              'sle solute=Tetradecanol T=320.0', 'sle solute=Tetradecanol Hq=0.5']),
        # only non-partitioning chemicals: _setup moves them and raises NoEquilibrium
        Case(['new C multi gl 300.0 101325.0 g:0.0,0.0,0.0,0.0,0.0,2.0,1.0|l:0.0,0.0,0.0,3.0,4.0,0.0,0.0',
              'vle T=350.0 P=101325.0', 'vle P=101325.0 V=0.5', 'vle P=101325.0 Hq=0.5']),
    ]


def extra_evidence(executed, model_outs):
    """monitor results and comparison mode, for the evidence file"""
    unmet, branches = {}, {}
    for mo in model_outs:
        for l in mo:
            for t in l.split(' '):
                if t.startswith('unmet:'): unmet[t[6:]] = unmet.get(t[6:], 0) + 1
                elif t.startswith('tag:'): branches[t[4:]] = branches.get(t[4:], 0) + 1
    calls = sum(1 for _, r in executed for l in r.model_in if l.startswith('end '))
    return {'comparison_mode': 'every write-back step: real imol.data vs model state, rtol 1e-9, atol 1e-12*max|entry|',
            'equilibrium_calls': calls,
            'hypothesis_monitors_unmet': unmet,
            'model_branches': branches,
            'oracle_tolerances': {'totals': 'per chemical: rtol 1e-9 of its own total, exact when absent',
                                  'min_flow': 'per chemical: >= -1e-12 * (its own total before the call)',
                                  'placement': 'exact zeros, judged against the declared phase locks'}}
