"""
C17 — reaction arithmetic agrees with applying the reactions and spares its operands.

Adapter for thermosteam/reaction/_reaction.py (Reaction / ReactionItem / ParallelReaction / SeriesReaction):
drives `+ - += -= * / *= /= neg copy backwards basis-setter X-setter product_yield/reactant_demand-setter reduce set.copy
set[i:j] set.X=… iteration reset_chemicals` on real
objects, dumps every object's fields (stoichiometry contents, reactant, X, basis, phases)
and identity classes of the arrays they hold after every operation, and evaluates the
property on the real objects only:

  * agreement laws on random feeds (a+b vs parallel, a-b, k*a, a/k, -a, copy, reduce,
    (a+b)-b vs a),
  * in-place form == binary form,
  * operands (every pre-existing object) unchanged by non-in-place operations,
  * result is a new object that shares no array with any pre-existing object,
  * ReactionItem (from set[i] or from iterating the set) / slice X write <-> set X read, element and whole-array
    assignment (every object that read the written cell before the operation reads the written value after it),
  * set.copy is independent of the original; reset_chemicals preserves the action on streams of either package.

The Lean model is lean/ThermoVerif/Model/ReactionAlgebra.lean (driver Driver/C17.lean).
"""
from __future__ import annotations
import math, random, warnings, zlib, operator
from fractions import Fraction
from harness.core import Case, ImplResult, frac, close

PID = 'C17'
LEAN_MODULES = ['ThermoVerif.Props.C17']
RULE = ('histories over 2-5 Reaction objects and the parallel/series sets, items, slices and copies built from them '
        '(mostly sharing a reactant; mol/wt basis; phase-less or tagged with '
        "phases 'gls'; dyadic stoichiometries and conversions) built through the real constructor, followed by "
        'random arithmetic / in-place / copy / backwards / basis / set / item / slice / set-copy / reduce / reset_chemicals / '
        'apply operations (10% of the cases: a Reaction against items of a set on the other basis) generated '
        'adaptively on the real objects; conversions and scalars are handed over as Python float, numpy.float64, '
        '0-d numpy array or int (about a third of the scalars are not plain floats); a case is non-trivial when at least one arithmetic operation succeeded; '
        'distinct = distinct op sequences')
ASSUMPTIONS = [
    'Python object identity is modelled by ids into an explicit store (arrays, X arrays, objects)',
    'float arithmetic is compared exactly while every observed value has <= 26 significant bits (dyadic inputs), '
    'else with rtol 1e-9 / atol 1e-12',
    'iteration order of set(self._reactant_index) in ParallelReaction.reduce is an external parameter: the key order of the '
    'returned set (or, when reduce raises, of set(self._reactant_index)) is handed to the model, which checks it covers the keys once',
    'three property packages (home: 8 chemicals; two alternatives, one lacking two chemicals and having an extra one); '
    'reset_chemicals of items/sets, stepped or negative slices, X_net, ParallelReaction.__add__, ReactionSystem and the getter '
    'form of product_yield are not modelled (the setter form of product_yield / reactant_demand is)',
    'the agreement laws are evaluated for operands normalised on their reactant (true of everything the constructor '
    'and the operations return); a left operand with empty stoichiometry and X != 0 (Reaction(\'\', ...)) is outside them',
    'products of obj(feed) are observed through __call__ with the default feasibility check; when it refuses a negative '
    'flow, as feed + conversion(feed)',
    'a + b with X_a + X_b = 0 and a - b with X_a = X_b (different stoichiometries) raise ZeroDivisionError in code and model: the '
    'net reaction has no representation normalised on the reactant; the agreement theorems and laws exclude it, the oracle only '
    'checks that a ZeroDivisionError occurs where such a sum (or a divisor) really vanishes',
    'whether __call__ refuses a result (InfeasibleRegion, clamping of negligible negatives) is C05 matter; C17 observes products '
    'through __call__ and, where it refuses, through feed + conversion(feed), and on explicit apply lines checks that the two '
    'routes agree and that __call__ refuses exactly when a flow is negative beyond rounding',
    'the dump compares the identity of the top-level stoichiometry array of each object; rows/dicts inside a SparseArray are '
    'covered by the oracle\'s sharing tokens only',
    'the model is written to the repaired behaviour of the defects fixed in /repo (C17-1..7, 8900795): in particular '
    '`item += b` / `item -= b` write the row of the item\'s set in place',
]
TRUSTED = ['Lean 4.33 kernel', 'correspondence harness harness/props/c17.py + Driver/C17.lean',
           'generator reach (see histogram)', 'field-vs-float gap (theorems over ordered fields)']
EXHAUSTIVE = {'quick': False, 'thorough': False}

IDS = ['Water', 'Ethanol', 'Methanol', 'Glucose', 'CO2', 'O2', 'H2', 'AceticAcid']
N = len(IDS)
PHASES = {0: '', 2: 'gl', 3: 'gls'}

# alternative property packages for `reset_chemicals`: global chemical ids (home ids 0..7, N2 = 8)
ALT_IDS = [[3, 5, 4, 1, 0, 7, 8],            # no Methanol, no H2, with N2
           [7, 6, 5, 4, 3, 2, 1, 0]]         # the home chemicals in reverse order
GLOBAL_IDS = IDS + ['N2']

tmo = None
rxnmod = None
CHEMS = None
MW = None
PKGS = []
THERMOS = []


def setup():
    global tmo, CHEMS, MW, rxnmod
    import thermosteam as tmo_
    tmo = tmo_
    warnings.simplefilter('ignore')
    CHEMS = tmo.Chemicals(IDS, cache=True)
    tmo.settings.set_thermo(CHEMS)
    MW = [float(x) for x in CHEMS.MW]
    PKGS.clear(); THERMOS.clear()
    PKGS.append(CHEMS); THERMOS.append(tmo.settings.get_thermo())
    for ids in ALT_IDS:
        c = tmo.Chemicals([GLOBAL_IDS[g] for g in ids], cache=True)
        PKGS.append(c); THERMOS.append(tmo.Thermo(c))
    import thermosteam.reaction as rxnmod_
    rxnmod = rxnmod_


def budget(tier):
    return {'quick': dict(seconds=60, cases=1200, shrink_s=15, search_s=5),
            'thorough': dict(seconds=450, cases=20000, shrink_s=40, search_s=20)}[tier]


def pkg_line():
    return 'pkg %d %s' % (N, ' '.join(frac(x) for x in MW))


def alt_lines():
    return ['alt %s %s' % (','.join(map(str, ids)), ','.join(frac(float(x)) for x in PKGS[k + 1].MW))
            for k, ids in enumerate(ALT_IDS)]


def prelude():
    return [pkg_line()] + alt_lines()


# --------------------------------------------------------------------------
# numbers
# --------------------------------------------------------------------------

def short(x) -> bool:
    """<= 26 significant bits: sums/products of a few such values are exact in binary64"""
    x = float(x)
    if x == 0: return True
    if x != x or x in (math.inf, -math.inf): return False
    m, e = math.frexp(x)
    n = int(abs(m) * (1 << 53))
    tz = (n & -n).bit_length() - 1
    return 53 - tz <= 26 and -40 < e < 40


def sparse_str(vals):
    items = ['%d:%s' % (i, frac(v)) for i, v in enumerate(vals) if v != 0]
    return ';'.join(items) if items else '-'


def dense_str(vals):
    return ','.join(frac(v) for v in vals)


def parse_num(t):
    return float(Fraction(t.split('@')[0]))


def plain(t):
    """value of a scalar token without its `@how` suffix"""
    return float(Fraction(t.split('@')[0]))


def typed(t):
    """a scalar token `value[@how]` as the Python object the real code receives: `@f`/none a float,
    `@n` a numpy.float64, `@a` a 0-d numpy.ndarray (what an optimiser or an array reduction hands over),
    `@i` an int"""
    import numpy as np
    v, _, how = t.partition('@')
    x = float(Fraction(v))
    if how == 'n': return np.float64(x)
    if how == 'a': return np.asarray(x)
    if how == 'i': return int(x)
    return x


# --------------------------------------------------------------------------
# the real objects of one case
# --------------------------------------------------------------------------

class BadCase(Exception):
    """the case itself is malformed (dangling reference, wrong feed length): not a verdict"""
    pass


class Unexpected(Exception):
    """the real code returned something the adapter cannot even represent: an oracle failure, not a crash"""
    pass


LEGIT_ERRORS = [
    (ValueError, 'must be the same'), (ValueError, 'must pass reactant'), (ValueError, 'basis must be'),
    (ValueError, 'all reactions must'), (ValueError, 'above the maximum theoretical'), (ValueError, 'could not broadcast'), (ZeroDivisionError, ''), (FloatingPointError, 'divide by zero'), (FloatingPointError, 'invalid value'), (RuntimeError, 'does not participate'),
    (TypeError, 'cannot change basis'), (TypeError, 'cannot reduce'), (IndexError, ''), ('UndefinedChemicalAlias', ''),
]


def legit_error(e):
    for cls, sub in LEGIT_ERRORS:
        if (type(e).__name__ == cls if isinstance(cls, str) else type(e) is cls) and sub in str(e): return True
    return False


def raised_in(e):
    """name of the innermost function of thermosteam/reaction/_reaction.py on the traceback"""
    import traceback
    name = '?'
    for fr in traceback.extract_tb(e.__traceback__):
        if fr.filename.endswith('_reaction.py'): name = fr.name
    return name


def is_item(o): return isinstance(o, tmo.ReactionItem)
def is_rxn(o): return isinstance(o, tmo.Reaction)
def is_set(o): return isinstance(o, tmo.ReactionSet)


def xbase(arr):
    """the numpy array that owns the memory of a set's `_X` (a slice of a set holds a view)"""
    while getattr(arr, 'base', None) is not None: arr = arr.base
    return arr


def xoff(arr):
    """position of the first cell of `_X` inside the array that owns it (0 for an empty window: unobservable)"""
    b = xbase(arr)
    if arr.size == 0: return 0
    return (arr.__array_interface__['data'][0] - b.__array_interface__['data'][0]) // arr.itemsize


def nph(o): return len(o._phases)


def arr_vals(a):
    return [float(x) for x in a.to_array().flatten()]


def nch(o):
    """number of chemicals of the package an object is defined over"""
    return len(o.chemicals.IDs)


def pkg_no(o):
    for k, c in enumerate(PKGS):
        if o.chemicals is c: return k
    return 99


def ridx_of(ri, ph, o=None):
    if ph: return int(ri[0]) * (nch(o) if o is not None else N) + int(ri[1])
    return int(ri)


def array_tokens(a):
    """identity tokens of everything mutable inside a stoichiometry array"""
    toks = {('a', id(a))}
    rows = getattr(a, 'rows', None)
    if rows is not None:
        for r in rows:
            toks.add(('a', id(r))); toks.add(('d', id(r.dct)))
    elif hasattr(a, 'dct'):
        toks.add(('d', id(a.dct)))
    return toks


class Universe:
    def __init__(self):
        self.objs = []
        self.parent = {}          # object index of an item -> (object index of its set, row)
        self.apply_issues = []    # (signature, what) found while applying objects with `check`
        self.ready = False

    # -- references -----------------------------------------------------------
    def ref(self, t):
        if not t.startswith('r'): raise BadCase(t)
        k = int(t[1:])
        if k >= len(self.objs): raise BadCase(t)
        return self.objs[k]

    def rxn(self, t):
        o = self.ref(t)
        if not is_rxn(o): raise BadCase(t + ' is not a reaction')
        return o

    def rset(self, t):
        o = self.ref(t)
        if not is_set(o): raise BadCase(t + ' is not a set')
        return o

    def index_of(self, o):
        for k, x in enumerate(self.objs):
            if x is o: return k
        return None

    # -- canonical state ---------------------------------------------------------
    def fields(self, o):
        """the observable fields of one object (what the property talks about)"""
        ph = nph(o)
        b = 'm' if o._basis == 'mol' else ('w' if o._basis == 'wt' else '?')
        if is_set(o):
            return dict(kind='S' if isinstance(o, tmo.SeriesReaction) else 'P', v=[arr_vals(r) for r in o._stoichiometry],
                        ri=[ridx_of(x, ph, o) for x in o._reactant_index],
                        X=[float(x) for x in o._X], b=b, ph=ph, pk=pkg_no(o))
        return dict(kind='I' if is_item(o) else 'R', v=[arr_vals(o._stoichiometry)],
                    ri=[ridx_of(o._reactant_index, ph, o)], X=[float(o.X)], b=b, ph=ph, pk=pkg_no(o))

    def snapshot(self):
        return [self.fields(o) for o in self.objs]

    def cells(self, o):
        """identity tokens of the mutable cells an object reads its value from"""
        toks = set()
        if is_set(o):
            for r in o._stoichiometry: toks |= array_tokens(r)
            b, off = xbase(o._X), xoff(o._X)
            for i in range(len(o._X)): toks.add(('x', id(b), off + i))
        else:
            toks |= array_tokens(o._stoichiometry)
            if is_item(o):
                toks.add(('x', id(xbase(o._X)), xoff(o._X) + int(o._index)))
            else:
                toks.add(('own', id(o)))
                if hasattr(o._X, '__array_interface__') and getattr(o._X, 'ndim', None) is not None \
                        and not isinstance(o._X, (float, int)) and type(o._X).__name__ == 'ndarray':
                    toks.add(('xobj', id(xbase(o._X))))      # a mutable array stored as the conversion
        return toks

    def dump(self):
        seen_a, seen_x, parts = [], [], []
        allshort = True
        def cls(seen, ident):
            for k, x in enumerate(seen):
                if x is ident: return k
            seen.append(ident); return len(seen) - 1
        for k, o in enumerate(self.objs):
            f = self.fields(o)
            for row in f['v']:
                for x in row:
                    if not short(x): allshort = False
            for x in f['X']:
                if not short(x): allshort = False
            if f['kind'] in 'PS':
                cs = ['#%d' % cls(seen_a, r) for r in o._stoichiometry]
                cx = cls(seen_x, xbase(o._X))
                vs = ' '.join('v%d=%s' % (i, sparse_str(row)) for i, row in enumerate(f['v']))
                parts.append('r%d:%s rows=%s xa=#x%d+%d ri=%s X=%s b=%s ph=%d pk=%d %s' % (
                    k, f['kind'], ','.join(cs), cx, xoff(o._X), ','.join(str(i) for i in f['ri']), dense_str(f['X']),
                    f['b'], f['ph'], f['pk'], vs))
            else:
                c = cls(seen_a, o._stoichiometry)
                if f['kind'] == 'I':
                    xs = '#x%d.%d' % (cls(seen_x, xbase(o._X)), xoff(o._X) + int(o._index))
                else:
                    xs = 'own'
                parts.append('r%d:%s nu=#%d ri=%d X=%s xs=%s b=%s ph=%d pk=%d v=%s' % (
                    k, f['kind'], c, f['ri'][0], frac(f['X'][0]), xs, f['b'], f['ph'], f['pk'], sparse_str(f['v'][0])))
        return ' | '.join(parts), allshort

    # -- applying an object to a feed -------------------------------------------------
    def apply(self, o, feed, mode, check=False):
        """products of `o(feed)`: through `__call__`; when the feasibility check of `__call__` refuses the
        result (a flow below zero), as feed + conversion(feed), which is the same quantity without the check.
        With `check` the two routes are compared: `__call__` must refuse exactly when the unchecked result has
        negative flows beyond rounding, and otherwise return it with the negligible negatives set to zero."""
        import numpy as np
        ph = nph(o)
        rows = ph or 1
        n_o = nch(o)
        th = THERMOS[pkg_no(o)]
        mw_o = np.array([float(x) for x in o.chemicals.MW])
        if len(feed) != rows * n_o: raise BadCase('feed length')
        def fresh():
            arr = np.array(feed, float)
            return arr.reshape(rows, n_o) if ph else arr
        def dense(x):
            return np.asarray(x.to_array() if hasattr(x, 'to_array') else x, float)
        def stream():
            if ph:
                s = tmo.MultiStream(None, phases=PHASES[ph], thermo=th)
                s.imol.data[:] = fresh()
            else:
                s = tmo.Stream(None, flow=fresh(), thermo=th)
            return s
        called = None
        try:
            if mode == 'arr':
                arr = fresh()
                o(arr)
                called = [float(x) for x in arr.flatten()]
            else:
                s = stream()
                o(s)
                called = [float(x) for x in s.imol.data.to_array().flatten()]
        except tmo.exceptions.InfeasibleRegion:
            pass
        if called is not None and not check: return called
        total = fresh()
        ser = isinstance(o, tmo.SeriesReaction)
        def at(arr2):
            if mode == 'arr': return arr2.copy()
            if ph:
                s2 = tmo.MultiStream(None, phases=PHASES[ph], thermo=th); s2.imol.data[:] = arr2
            else:
                s2 = tmo.Stream(None, flow=arr2.copy(), thermo=th)
            return s2
        for it in (list(o) if is_set(o) else [o]):
            conv = dense(it.conversion(at(total) if ser else (fresh() if mode == 'arr' else stream())))
            if mode != 'arr' and it._basis == 'wt': conv = conv / mw_o
            total = total + conv.reshape(total.shape)
        unchecked = [float(x) for x in total.flatten()]
        if check:
            negsum = sum(x for x in unchecked if x < 0)
            scale = max([1.0] + [abs(x) for x in unchecked])
            if called is None and negsum > -1e-15:
                self.apply_issues.append(('apply:refused-a-feasible-result',
                    'calling the object raised InfeasibleRegion although no flow of feed + conversion is negative (sum of negatives %r)' % negsum))
            if called is not None:
                if negsum < -1e-9 * scale:
                    self.apply_issues.append(('apply:negative-flow-not-refused',
                        'calling the object returned although feed + conversion has negative flows (sum %r)' % negsum))
                elif any(x < 0 for x in called):
                    self.apply_issues.append(('apply:negative-flow-returned',
                        'calling the object returned a negative flow (%r) that it neither refused nor set to zero' % min(called)))
                else:
                    want = [max(x, 0.0) if x > -1e-9 * scale else x for x in unchecked]
                    if not vec_close(called, want, feed):
                        q = max(range(len(called)), key=lambda j: abs(called[j] - want[j]))
                        self.apply_issues.append(('apply:call-differs-from-conversion',
                            'calling the object gives %r for entry %d where feed + conversion gives %r' % (called[q], q, want[q])))
        return called if called is not None else unchecked

    def apply_pkg(self, o, p, feed):
        """molar flows of a stream over package `p` after `o(stream)` (o: a plain reaction over any package)"""
        import numpy as np
        ph = nph(o)
        rows = ph or 1
        n_p = len(PKGS[p].IDs)
        if len(feed) != rows * n_p: raise BadCase('feed length')
        arr = np.array(feed, float)
        if ph: arr = arr.reshape(rows, n_p)
        def stream():
            if ph:
                s = tmo.MultiStream(None, phases=PHASES[ph], thermo=THERMOS[p]); s.imol.data[:] = arr
            else:
                s = tmo.Stream(None, flow=arr.copy(), thermo=THERMOS[p])
            return s
        try:
            s = stream()
            o(s)
            return [float(x) for x in s.imol.data.to_array().flatten()]
        except tmo.exceptions.InfeasibleRegion:
            pass
        # the same quantity without the feasibility check: flows re-indexed onto the reaction's package,
        # conversion added there, re-indexed back (with the errors the indexer raises for missing chemicals)
        A, B = o.chemicals, PKGS[p]
        a2 = arr.reshape(rows, n_p)
        nA = np.zeros((rows, len(A.IDs)))
        for r in range(rows):
            for k, x in enumerate(a2[r]):
                if x: nA[r, A.index(B.IDs[k])] = x
        conv = o.conversion(stream())
        conv = np.asarray(conv.to_array() if hasattr(conv, 'to_array') else conv, float).reshape(rows, len(A.IDs))
        if o._basis == 'wt': conv = conv / np.array([float(x) for x in A.MW])
        mA = nA + conv
        out = np.zeros((rows, n_p))
        for r in range(rows):
            for j, x in enumerate(mA[r]):
                if x: out[r, B.index(A.IDs[j])] = x
        return [float(x) for x in out.flatten()]

    # -- constructors ------------------------------------------------------------
    def make_reaction(self, ph, basis, c, X, entries):
        left, right = [], []
        for idx, v in entries:
            p, j = divmod(idx, N)
            name = IDS[j] + (',' + PHASES[ph][p] if ph else '')
            s = repr(abs(float(v)))
            if 'e' in s or 'inf' in s or 'nan' in s: raise BadCase('coefficient format')
            (left if v < 0 else right).append(s + ' ' + name)
        if not left or not right: raise BadCase('one-sided reaction')
        eq = ' + '.join(left) + ' -> ' + ' + '.join(right)
        kw = dict(reactant=IDS[c], X=X, basis='mol' if basis == 'm' else 'wt')
        if ph: kw['phases'] = PHASES[ph]
        return tmo.Reaction(eq, **kw)

    # -- one protocol line ----------------------------------------------------------
    def run(self, line):
        """Execute one line on the real objects.  Returns (kind, payload, model_line) where kind is
        'ret' (payload = returned object), 'out' (payload = string of vectors) ; exceptions propagate."""
        t = line.split(' ')
        op = t[0]
        if op not in ('apply', 'applys', 'applys2', 'subcancel') and uses_MW(self, t): self.mw_touched = True
        if op == 'subcancel' and t[2].startswith('r') and self.ref(t[1])._basis != self.ref(t[2])._basis: self.mw_touched = True
        num = plain
        barg = {'-': None, 'm': 'mol', 'w': 'wt', 'x': 'xx'}
        def other(s):
            if s == 'none': return None
            if s == 'zero': return 0
            return self.rxn(s)
        if op == 'new':
            ph = int(t[1])
            entries = [] if t[5] == '-' else [(int(a), num(b)) for a, b in (it.split(':') for it in t[5].split(';'))]
            return 'ret', self.make_reaction(ph, t[2], int(t[3]), typed(t[4]), entries), line
        if op == 'empty':
            return 'ret', tmo.Reaction('', reactant=IDS[int(t[2])], X=typed(t[3]),
                                       basis='mol' if t[1] == 'm' else 'wt'), line
        if op == 'copy':
            a = self.rxn(t[1])
            return 'ret', (a.copy() if t[2] == '-' else a.copy(barg[t[2]])), line
        if op == 'add': return 'ret', self.rxn(t[1]) + other(t[2]), line
        if op == 'radd': return 'ret', other(t[2]) + self.rxn(t[1]), line
        if op == 'sub': return 'ret', self.rxn(t[1]) - other(t[2]), line
        if op == 'iadd': return 'ret', operator.iadd(self.rxn(t[1]), other(t[2])), line
        if op == 'isub': return 'ret', operator.isub(self.rxn(t[1]), other(t[2])), line
        if op == 'mul': return 'ret', self.rxn(t[1]) * typed(t[2]), line
        if op == 'rmul': return 'ret', typed(t[2]) * self.rxn(t[1]), line
        if op == 'div': return 'ret', self.rxn(t[1]) / typed(t[2]), line
        if op == 'neg': return 'ret', -self.rxn(t[1]), line
        if op == 'imul': return 'ret', operator.imul(self.rxn(t[1]), typed(t[2])), line
        if op == 'idiv': return 'ret', operator.itruediv(self.rxn(t[1]), typed(t[2])), line
        if op == 'back':
            kw = {}
            if t[2] != '-': kw['reactant'] = self.rxn(t[1]).chemicals.IDs[int(t[2])]
            if t[3] != '-': kw['X'] = typed(t[3])
            return 'ret', self.rxn(t[1]).backwards(**kw), line
        if op == 'setbasis':
            o = self.ref(t[1])
            o.basis = barg[t[2]]
            return 'ret', o, line
        if op == 'yield':
            o = self.rxn(t[1])
            name = o.chemicals.IDs[int(t[2])]
            val = typed(t[3])
            if zlib.crc32(line.encode()) & 1:
                o.product_yield(name, barg[t[4]], val)
            else:
                o.reactant_demand(name, barg[t[4]], -val)      # the same setter, sign convention of a reactant
            return 'ret', o, line
        if op == 'setx':
            o = self.rxn(t[1])
            o.X = typed(t[2])
            return 'ret', o, line
        if op == 'mkset':
            return 'ret', tmo.ParallelReaction([self.rxn(x) for x in t[1].split(',')]), line
        if op == 'mkseries':
            return 'ret', tmo.SeriesReaction([self.rxn(x) for x in t[1].split(',')]), line
        if op == 'setcopy':
            o = self.rset(t[1])
            return 'ret', (o.copy() if t[2] == '-' else o.copy(barg[t[2]])), line
        if op == 'slice':
            o = self.rset(t[1])
            r = o[int(t[2]):int(t[3])]
            if not is_set(r): raise Unexpected('set[i:j] returned a %s, not a reaction set' % type(r).__name__)
            return 'ret', r, line
        if op == 'item':
            s = self.rset(t[1]); i = int(t[2])
            if i >= len(s._X): raise IndexError('item index')
            return 'ret', s[i], line
        if op == 'iteritem':
            s = self.rset(t[1]); i = int(t[2])
            if i >= len(s._X): raise IndexError('item index')
            its = list(s)                      # ReactionSet.__iter__
            if len(its) != len(s._X): raise Unexpected('iterating the set gave %d items for %d reactions' % (len(its), len(s._X)))
            return 'ret', its[i], line
        if op == 'setsxall':
            s = self.rset(t[1])
            vals = [typed(x) for x in t[2].split(',')]
            import numpy as np
            how_ = zlib.crc32(line.encode()) % 3
            if len(vals) == 1 and how_ != 1:
                s.X = vals[0]                  # a bare scalar: numpy broadcasts it over the set's array
            else:
                s.X = vals if how_ == 0 else (np.array([float(v) for v in vals]) if how_ == 1 else tuple(vals))
            return 'ret', s, line
        if op == 'setsx':
            s = self.rset(t[1]); i = int(t[2])
            if i >= len(s._X): raise IndexError('item index')
            s.X[i] = typed(t[3])
            return 'ret', s, line
        if op == 'reduce':
            s = self.rset(t[1])
            ph = nph(s)
            order = [ridx_of(k, ph, s) for k in set(s._reactant_index)]     # the external parameter, as the code obtains it
            mline = '%s %s %s' % (t[0], t[1], ','.join(map(str, order)))
            self._pending_model_line = mline
            r = s.reduce()
            got = [ridx_of(k, nph(r), r) for k in r._reactant_index]
            # the key order actually used is the external parameter handed to the model
            mline = '%s %s %s' % (t[0], t[1], ','.join(map(str, got)))
            return 'ret', r, mline
        if op == 'reset':
            o = self.rxn(t[1])
            if is_item(o): raise BadCase('reset_chemicals of an item is not modelled')
            o.reset_chemicals(PKGS[int(t[2])])
            return 'ret', o, line
        if op == 'applys2':
            o = self.rxn(t[1])
            feed = [num(x) for x in t[3].split(',')]
            return 'out', [self.apply_pkg(o, int(t[2]), feed)], line
        if op in ('apply', 'applys'):
            o = self.ref(t[1])
            feed = [num(x) for x in t[2].split(',')]
            out = self.apply(o, feed, 'arr' if op == 'apply' else 'str', check=True)
            return 'out', [out], line
        if op == 'subcancel':
            a, b = self.rxn(t[1]), self.rxn(t[2])
            feed = [num(x) for x in t[3].split(',')]
            d = (a + b) - b
            return 'out', [self.apply(d, feed, 'arr'), self.apply(a, feed, 'arr')], line
        raise BadCase('unknown op ' + line)


INPLACE = {'iadd': 'add', 'isub': 'sub', 'imul': 'mul', 'idiv': 'div'}
FRESH_RESULT = ('copy', 'add', 'radd', 'sub', 'mul', 'rmul', 'div', 'neg', 'back', 'reduce', 'setcopy', 'mkset', 'mkseries')
NON_INPLACE = FRESH_RESULT + ('new', 'empty', 'slice', 'item', 'iteritem', 'apply', 'applys', 'applys2', 'subcancel')


def fields_diff(f, g, exact=True):
    """name of the first field in which two field records differ, else None"""
    if f['kind'] != g['kind'] and exact: return 'kind'
    if f['ri'] != g['ri']: return 'reactant'
    if f['b'] != g['b']: return 'basis'
    if f['ph'] != g['ph']: return 'phases'
    if f.get('pk') != g.get('pk'): return 'chemicals'
    if len(f['X']) != len(g['X']) or any(not (x == y) for x, y in zip(f['X'], g['X'])): return 'X'
    if len(f['v']) != len(g['v']): return 'stoichiometry'
    for r, s in zip(f['v'], g['v']):
        if len(r) != len(s) or any(not (x == y) for x, y in zip(r, s)): return 'stoichiometry'
    return None


def vec_close(l, r, feed):
    scale = max([1.0] + [abs(x) for x in l] + [abs(x) for x in r] + [abs(x) for x in feed])
    return all(abs(x - y) <= 1e-9 * scale for x, y in zip(l, r)) and len(l) == len(r)


def law_feeds(line, i, ph, hot, n=None):
    """two deterministic feeds for the agreement laws of one line (`hot` = reactant index gets material)"""
    rng = random.Random(zlib.crc32(line.encode()) * 31 + i)
    L = (ph or 1) * (n or N)
    feeds = []
    for kind in ('pos', 'any'):
        f = [rng.randrange(0, 257) / 4.0 for _ in range(L)]
        if kind == 'any':
            f = [x - 16.0 if rng.random() < 0.3 else x for x in f]
        for h in hot:
            if h < L and f[h] == 0: f[h] = 1.0 + rng.randrange(0, 64) / 4.0
        feeds.append(f)
    return feeds


def normalised(o):
    """the reactant's coefficient is -1 (true of everything the constructor or the arithmetic returns
    unless the stoichiometry is empty)"""
    try:
        return float(o._stoichiometry[o._reactant_index]) == -1.0
    except Exception:
        return False


class Oracle:
    """Evaluates the property on the real objects around one operation."""
    def __init__(self, U, line, i):
        self.U, self.line, self.i = U, line, i
        self.t = line.split(' ')
        self.op = self.t[0]
        self.fail = []
        self.before = U.snapshot()
        self.n_before = len(U.objs)
        self.cells_before = [U.cells(o) for o in U.objs]
        self.normal_before = all(normalised(o) or not o._stoichiometry.any() for o in U.objs if is_rxn(o))
        self.ref = None
        self.reset_probe = None
        if self.op == 'reset':
            try:
                o = U.rxn(self.t[1])
                self.reset_probe = self.probe_streams(o, pkg_no(o), int(self.t[2]))
            except BadCase:
                raise
            except Exception:
                self.reset_probe = None
        # who reads the conversion cell(s) this operation writes — decided BEFORE the operation, so that a setter
        # which rebinds the array instead of writing it (and so detaches earlier items / slices) is seen
        self.readers = None
        if self.op in ('setx', 'yield', 'imul', 'idiv', 'iadd', 'isub', 'setsx', 'setsxall'):
            try:
                w = U.ref(self.t[1])
                cells = []
                if self.op in ('setsx', 'setsxall'):
                    if is_set(w):
                        idx = range(len(w._X)) if self.op == 'setsxall' else ([int(self.t[2])] if int(self.t[2]) < len(w._X) else [])
                        cells = [('x', id(xbase(w._X)), xoff(w._X) + i) for i in idx]
                elif is_item(w):
                    cells = [('x', id(xbase(w._X)), xoff(w._X) + int(w._index))]
                self.readers = []
                for ci, c in enumerate(cells):
                    for k2, o2 in enumerate(U.objs):
                        if is_set(o2):
                            b2, off2 = id(xbase(o2._X)), xoff(o2._X)
                            if b2 == c[1] and off2 <= c[2] < off2 + len(o2._X):
                                self.readers.append((ci, k2, 'set', c[2] - off2))
                        elif is_item(o2) and ('x', id(xbase(o2._X)), xoff(o2._X) + int(o2._index)) == c:
                            self.readers.append((ci, k2, 'item', None))
            except BadCase:
                raise
            except Exception:
                self.readers = None
        if self.op in INPLACE:
            # the binary form on the same operands, computed first (it must not change them either)
            try:
                a = U.rxn(self.t[1])
                if self.op in ('iadd', 'isub'):
                    b = None if self.t[2] == 'none' else (0 if self.t[2] == 'zero' else U.rxn(self.t[2]))
                    self.ref = ('ok', U.fields(a + b if self.op == 'iadd' else a - b))
                else:
                    k = typed(self.t[2])
                    self.ref = ('ok', U.fields(a * k if self.op == 'imul' else a / k))
            except BadCase:
                raise
            except Exception as e:
                self.ref = ('err', 'ZeroDivisionError' if isinstance(e, FloatingPointError) else type(e).__name__, legit_error(e))
                if not legit_error(e):
                    self.add('raises:%s@%s' % (type(e).__name__, raised_in(e)),
                             'the binary form of `%s` raised %s: %s' % (line, type(e).__name__, str(e)[:120]))
            d = self.diff_existing(range(self.n_before))
            if d: self.add(INPLACE[self.op] + ':operand-mutated:' + d[1],
                           'computing the binary form for `%s` changed %s of r%d' % (line, d[1], d[0]))
            self.before = U.snapshot()

    def probe_streams(self, o, pa, pb):
        """what `o` does to one stream of package `pa` and one of package `pb` (material only in chemicals that
        both packages have): list of (package, feed, output or None)"""
        rng = random.Random(zlib.crc32(self.line.encode()) * 17 + self.i)
        ph = nph(o)
        rows = ph or 1
        common = set(PKGS[pa].IDs) & set(PKGS[pb].IDs)
        res = []
        for p in (pa, pb):
            ids = PKGS[p].IDs
            feed = []
            for r in range(rows):
                for k, name in enumerate(ids):
                    feed.append(rng.randrange(1, 257) / 4.0 if name in common and rng.random() < 0.8 else 0.0)
            try:
                out = self.U.apply_pkg(o, p, feed)
            except BadCase:
                raise
            except Exception:
                out = None
            res.append((p, feed, out))
        return res

    def add(self, sig, what):
        self.fail.append({'signature': sig, 'op_index': self.i, 'what': what})

    def diff_existing(self, idxs):
        U = self.U
        for k in idxs:
            d = fields_diff(self.before[k], U.fields(U.objs[k]))
            if d: return (k, d)
        return None

    # ---------------------------------------------------------------------------
    def after_error(self, e):
        op = self.op
        if not legit_error(e):
            self.add('raises:%s@%s' % (type(e).__name__, raised_in(e)),
                     '`%s` raised %s: %s' % (self.line, type(e).__name__, str(e)[:120]))
        if isinstance(e, (ZeroDivisionError, FloatingPointError)):
            # a division by zero is legitimate only where the combined conversion (or the divisor) really vanishes
            try:
                t = self.t
                cause = True
                if op in ('add', 'radd', 'iadd', 'sub', 'isub') and t[2].startswith('r'):
                    xa, xb = float(self.U.rxn(t[1]).X), float(self.U.rxn(t[2]).X)
                    cause = (xa + xb == 0.0) if op in ('add', 'radd', 'iadd') else (xa - xb == 0.0)
                elif op in ('div', 'idiv'):
                    cause = plain(t[2]) == 0.0
                elif op in ('mul', 'rmul', 'imul', 'neg', 'copy', 'back', 'setx', 'item', 'iteritem', 'slice', 'mkset', 'mkseries'):
                    cause = False
                if not cause:
                    self.add('%s:zero-division-without-cause' % op, '`%s` raised %s although no conversion sum or divisor is zero'
                             % (self.line, type(e).__name__))
            except BadCase:
                raise
            except Exception:
                pass
        d = self.diff_existing(range(self.n_before))
        if d: self.add('%s:operand-mutated-on-error:%s' % (op, d[1]),
                       '`%s` raised but changed %s of r%d' % (self.line, d[1], d[0]))
        if self.ref is not None and self.ref[0] == 'ok' and legit_error(e):
            self.add('%s:differs-from-binary' % op, '`%s` raised %s but the binary form returned'
                     % (self.line, type(e).__name__))

    def after_ok(self, kind, res):
        U, op, t = self.U, self.op, self.t
        # ---- operands unchanged / frame --------------------------------------------------
        if op in NON_INPLACE:
            d = self.diff_existing(range(self.n_before))
            if d: self.add('%s:operand-mutated:%s' % (op, d[1]),
                           '`%s` changed %s of r%d, which existed before' % (self.line, d[1], d[0]))
        else:
            ia = int(t[1][1:])
            mine = self.cells_before[ia]
            bystanders = [k for k in range(self.n_before) if k != ia and not (self.cells_before[k] & mine)]
            d = self.diff_existing(bystanders)
            if d: self.add('%s:bystander-mutated:%s' % (op, d[1]),
                           '`%s` changed %s of r%d, which shares nothing with r%d' % (self.line, d[1], d[0], ia))
            if kind == 'ret' and res is not U.objs[ia]:
                self.add('%s:not-in-place' % op, '`%s` did not return its left operand' % self.line)
        self.before = U.snapshot()
        # ---- fresh result ---------------------------------------------------------------------
        if op in FRESH_RESULT and kind == 'ret':
            for k in range(self.n_before):
                if U.objs[k] is res:
                    self.add('%s:result-is-operand' % op, '`%s` returned the existing object r%d, not a new one'
                             % (self.line, k))
                    break
            else:
                rc = U.cells(res)
                for k in range(self.n_before):
                    if rc & self.cells_before[k]:
                        self.add('%s:result-shares-array' % op,
                                 'the result of `%s` shares a stoichiometry or X array with r%d' % (self.line, k))
                        break
            if op not in ('reduce', 'setcopy', 'mkset', 'mkseries') and (is_item(res) or not is_rxn(res)) and not any(o is res for o in U.objs[:self.n_before]):
                self.add('%s:result-not-a-reaction' % op, 'the result of `%s` is a %s' % (self.line, type(res).__name__))
        # ---- hypothesis monitor: what the operations return stays normalised on its reactant (or empty) ----
        if kind == 'ret' and is_rxn(res) and op not in ('item', 'setbasis', 'setx', 'empty'):  # (sets are not Reaction instances)
            if self.normal_before and not normalised(res) and res._stoichiometry.any():
                self.add('%s:result-not-normalised' % op,
                         'after `%s` the reactant coefficient of the result is %r, not -1'
                         % (self.line, float(res._stoichiometry[res._reactant_index])))
        # ---- in-place == binary -----------------------------------------------------------------
        if self.ref is not None:
            if self.ref[0] == 'err':
                if self.ref[2]:
                    self.add('%s:differs-from-binary' % op, '`%s` returned but the binary form raised %s'
                             % (self.line, self.ref[1]))
            else:
                d = fields_diff(self.ref[1], U.fields(res), exact=False)
                if d: self.add('%s:differs-from-binary' % op,
                               'after `%s` the %s of the left operand differs from that of the binary form'
                               % (self.line, d))
        # ---- item <-> set (and slices): everything that read the written cell(s) reads the written value --------
        if self.readers:
            w = U.objs[int(t[1][1:])]
            if op == 'setsx':
                vals = [plain(t[3])]
            elif op == 'setsxall':
                given = [plain(x) for x in t[2].split(',')]
                n = len(w._X)
                vals = given if len(given) == n else given * n
            else:
                vals = [float(w.X)]
            for ci, k2, kind2, rel in self.readers:
                if ci >= len(vals): continue
                o2 = U.objs[k2]
                try:
                    got = float(o2.X) if kind2 == 'item' else float(o2._X[rel])
                except Exception:
                    got = None
                if got is None or not (got == vals[ci]):
                    writer = 'set' if op in ('setsx', 'setsxall') else 'item'
                    self.add('%s:%s-write-not-seen-by-%s' % (op, writer, kind2),
                             'after `%s` the %s r%d reads %r where %r was written'
                             % (self.line, kind2, k2, got, vals[ci]))
        # ---- `item += b` / `item -= b`: does the set still describe the reaction its item describes? -------------
        if op in ('iadd', 'isub') and is_item(res):
            ia = int(t[1][1:])
            if ia in U.parent:
                ks, row = U.parent[ia]
                S = U.objs[ks]
                if is_set(S) and row < len(S._X) and float(S._X[row]) == float(res.X) \
                        and res._stoichiometry is not S._stoichiometry[row] \
                        and arr_vals(res._stoichiometry) != arr_vals(S._stoichiometry[row]):
                    self.add('%s:set-row-stale' % op,
                             'after `%s` the set r%d carries the new conversion of its item r%d but the old stoichiometry: '
                             'a fresh set[%d] is not the reaction the item is' % (self.line, ks, ia, row))
        # ---- an item / a slice is created sharing the set's conversion cells and row arrays ------------------
        if op in ('item', 'iteritem', 'slice') and kind == 'ret':
            import numpy as np
            S = U.objs[int(t[1][1:])]
            if op in ('item', 'iteritem'):
                i = int(t[2])
                ok = (np.shares_memory(res._X, S._X) and res._stoichiometry is S._stoichiometry[i]
                      and xoff(res._X) + int(res._index) == xoff(S._X) + i and xbase(res._X) is xbase(S._X))
            else:
                i, j = int(t[2]), int(t[3])
                rows = S._stoichiometry[i:j]
                ok = (len(res._stoichiometry) == len(rows) and all(a is b for a, b in zip(res._stoichiometry, rows))
                      and (len(rows) == 0 or (xbase(res._X) is xbase(S._X) and xoff(res._X) == xoff(S._X) + i)))
            if not ok:
                self.add('%s:does-not-share-with-set' % op,
                         'the result of `%s` does not refer to the conversion cells / row arrays of r%s' % (self.line, t[1][1:]))
        # ---- reset_chemicals preserves the action on streams of either package ------------------------------
        if op == 'reset' and self.reset_probe is not None:
            for p, feed, before in self.reset_probe:
                if before is None: continue
                try:
                    after = U.apply_pkg(res, p, feed)
                except BadCase:
                    raise
                except Exception as e:
                    self.add('reset:acts-differently', 'after `%s` calling the reaction on a stream of package %d raises %s '
                             'where it returned before' % (self.line, p, type(e).__name__))
                    continue
                if not vec_close(before, after, feed):
                    worst = max(range(len(before)), key=lambda q: abs(before[q] - after[q]))
                    self.add('reset:acts-differently', 'after `%s` a stream of package %d gets %r for entry %d where it got %r before'
                             % (self.line, p, after[worst], worst, before[worst]))
        # ---- agreement laws on feeds -----------------------------------------------------------------------
        try:
            self.laws(kind, res)
        except BadCase:
            raise
        except Exception as e:
            self.add('%s:law-evaluation-raised:%s' % (op, type(e).__name__) if legit_error(e) else
                     'raises:%s@%s' % (type(e).__name__, raised_in(e)),
                     'applying the operands/result of `%s` to a feed raised %s: %s' % (self.line, type(e).__name__, str(e)[:120]))
        d = self.diff_existing(range(self.n_before))
        if d: self.add('apply:operand-mutated:%s' % d[1], 'applying reactions to feeds changed %s of r%d' % (d[1], d[0]))

    def laws(self, kind, res):
        U, op, t = self.U, self.op, self.t
        if op == 'subcancel':
            l, r = res
            a = U.rxn(t[1]); b = U.rxn(t[2])
            if normalised(a) and (normalised(b) or not b.has_reaction()):
                feed = [float(Fraction(x)) for x in t[3].split(',')]
                if not vec_close(l, r, feed):
                    self.add('subcancel:acts-differently', '(a+b)-b and a give different products on a feed in `%s`' % self.line[:60])
            return
        if kind != 'ret': return
        if op in ('add', 'radd', 'sub'):
            a = U.rxn(t[1])
            b = None if t[2] in ('none', 'zero') else U.rxn(t[2])
            terms = [(a, 1.0)] + ([(b, -1.0 if op == 'sub' else 1.0)] if b is not None else [])
            if not normalised(a): return
            if b is not None and b.has_reaction() and not normalised(b): return
            self.linear_law(res, terms)
        elif op in ('mul', 'rmul'):
            self.linear_law(res, [(U.rxn(t[1]), plain(t[2]))])
        elif op == 'div':
            self.linear_law(res, [(U.rxn(t[1]), 1.0 / plain(t[2]))])
        elif op == 'neg':
            self.linear_law(res, [(U.rxn(t[1]), -1.0)])
        elif op == 'copy':
            self.linear_law(res, [(U.rxn(t[1]), 1.0)])
        elif op == 'setcopy':
            self.linear_law(res, [(U.rset(t[1]), 1.0)])
        elif op == 'reduce':
            # members whose reactant does not take part (empty stoichiometry) are outside the law
            if all(normalised(m) for m in U.rset(t[1])):
                self.linear_law(res, [(U.rset(t[1]), 1.0)])

    def linear_law(self, res, terms):
        """res(feed) == feed + sum_k c_k * (obj_k(feed) - feed)"""
        U = self.U
        objs = [res] + [o for o, _ in terms]
        ph = nph(res)
        if any(nph(o) != ph for o in objs): return
        mode = 'arr' if len({o._basis for o in objs}) == 1 else 'str'
        hot = []
        for o in objs:
            if is_set(o): hot += [ridx_of(x, ph, o) for x in o._reactant_index]
            else: hot.append(ridx_of(o._reactant_index, ph, o))
        if any(o.chemicals is not res.chemicals for o in objs): return
        for j, feed in enumerate(law_feeds(self.line, self.i, ph, hot, nch(res))):
            m = mode
            if m == 'arr' and j == 0 and (zlib.crc32(self.line.encode()) & 3) == 0: m = 'str'
            if m == 'str' and j == 1: continue       # streams only take the non-negative feed
            lhs = U.apply(res, feed, m)
            rhs = list(feed)
            for o, c in terms:
                out = U.apply(o, feed, m)
                rhs = [r + c * (x - f) for r, x, f in zip(rhs, out, feed)]
            if not vec_close(lhs, rhs, feed):
                worst = max(range(len(lhs)), key=lambda q: abs(lhs[q] - rhs[q]))
                self.add('%s:acts-differently' % self.op,
                         'the result of `%s` applied to a feed (%s) gives %r for entry %d where the operands give %r'
                         % (self.line, m, lhs[worst], worst, rhs[worst]))
                return


def uses_MW(U, t):
    """does this line multiply or divide by molecular weights, or mix magnitudes that binary64 cannot hold together
    (then nothing is exact any more)"""
    try:
        op = t[0]
        lab = {'m': 'mol', 'w': 'wt'}
        if op in ('apply', 'applys', 'applys2', 'subcancel'):
            # a trace amount next to ordinary flows is absorbed by rounding: nothing is exact then
            if any(0 < abs(plain(x)) < 2.0 ** -18 for x in t[-1].split(',')): return True
        if op in ('copy', 'setbasis', 'setcopy'):
            return t[2] in lab and lab[t[2]] != U.ref(t[1])._basis
        if op in ('add', 'radd', 'sub', 'iadd', 'isub', 'subcancel'):
            return t[2].startswith('r') and U.ref(t[1])._basis != U.ref(t[2])._basis
        if op in ('applys', 'applys2'):
            return U.ref(t[1])._basis == 'wt'
        if op == 'yield':
            return t[4] in lab and lab[t[4]] != U.ref(t[1])._basis
    except Exception:
        return True
    return False


def run_ops(ops):
    # `PRELUDE` stands for the package lines of this run (used by hand-written witnesses)
    ops = [l2 for l in ops for l2 in (prelude() if l == 'PRELUDE' else [l])]
    U = Universe()
    outs, model_in, failures = [], [], []
    exact = True
    arith_ok = False
    for i, line in enumerate(ops):
        t = line.split(' ')
        if t[0] == 'pkg':
            if line != pkg_line(): raise BadCase('package line does not describe the package of this run')
            U.ready = True
            outs.append('E|ok'); model_in.append(line)
            continue
        if t[0] == 'alt':
            if line not in alt_lines(): raise BadCase('alt line does not describe a package of this run')
            outs.append('E|ok'); model_in.append(line)
            continue
        if not U.ready: raise BadCase('no pkg line')
        orc = Oracle(U, line, i)
        if uses_MW(U, t): exact = False
        try:
            U._pending_model_line = line
            kind, res, mline = U.run(line)
            if kind == 'ret' and not (is_rxn(res) or is_set(res)):
                raise Unexpected('`%s` evaluated to a %s, not to a reaction object' % (t[0], type(res).__name__))
        except BadCase:
            raise
        except Exception as e:
            mline = U._pending_model_line
            orc.after_error(e)
            # (dividing by a numpy zero raises FloatingPointError under thermosteam's numpy error state:
            #  the same "division by zero" of the error enum)
            status = 'err=' + ('ZeroDivisionError' if isinstance(e, FloatingPointError) and ('divide by zero' in str(e) or 'invalid value' in str(e))
                               else type(e).__name__)
        else:
            if kind == 'ret':
                k = U.index_of(res)
                if t[0] in NON_INPLACE or k is None:
                    # the expression produced a value: it gets the next name (even if it is an old object)
                    U.objs.append(res)
                    if t[0] in ('item', 'iteritem'): U.parent[len(U.objs) - 1] = (int(t[1][1:]), int(t[2]))
                    status = 'ret=r%d' % (k if k is not None and k < orc.n_before else len(U.objs) - 1)
                else:
                    status = 'ret=r%d' % k
                if t[0] in ('add', 'radd', 'sub', 'iadd', 'isub', 'mul', 'rmul', 'div', 'neg', 'imul', 'idiv',
                            'back', 'reduce', 'copy', 'setcopy'):
                    arith_ok = True
            else:
                status = 'out=' + ' out2='.join(dense_str(v) for v in res)
                for v in res:
                    if not all(short(x) for x in v): exact = False
            try:
                orc.after_ok(kind, res)
            except BadCase:
                raise
            except Exception as e:
                orc.add('%s:object-unreadable:%s' % (t[0], type(e).__name__),
                        'after `%s` the oracle cannot read the objects: %s' % (line[:60], str(e)[:100]))
        failures.extend(orc.fail)
        for sig, what in U.apply_issues:
            failures.append({'signature': sig, 'op_index': i, 'what': 'in `%s`: %s' % (line[:60], what)})
        U.apply_issues = []
        try:
            d, allshort = U.dump()
        except BadCase:
            raise
        except Exception as e:
            # an object can no longer be read (e.g. its conversion was replaced by something that is not one):
            # that is a finding about the operation just executed, and the end of what can be compared
            failures.append({'signature': '%s:object-unreadable:%s' % (t[0], type(e).__name__), 'op_index': i,
                             'what': 'after `%s` the fields of an object cannot be read: %s' % (line[:60], str(e)[:100])})
            outs.append('T|' + status + ' | unreadable')
            model_in.append(mline)
            break
        if not allshort: exact = False
        outs.append(('E|' if exact else 'T|') + status + ' | ' + d)
        model_in.append(mline)
    return U, outs, model_in, failures, arith_ok


def run_impl(case: Case) -> ImplResult:
    U, outs, model_in, failures, arith_ok = run_ops(case.ops)
    # an operation is counted when it really ran to completion on the real objects (not when it raised)
    tags = sorted({l.split(' ')[0] for l, o in zip(model_in, outs) if not o[2:].startswith('err=')})
    tags += ['err:' + o.split('|')[1].strip()[4:] for o in outs if o[2:].startswith('err=')]
    tags.append('mode:' + ('exact' if outs and outs[-1].startswith('E|') else 'tolerance'))
    for suf, nm in (('@a', 'X-as:0d-array'), ('@n', 'X-as:np.float64'), ('@i', 'X-as:int')):
        if any(suf in l for l in case.ops): tags.append(nm)
    # keep one failure per signature and case
    seen, fl = set(), []
    for f in failures:
        if f['signature'] not in seen:
            seen.add(f['signature']); fl.append(f)
    return ImplResult(model_in=model_in, outs=outs, failures=fl, tags=tags,
                      nontrivial=(tuple(case.ops) if arith_ok else None))


# --------------------------------------------------------------------------
# comparison of answers
# --------------------------------------------------------------------------

NUMERIC_LIST = ('X', 'out', 'out2')


def tok_close(a, b):
    """tolerance comparison of one `key=value` token"""
    if a == b: return True
    if '=' not in a or '=' not in b: return False
    ka, va = a.split('=', 1); kb, vb = b.split('=', 1)
    if ka != kb: return False
    try:
        # tolerance relative to the scale of the whole vector (cancellation leaves residues of that size)
        if ka in NUMERIC_LIST:
            xa, xb = va.split(','), vb.split(',')
            if len(xa) != len(xb): return False
            fa, fb = [parse_num(p) for p in xa], [parse_num(q) for q in xb]
            scale = max([0.0] + [abs(x) for x in fa] + [abs(x) for x in fb])
            return all(close(p, q, atol=1e-12 + 1e-9 * scale) for p, q in zip(fa, fb))
        if ka == 'v' or (ka.startswith('v') and ka[1:].isdigit()):
            def d(s):
                return {} if s == '-' else {int(i): parse_num(x) for i, x in (it.split(':') for it in s.split(';'))}
            da, db = d(va), d(vb)
            scale = max([0.0] + [abs(x) for x in da.values()] + [abs(x) for x in db.values()])
            return all(close(da.get(k, 0.0), db.get(k, 0.0), atol=1e-12 + 1e-9 * scale) for k in set(da) | set(db))
    except (ValueError, ZeroDivisionError):
        return False
    return False


def compare(impl_line, model_line):
    mode, rest = impl_line[:2], impl_line[2:]
    if rest == model_line: return True
    if mode == 'E|': return False
    ta, tb = rest.split(' '), model_line.split(' ')
    return len(ta) == len(tb) and all(tok_close(a, b) for a, b in zip(ta, tb))


def protect_prefix(case):
    """the package lines are not subject to shrinking"""
    n = 0
    for l in case.ops:
        if l.startswith('pkg') or l.startswith('alt'): n += 1
        else: break
    return n


def disagree_signature(case, res, first):
    return 'disagree:' + (res.model_in[first].split(' ')[0] if first < len(res.model_in) else 'length')


# --------------------------------------------------------------------------
# generation (adaptive: the generator runs the real objects to know what exists)
# --------------------------------------------------------------------------

def dy(rng, lo, hi, den):
    return rng.randrange(int(lo * den), int(hi * den) + 1) / den


def how(rng, v):
    """token of a scalar together with the way it is handed to the real code"""
    r = rng.random()
    suf = ''
    if r < 0.66: suf = ''
    elif r < 0.76: suf = '@n'
    elif r < 0.95: suf = '@a'
    elif float(v) == int(v): suf = '@i'
    return frac(v) + suf


def gen_X(rng, friendly):
    r = rng.random()
    if friendly:
        x = 1.0 / (1 << rng.randrange(0, 5))
        return -x if r < 0.1 else x
    if r < 0.04: return 0.0
    if r < 0.09:          # conversions far below the 1/64 grid (a cut-off like |X| < 1e-6 must not go unnoticed)
        x = 2.0 ** -rng.randrange(10, 41) if rng.random() < 0.7 else rng.randrange(1, 10) * 10.0 ** -rng.randrange(3, 10)
        return -x if rng.random() < 0.2 else x
    if r < 0.16: return -dy(rng, 1 / 64, 1, 64)
    if r < 0.24: return dy(rng, 1, 2, 64)
    return dy(rng, 1 / 64, 1, 64)


def gen_new(rng, ph, c, friendly, basis, flip=False):
    rows = ph or 1
    others = [j for j in range(N) if j != c]
    rng.shuffle(others)
    k = rng.randrange(1, 4)
    den = 2 if friendly else 8
    q = rng.choice([1.0, 2.0, 4.0, 0.5]) if friendly else dy(rng, 1 / 8, 6, 8)
    entries = [(c, q if flip else -q)]
    for j in others[:k]:
        v = dy(rng, 1 / den, 4, den)
        if rng.random() < 0.4: v = -v
        entries.append((j, v))
    want_pos = not flip
    if not any((v > 0) == want_pos for j, v in entries[1:]):
        j, v = entries[1]; entries[1] = (j, abs(v) if want_pos else -abs(v))
    if not any(v < 0 for _, v in entries): j, v = entries[-1]; entries[-1] = (j, -abs(v))
    if not any(v > 0 for _, v in entries): j, v = entries[-1]; entries[-1] = (j, abs(v))
    flat = []
    for j, v in entries:
        p = rng.randrange(rows)
        flat.append((p * N + j, v))
    flat.sort()
    return 'new %d %s %d %s %s' % (ph, basis, c, how(rng, gen_X(rng, friendly)),
                                   ';'.join('%d:%s' % (i, frac(v)) for i, v in flat))


def gen_feed(rng, ph, hot=(), n=None):
    L = (ph or 1) * (n or N)
    f = [rng.randrange(0, 129) / 4.0 if rng.random() < 0.7 else 0.0 for _ in range(L)]
    for h in hot:
        if h < L and f[h] == 0.0: f[h] = rng.randrange(1, 129) / 4.0
    if hot and rng.random() < 0.1:
        # a trace of reactant: over-conversion then gives negatives of 1e-6 … 1e-10, the range the feasibility
        # decision of __call__ has to judge
        for h in hot:
            if h < L: f[h] = 2.0 ** -rng.randrange(20, 56)
    return ','.join(frac(x) for x in f)


def obj_clean(U, o):
    """every number of the object is exact (few significant bits) — and no operation of this case has multiplied or
    divided by molecular weights yet: a re-based coefficient can LOOK short (MW(Glucose)/MW(AceticAcid) rounds to 3)
    and still differ from the exact value, so after the first re-basing nothing counts as residue-free"""
    if getattr(U, 'mw_touched', False): return False
    f = U.fields(o)
    return all(short(x) for row in f['v'] for x in row) and all(short(x) for x in f['X'])


def gen_k(rng, friendly, for_div):
    if friendly or for_div:
        k = 2.0 ** rng.randrange(-3, 4)
        if rng.random() < 0.15: k = -k
        if for_div and rng.random() < 0.03: return 0.0
        return k
    r = rng.random()
    if r < 0.03: return 0.0
    if r < 0.07: return 2.0 ** -rng.randrange(10, 31)
    k = dy(rng, 1 / 8, 6, 8)
    return -k if r < 0.15 else k


def gen_op(rng, U, friendly):
    rx = [k for k, o in enumerate(U.objs) if is_rxn(o)]
    sets = [k for k, o in enumerate(U.objs) if is_set(o)]
    if not rx: return None
    kind = rng.choices(
        ['add', 'sub', 'iadd', 'isub', 'addz', 'mul', 'div', 'neg', 'imul', 'idiv', 'copy', 'back', 'setbasis',
         'setx', 'mkset', 'item', 'setsx', 'reduce', 'apply', 'applys', 'subcancel', 'setcopy', 'slice', 'reset',
         'applys2', 'iteritem', 'setsxall', 'yield'],
        [14, 12, 8, 8, 5, 7, 6, 4, 4, 4, 6, 7, 4,
         4, 7, 8, 6, 7, 10, 4, 5, 6, 6, 6, 5, 6, 6, 6])[0]
    a = rng.choice(rx)
    oa = U.objs[a]
    def partner():
        good = [k for k in rx if nph(U.objs[k]) == nph(oa) and U.objs[k]._reactant_index == oa._reactant_index
                and U.objs[k].chemicals is oa.chemicals]
        if good and rng.random() < 0.93: return rng.choice(good)
        return rng.choice(rx)
    if kind in ('add', 'sub', 'iadd', 'isub'):
        b = partner()
        ob = U.objs[b]
        # a vanishing denominator is only comparable when no rounding residue can be present
        xs = float(oa.X) + (float(ob.X) if kind in ('add', 'iadd') else -float(ob.X))
        if xs == 0.0 and not (obj_clean(U, oa) and obj_clean(U, ob)): return None
        if ill_conditioned(float(oa.X), float(ob.X), 1 if kind in ('add', 'iadd') else -1) \
                and not (obj_clean(U, oa) and obj_clean(U, ob)): return None
        return '%s r%d r%d' % (kind, a, b)
    if kind == 'addz':
        return rng.choice(['add r%d none', 'add r%d zero', 'radd r%d zero', 'sub r%d none', 'sub r%d zero',
                           'iadd r%d none', 'isub r%d zero', 'iadd r%d zero', 'isub r%d none']) % a
    if kind in ('mul', 'imul'):
        k = gen_k(rng, friendly, False)
        nm = kind if kind == 'imul' else rng.choice(['mul', 'rmul'])
        return '%s r%d %s' % (nm, a, how(rng, k))
    if kind in ('div', 'idiv'):
        return '%s r%d %s' % (kind, a, how(rng, gen_k(rng, friendly, True)))
    if kind == 'neg': return 'neg r%d' % a
    if kind == 'copy':
        return 'copy r%d %s' % (a, rng.choices(['-', 'm', 'w', 'x'], [50, 22, 25, 3])[0])
    if kind == 'back':
        if not obj_clean(U, oa): return None
        f = U.fields(oa)
        nz = sorted({i % nch(oa) for i, x in enumerate(f['v'][0]) if x != 0 and i != f['ri'][0]})
        r = rng.random()
        if r < 0.45 or not nz: c = '-'
        elif r < 0.93: c = str(rng.choice(nz))
        else: c = str(rng.randrange(nch(oa)))
        x = '-' if rng.random() < 0.6 else how(rng, gen_X(rng, friendly))
        return 'back r%d %s %s' % (a, c, x)
    if kind == 'setbasis':
        tgt = a if rng.random() < 0.9 or not sets else rng.choice(sets)
        return 'setbasis r%d %s' % (tgt, rng.choices(['m', 'w', 'x', '-'], [40, 50, 5, 5])[0])
    if kind == 'setx': return 'setx r%d %s' % (a, how(rng, gen_X(rng, friendly)))
    if kind == 'yield':
        f = U.fields(oa); n_ = nch(oa)
        # (a rounding residue as coefficient would give a huge conversion where the exact model divides by zero)
        cols = sorted({i % n_ for i, x in enumerate(f['v'][0]) if abs(x) > 1e-6})
        if not cols and not obj_clean(U, oa): return None
        c = rng.choice(cols) if cols and (rng.random() < 0.92 or not obj_clean(U, oa)) else rng.randrange(n_)
        y = rng.randrange(-32, 33) / 16.0
        b_ = rng.choices(['-', 'm', 'w', 'x'], [55, 21, 21, 3])[0]
        if not obj_clean(U, oa):
            # the setter refuses |X| > 1: a conversion that is exactly 1 in exact arithmetic may come out as 1 + 1e-16
            # from coefficients carrying rounding residues — not comparable, so stay away from the boundary
            try:
                rows_ = len(f['v'][0]) // n_
                coef = sum(f['v'][0][p_ * n_ + c] for p_ in range(rows_))
                xp = y / coef
                lab_ = {'m': 'mol', 'w': 'wt'}
                if b_ in lab_ and lab_[b_] != oa._basis:
                    mw_ = [float(m) for m in oa.chemicals.MW]
                    r_ = f['ri'][0] % n_
                    xp *= (mw_[r_] / mw_[c]) if b_ == 'w' else (mw_[c] / mw_[r_])
                if abs(abs(xp) - 1.0) < 1e-6: return None
            except ZeroDivisionError:
                pass
        return 'yield r%d %d %s %s' % (a, c, how(rng, y), b_)
    if kind == 'mkset':
        good = [k for k in rx if nph(U.objs[k]) == nph(oa) and (U.objs[k]._basis == oa._basis or rng.random() < 0.05)
                and (U.objs[k].chemicals is oa.chemicals or rng.random() < 0.05)]
        rng.shuffle(good)
        ms = [a] + [k for k in good if k != a][:rng.randrange(1, 4)]
        if rng.random() < 0.04: ms.append(rng.choice(rx))
        return ('mkseries ' if rng.random() < 0.3 else 'mkset ') + ','.join('r%d' % k for k in ms)
    if kind in ('item', 'iteritem', 'setsx', 'setsxall', 'reduce', 'setcopy', 'slice'):
        if not sets: return None
        s = rng.choice(sets); n = len(U.objs[s]._X)
        if kind == 'reduce':
            par = [k for k in sets if isinstance(U.objs[k], tmo.ParallelReaction)]
            if par and rng.random() < 0.9: s = rng.choice(par)
            if len(U.objs[s]._X) == 0: return None
            return 'reduce r%d' % s
        if kind == 'setcopy':
            return 'setcopy r%d %s' % (s, rng.choices(['-', 'm', 'w', 'x'], [45, 25, 27, 3])[0])
        if kind == 'slice':
            if n == 0: return None
            i = rng.randrange(n); j = rng.randrange(i + 1, n + 2)
            if rng.random() < 0.04: j = i
            return 'slice r%d %d %d' % (s, i, j)
        if n == 0: return None
        i = rng.randrange(n) if rng.random() < 0.97 else n
        if kind == 'setsxall':
            m = n if rng.random() < 0.85 else (1 if rng.random() < 0.7 else n + 1)
            return 'setsxall r%d %s' % (s, ','.join(how(rng, gen_X(rng, friendly)) for _ in range(m)))
        if kind in ('item', 'iteritem'): return '%s r%d %d' % (kind, s, i)
        return 'setsx r%d %d %s' % (s, i, how(rng, gen_X(rng, friendly)))
    if kind in ('apply', 'applys'):
        tgt = rng.choice(rx + sets)
        o = U.objs[tgt]; ph = nph(o)
        hot = ([ridx_of(x, ph, o) for x in o._reactant_index] if is_set(o)
               else [ridx_of(o._reactant_index, ph, o)])
        return '%s r%d %s' % (kind, tgt, gen_feed(rng, ph, hot, nch(o)))
    if kind == 'reset':
        # (a rounding residue on a chemical the other package lacks would raise where the exact model does not)
        plain = [k for k in rx if not is_item(U.objs[k]) and obj_clean(U, U.objs[k])]
        if not plain: return None
        k = rng.choice(plain)
        cur = pkg_no(U.objs[k])
        tgt = rng.choice([q for q in range(len(PKGS)) if q != cur] if rng.random() < 0.9 else [cur])
        return 'reset r%d %d' % (k, tgt)
    if kind == 'applys2':
        plain = [k for k in rx if not is_item(U.objs[k])]
        if not plain: return None
        k = rng.choice(plain); o = U.objs[k]; ph = nph(o)
        pq = rng.randrange(len(PKGS))
        if PKGS[pq] is not o.chemicals and not obj_clean(U, o): pq = pkg_no(o)
        names = PKGS[pq].IDs
        own = set(o.chemicals.IDs)
        feed = []
        for r in range(ph or 1):
            for name in names:
                ok = name in own or rng.random() < 0.03
                feed.append(rng.randrange(1, 129) / 4.0 if ok and rng.random() < 0.7 else 0.0)
        return 'applys2 r%d %d %s' % (k, pq, ','.join(frac(x) for x in feed))
    if kind == 'subcancel':
        b = partner(); ob = U.objs[b]
        if float(oa.X) == 0.0 or float(oa.X) + float(ob.X) == 0.0: return None
        if abs(float(oa.X)) < 1e-4 * abs(float(ob.X)) or ill_conditioned(float(oa.X), float(ob.X), 1): return None
        return 'subcancel r%d r%d %s' % (a, b, gen_feed(rng, nph(oa), [ridx_of(oa._reactant_index, nph(oa), oa)], nch(oa)))
    return None


def ill_conditioned(xa, xb, sign):
    """the combined conversion X_a ± X_b is a small difference of larger numbers: in binary64 the resulting
    stoichiometry (divided by that difference) loses the digits the comparison needs — not comparable unless
    every value involved is exact"""
    s = xa + sign * xb
    return s != 0.0 and abs(s) < 1e-4 * max(abs(xa), abs(xb))


def reduce_safe(U, line):
    """`reduce` is generated only when no partial X sum inside a group vanishes, or all members are residue-free"""
    s = U.objs[int(line.split(' ')[1][1:])]
    if obj_clean(U, s): return True
    ph = nph(s)
    sums = {}
    for ri, x in zip(s._reactant_index, s._X):
        k = ridx_of(ri, ph, s)
        if k in sums:
            if float(x) != 0.0:
                if ill_conditioned(sums[k], float(x), 1): return False
                sums[k] += float(x)
                if sums[k] == 0.0: return False
        else:
            sums[k] = float(x)
    return True


def gen_case(rng, length):
    U = Universe()
    ops = []
    def do(line):
        ops.append(line)
        if line.startswith('pkg') or line.startswith('alt'):
            U.ready = True; return True
        try:
            kind, res, _ = U.run(line)
            if kind == 'ret' and not (is_rxn(res) or is_set(res)): return False
        except BadCase:
            ops.pop(); raise
        except Exception:
            return False
        if kind == 'ret':
            t0 = line.split(' ')[0]
            if t0 in NON_INPLACE or U.index_of(res) is None:
                U.objs.append(res)
                if t0 in ('item', 'iteritem'): U.parent[len(U.objs) - 1] = (int(line.split(' ')[1][1:]), int(line.split(' ')[2]))
        return True
    for l in prelude(): do(l)
    friendly = rng.random() < 0.45
    ph = rng.choice([0, 0, 0, 0, 3, 3, 3, 2])
    c = rng.randrange(N)
    mixed = rng.random() < 0.3
    base = rng.choice(['m', 'm', 'm', 'w'])
    for _ in range(rng.randrange(2, 5)):
        b = rng.choice(['m', 'w']) if mixed else base
        do(gen_new(rng, ph, c, friendly, b, flip=rng.random() < 0.08))
    r = rng.random()
    if r < 0.07: do(gen_new(rng, ph, (c + 1 + rng.randrange(N - 1)) % N, friendly, base))      # another reactant
    elif r < 0.12: do(gen_new(rng, 2 if ph in (0, 3) else 3, c, friendly, base))                # other phases
    elif r < 0.16: do('empty %s %d %s' % (base, c, how(rng, gen_X(rng, friendly))))               # Reaction('')
    n = 0
    tries = 0
    while n < length and tries < 6 * length:
        tries += 1
        try:
            line = gen_op(rng, U, friendly)
            if line is not None and line.startswith('reduce') and not reduce_safe(U, line): continue
        except BadCase:
            raise
        except Exception:
            break       # the objects of the tree under test can no longer be read: the case ends here (run_impl reports it)
        if line is None: continue
        do(line)
        n += 1
    return Case(ops, {})


def gen_case_item_mixed(rng, length):
    """a Reaction on one basis combined with ReactionItems of a set kept on the other basis (adaptive)"""
    U = Universe()
    ops = []
    def do(line):
        ops.append(line)
        if line.startswith('pkg') or line.startswith('alt'):
            U.ready = True; return True
        try:
            kind, res, _ = U.run(line)
            if kind == 'ret' and not (is_rxn(res) or is_set(res)): return False
        except BadCase:
            ops.pop(); raise
        except Exception:
            return False
        if kind == 'ret' and (line.split(' ')[0] in NON_INPLACE or U.index_of(res) is None):
            U.objs.append(res)
        return True
    for l in prelude(): do(l)
    friendly = rng.random() < 0.3
    ph = rng.choice([0, 0, 3])
    c = rng.randrange(N)
    b1, b2 = rng.choice([('m', 'w'), ('w', 'm')])
    do(gen_new(rng, ph, c, friendly, b1))
    nset = rng.randrange(2, 4)
    for _ in range(nset): do(gen_new(rng, ph, c, friendly, b2))
    if len(U.objs) != nset + 1: return Case(ops, {})
    do(('mkseries ' if rng.random() < 0.3 else 'mkset ') + ','.join('r%d' % k for k in range(1, nset + 1)))
    sid = nset + 1
    items = []
    for i in range(nset):
        if rng.random() < 0.8 or (i == nset - 1 and not items):
            do('item r%d %d' % (sid, i)); items.append(len(U.objs) - 1)
    hot = [ridx_of(U.objs[0]._reactant_index, ph, U.objs[0])]
    def xsum_zero(p, q, sign):
        xa_, xb_ = float(U.objs[p].X), float(U.objs[q].X)
        return xa_ + sign * xb_ == 0.0 or ill_conditioned(xa_, xb_, sign) or (sign == 1 and abs(xa_) < 1e-4 * abs(xb_))
    n = 0
    for _ in range(4 * length):
        if n >= length: break
        it = rng.choice(items)
        rx = [k for k, o in enumerate(U.objs) if is_rxn(o)]
        kind = rng.choices(['add', 'add2', 'sub', 'sub2', 'iadd', 'isub', 'iadd2', 'applys', 'setsx', 'setx', 'subcancel', 'copy'],
                           [5, 5, 3, 3, 4, 3, 3, 4, 3, 2, 2, 2])[0]
        line = None
        if kind == 'add' and not xsum_zero(0, it, 1): line = 'add r0 r%d' % it
        elif kind == 'add2' and not xsum_zero(it, 0, 1): line = 'add r%d r0' % it
        elif kind == 'sub' and not xsum_zero(0, it, -1): line = 'sub r0 r%d' % it
        elif kind == 'sub2' and not xsum_zero(it, 0, -1): line = 'sub r%d r0' % it
        elif kind == 'iadd' and not xsum_zero(it, 0, 1): line = 'iadd r%d r0' % it
        elif kind == 'isub' and not xsum_zero(it, 0, -1): line = 'isub r%d r0' % it
        elif kind == 'iadd2' and not xsum_zero(0, it, 1): line = 'iadd r0 r%d' % it
        elif kind == 'applys': line = 'applys r%d %s' % (rng.choice(rx + [sid]), gen_feed(rng, ph, hot))
        elif kind == 'setsx': line = 'setsx r%d %d %s' % (sid, rng.randrange(nset), how(rng, gen_X(rng, friendly) or 0.5))
        elif kind == 'setx': line = 'setx r%d %s' % (it, how(rng, gen_X(rng, friendly) or 0.25))
        elif kind == 'subcancel' and float(U.objs[0].X) != 0.0 and not xsum_zero(0, it, 1):
            line = 'subcancel r0 r%d %s' % (it, gen_feed(rng, ph, hot))
        elif kind == 'copy': line = 'copy r%d %s' % (it, rng.choice(['-', 'm', 'w']))
        if line is None: continue
        do(line); n += 1
    return Case(ops, {})


def generate(rng, tier, index, nworkers):
    b = budget(tier)
    n = max(1, b['cases'] // nworkers)
    for j in range(n):
        r = rng.random()
        try:
            if r < 0.1: c = gen_case_item_mixed(rng, rng.randrange(4, 14))
            elif r < 0.5: c = gen_case(rng, rng.randrange(3, 9))
            elif r < 0.9: c = gen_case(rng, rng.randrange(8, 20))
            else: c = gen_case(rng, 30)
        except BadCase:
            continue          # the tree under test made the generator's own bookkeeping inconsistent: draw another case
        except Exception:
            continue          # (objects unreadable while choosing the next operation: see gen_case)
        yield c


def corpus():
    p = pkg_line()
    g = 'new 0 m 3 1/2 1:1;3:-1;4:1;5:-1'         # Glucose + O2 -> Ethanol + CO2   X=0.5
    h = 'new 0 m 3 1/4 0:1;3:-1;4:1;5:-1'         # Glucose + O2 -> Water + CO2     X=0.25
    z = 'new 0 m 3 0 0:1;3:-1;4:1;5:-1'           # the same with X=0: "no reaction"
    f = 'new 0 m 3 1/2 1:2;3:-1'                  # Glucose -> 2 Ethanol
    fp = 'new 3 m 3 1/2 9:2;19:-1'                # Glucose,s -> 2 Ethanol,l
    feed = '1,2,3,4,5,6,7,8'
    return [
        Case([p, g, h, 'add r0 r1', 'sub r2 r1', 'subcancel r0 r1 ' + feed, 'apply r2 ' + feed, 'apply r3 ' + feed]),
        Case([p, g, h, 'add r0 r1', 'isub r2 r1']),                      # defect C17-1
        Case([p, f, 'back r0 - -', 'apply r1 ' + feed]),                 # defect C17-2
        Case([p, g, z, 'sub r0 r1', 'sub r0 none', 'imul r2 2']),        # defect C17-3
        Case([p, fp, 'back r0 - -', 'back r0 1 1/4']),                   # defect C17-4
        Case([p, g, h, 'mkset r0,r1', 'item r2 0', 'copy r3 -', 'neg r3', 'reduce r2', 'setx r3 1/8', 'setsx r2 0 1/16']),   # defect C17-5
        Case([p, g, h, 'mkset r0,r1', 'setbasis r0 w', 'item r2 0', 'iadd r3 r1', 'setbasis r3 m', 'setbasis r2 m']),
        Case([p, g, 'neg r0', 'add r0 r1', 'add r2 r0', 'copy r0 w', 'add r0 r4', 'iadd r4 r0', 'div r0 0', 'copy r0 x']),
    ]


def search(case, rng, budget_s):
    """near a disagreement: random continuations, looking for an oracle failure on the real code"""
    import time
    t0 = time.time()
    while time.time() - t0 < budget_s:
        U = Universe()
        ops = list(case.ops)
        try:
            for l in ops:
                if l.startswith('pkg') or l.startswith('alt'): U.ready = True; continue
                try:
                    kind, res, _ = U.run(l)
                except BadCase:
                    return None
                except Exception:
                    continue
                if kind == 'ret' and (l.split(' ')[0] in NON_INPLACE or U.index_of(res) is None):
                    U.objs.append(res)
            for _ in range(rng.randrange(1, 6)):
                l = gen_op(rng, U, False)
                if l is None or l.startswith('reduce'): continue
                ops.append(l)
                try:
                    kind, res, _ = U.run(l)
                except Exception:
                    continue
                if kind == 'ret' and (l.split(' ')[0] in NON_INPLACE or U.index_of(res) is None):
                    U.objs.append(res)
            c = Case(ops, {})
            res = run_impl(c)
            if res.failures: return c
        except BadCase:
            return None
    return None
